#!/usr/bin/env python3
"""C09: compiled code is structurally well-formed on every control-flow path (engine C).

Programs (concrete, produced by the REAL compiler on this run): statement skeletons (cfgcheck/skeletons.py) + the repository's
example corpus.  Per emitted function: Horn clauses over (instruction, open scopes, frame depth, operand-stack height), all
branch outcomes unconstrained, solved by z3/Spacer (cfgcheck/model.py).  The step summary is validated against real executions
through the trace hook; real traces are also checked against the property directly."""
import sys, os, time, json, argparse, glob, re, subprocess, multiprocessing
HERE = os.path.dirname(os.path.abspath(__file__))
sys.path.insert(0, os.path.join(HERE, "..", "lib"))
sys.path.insert(0, os.path.join(HERE, "..", "cfgcheck"))
import vcommon as V
from vcommon import log
import skeletons as SK, model as M, trace as TR

CHUNK = 60


def opcode_names(repo):
    src = open(os.path.join(repo, "bytecode/src/instruction_constants.rs")).read()
    return {int(n): k.lower() for k, n in re.findall(r"^\s+([A-Z_0-9]+)\s+(\d+)\s*$", src, re.M)}


def build_cli(scratch):
    t = time.time()
    env = V.env_offline({"RUSTFLAGS": "--cfg mscript_verif -Awarnings"})
    V.run(["cargo", "build", "--offline", "--target-dir", os.path.join(scratch.dir, "target-cli")], cwd=scratch.repo, env=env, timeout=1800)
    exe = os.path.join(scratch.dir, "target-cli", "debug", "mscript")
    if not os.path.exists(exe):
        raise V.Inconclusive("CLI binary not built")
    log("  CLI with trace hook built in %.1fs" % (time.time() - t))
    return exe


def compile_raw(exe, path):
    out = path[:-3] + ".mmm"
    if os.path.exists(out):
        os.remove(out)
    p = subprocess.run([exe, "compile", path, "--output-format", "raw-text", "--quick"], cwd=os.path.dirname(path), text=True,
                       capture_output=True, env=dict(os.environ, RUST_BACKTRACE="0"), timeout=300)
    if p.returncode != 0 or not os.path.exists(out):
        return None, (p.stdout + p.stderr)[-500:]
    return open(out, encoding="utf-8", errors="replace").read(), ""


def run_traced(exe, path, timeout=300):
    tr = path[:-3] + ".trace"
    if os.path.exists(tr):
        os.remove(tr)
    p = subprocess.run([exe, "run", path, "-q"], cwd=os.path.dirname(path), text=True, capture_output=True,
                       env=dict(os.environ, RUST_BACKTRACE="0", MSCRIPT_VERIF_TRACE=tr), timeout=timeout)
    recs = TR.read_trace(tr) if os.path.exists(tr) else []
    if os.path.exists(tr):
        os.remove(tr)
    return p.returncode, (p.stdout + p.stderr)[-800:], recs


def trace_one(job):
    exe, path, funcs, ops = job
    rc, out, recs = run_traced(exe, path)
    c, mm, rl = TR.validate(recs, funcs, ops)
    return path, rc, out, len(recs), c, mm, rl


def solve_one(job):
    name, code, timeout_ms = job
    t = time.time()
    try:
        # vacuity witness on a deterministic tenth of the functions
        r = M.check_function(name, code, timeout_ms, vacuity_witness=(sum(map(ord, name)) % 10 == 0))
    except Exception as e:   # noqa
        r = {"status": "unknown", "reason": "%s: %s" % (type(e).__name__, e), "violations": []}
    r["name"] = name
    r["t"] = time.time() - t
    r["violations"] = [(v.kind, v.ip, v.detail) for v in r.get("violations", [])]
    return r


def main():
    ap = argparse.ArgumentParser()
    ap.add_argument("--tier", default=os.environ.get("VERIF_TIER", "quick"))
    ap.add_argument("--replay")
    a = ap.parse_args()
    t0 = time.time()
    try:
        scratch = V.Scratch("c09")
        exe = build_cli(scratch)
        if a.replay:
            return replay(scratch, exe, a.replay)
        return check(scratch, exe, a, t0)
    except V.Inconclusive as e:
        log("INCONCLUSIVE:", e)
        print("INCONCLUSIVE property=C09 reason=%s" % str(e)[:400].replace("\n", " "))
        return V.EXIT_INCONCLUSIVE


def check(scratch, exe, a, t0):
    ops = opcode_names(scratch.repo)
    depth, limit = (3, 5000) if a.tier == "quick" else (4, 40000)
    sel, total, exhaustive = SK.select(depth, limit, V.seed())
    work = os.path.join(scratch.dir, "skel")
    os.makedirs(work, exist_ok=True)
    timeout_ms = 60000 if a.tier == "quick" else 120000
    programs = []     # (path, {fname: (spine, leaf, variant)})
    for ci in range(0, len(sel), CHUNK):
        chunk = sel[ci:ci + CHUNK]
        funcs = [("f%d" % (ci + j),) + x for j, x in enumerate(chunk)]
        path = os.path.join(work, "sk%05d.ms" % ci)
        with open(path, "w") as f:
            f.write(SK.module_source(funcs))
        # the compiler names the j-th function literal of a module `__fn<j>`
        programs.append((path, {"__fn%d" % j: (sp, lf, v) for j, (n, sp, lf, v) in enumerate(funcs)}))
    # corpus
    corpus = sorted(glob.glob(os.path.join(scratch.repo, "examples", "**", "*.ms"), recursive=True) +
                    glob.glob(os.path.join(scratch.repo, "leetcode_problems", "**", "*.ms"), recursive=True))
    jobs, fmap = [], {}
    ncompiled, compile_fail = 0, []
    texts = {}
    t = time.time()
    for path, meta in programs + [(p, None) for p in corpus]:
        text, err = compile_raw(exe, path)
        if text is None:
            if meta is not None:
                raise V.Inconclusive("a skeleton module does not compile: %s: %s" % (path, err))
            compile_fail.append(os.path.basename(path))
            continue
        ncompiled += 1
        funcs = M.parse_raw_text(text)
        texts[path] = funcs
        for fname, code in funcs.items():
            key = "%s#%s" % (os.path.relpath(path, scratch.dir), fname)
            fmap[key] = (path, fname, meta)
            jobs.append((key, code, timeout_ms))
    log("  compiled %d modules (%d skeleton functions of %d in the space, %d corpus files; %d corpus files do not compile stand-alone) in %.1fs"
        % (ncompiled, len(sel), total, len(corpus) - len(compile_fail), len(compile_fail), time.time() - t))
    t = time.time()
    with multiprocessing.Pool(14) as pool:
        results = pool.map(solve_one, jobs, chunksize=8)
    solver_s = sum(r["t"] for r in results)
    log("  Spacer: %d functions, %.1fs wall, %.1fs solver" % (len(results), time.time() - t, solver_s))
    viol = [r for r in results if r["status"] == "violation"]
    unknown = [r for r in results if r["status"] == "unknown"]
    unmodelled = [r for r in results if r.get("unmodelled")]
    # trace validation on the skeleton modules (and confirmation of violations)
    t = time.time()
    nrec = ntrans = 0
    mism, real, crashed = [], [], []
    tv_programs = programs if a.tier == "thorough" else programs[:: max(1, len(programs) // 16)]
    vio_paths = {fmap[r["name"]][0] for r in viol}
    tv_jobs = [(exe, path, texts[path], ops) for path, meta in programs if (path, meta) in tv_programs or path in vio_paths]
    with multiprocessing.Pool(14) as pool:
        for path, rc, out, n, c, mm, rl in pool.map(trace_one, tv_jobs):
            nrec += n
            ntrans += c
            mism += [(path,) + m for m in mm]
            real += [(path,) + r for r in rl]
            if rc != 0:
                crashed.append((path, out))
    log("  trace validation: %d records, %d transitions checked against the summary, %d mismatches, %d real-trace violations, %d crashed runs, %.1fs"
        % (nrec, ntrans, len(mism), len(real), len(crashed), time.time() - t))
    return report(a, scratch, results, viol, unknown, unmodelled, mism, real, crashed, fmap, dict(
        skeleton_space=total, skeletons=len(sel), exhaustive=exhaustive, depth=depth, corpus=len(corpus) - len(compile_fail),
        corpus_not_compiling=compile_fail, records=nrec, transitions=ntrans, solver_s=solver_s), t0)


def describe(meta, fname):
    if meta and fname in meta:
        sp, lf, v = meta[fname]
        return "skeleton %s > %s (variant %d)" % (" > ".join(sp), lf, v)
    return "corpus function"


def report(a, scratch, results, viol, unknown, unmodelled, mism, real, crashed, fmap, st, t0):
    known = V.known_index("C09")
    code = V.EXIT_OK
    new = []
    # 1. violations the solver found in emitted code, confirmed by a real run (crash or real-trace violation in that module)
    crashed_paths = {p for p, _ in crashed}
    real_paths = {r[0] for r in real}
    unconfirmed = []
    for r in viol:
        path, fname, meta = fmap[r["name"]]
        confirmed = path in crashed_paths or path in real_paths
        for kind, ip, detail in r["violations"] or [("unspecified", -1, "")]:
            sk = meta.get(fname) if meta else None
            key = ("C09", "skeleton" if sk else fname, (" > ".join(sk[0]) + " > " + sk[1]) if sk else os.path.basename(path), kind, "any")
            ent = {"function": r["name"], "what": describe(meta, fname), "kind": kind, "ip": ip, "detail": detail, "confirmed_by_real_run": confirmed, "key": key}
            if key in known:
                print("KNOWN-FINDING: property=C09 %s %s: %s" % (ent["what"], kind, known[key].get("what", detail)))
            elif confirmed:
                new.append((path, ent))
            else:
                unconfirmed.append(ent)
    # 2. the real interpreter violating the property on a real trace (summary or not)
    for r in real:
        path, fn, what = r
        new.append((path, {"function": fn, "kind": "real-trace", "detail": what, "what": "observed in a real execution"}))
    seen = set()
    for path, ent in new:
        k = (path, ent["function"], ent["kind"])
        if k in seen:
            continue
        seen.add(k)
        if len(seen) > 25:
            continue      # every violation counts; only the first 25 get a replay file and a line
        rp = V.save_replay("C09", re.sub(r"[^A-Za-z0-9]+", "_", "%s_%s_%s" % (os.path.basename(path), ent["function"], ent["kind"]))[:120],
                           {"property": "C09", "program": open(path).read(), "entry": ent})
        print("VIOLATION property=C09 replay=%s" % rp)
        print("   %s [%s] %s: %s" % (ent["function"], ent["what"], ent["kind"], ent["detail"]))
        code = V.EXIT_VIOLATION
    if code == V.EXIT_OK and (mism or unknown or unconfirmed or (crashed and not viol)):
        for m in mism[:5]:
            log("SUMMARY MISMATCH (the step summary or the interpreter changed):", m)
        for u in unknown[:5]:
            log("UNDECIDED:", u["name"], u.get("reason"))
        for u in unconfirmed[:5]:
            log("UNCONFIRMED solver violation (no real run shows it):", u)
        for c in crashed[:3]:
            log("CRASHED skeleton run:", c[0], c[1][-300:])
        code = V.EXIT_INCONCLUSIVE
        print("INCONCLUSIVE property=C09 summary_mismatches=%d undecided=%d unconfirmed=%d crashed=%d" % (len(mism), len(unknown), len(unconfirmed), len(crashed)))
    okc = sum(1 for r in results if r["status"] == "ok")
    sites = sum(r.get("sites_checked", 0) for r in results)
    samples = []
    for r in results[:3]:
        samples.append({"function": r["name"], "status": r["status"], "error_rules": r.get("sites_checked")})
    for path, ent in new[:3]:
        samples.append(ent)
    coverage = {
        "programs": len(results), "disagreements_checked": len(viol) + len(real) + len(mism),
        "samples": samples,
        "functions_ok": okc, "vacuity_witnesses (a return is reachable in the same clauses)": sum(1 for r in results if r.get("vacuity_witness")), "functions_violating": len(viol), "functions_undecided": len(unknown),
        "functions_with_operand_stack_obligations_decided": sum(1 for r in results if r.get("operand_stack_decided")),
        "functions_with_calls_or_unmodelled_opcodes (operand-stack obligations undecided there, frames and jumps decided)": sum(1 for r in results if not r.get("operand_stack_decided")),
        "error_rules_discharged (jump range, frame underflow/leak/imbalance/accumulation, operand-stack requirements)": sites,
        "skeletons": {"depth": st["depth"], "selected": st["skeletons"], "space": st["skeleton_space"], "exhaustive": st["exhaustive"]},
        "corpus_files": st["corpus"], "corpus_files_not_compiling_standalone": st["corpus_not_compiling"],
        "traces_validated_against_impl": st["transitions"], "trace_records": st["records"], "summary_mismatches": len(mism),
        "solver_time_s": round(st["solver_s"], 1),
        "checker_cmd": "python3-vt checks/c09_main.py --tier %s  (z3 Fixedpoint, engine=spacer)" % a.tier,
        "bounds": "skeleton nesting depth <= %d (one spine per function, leaf in plain/break/continue/return); S, D, H unbounded integers: any number of loop iterations" % st["depth"],
    }
    V.write_evidence("C09", a.tier, "translation_validation", coverage,
                     ["what is validated is the compiler's OUTPUT on this run; the interpreter side is the step summary in cfgcheck/model.py, validated on this run against %d real transitions recorded by the trace hook" % st["transitions"],
                      "call instructions: the callee is checked as its own function; at the call site the operand stack afterwards holds 0 or 1 value"],
                     time.time() - t0, len(seen))
    log("C09: %d functions (%d ok, %d violating, %d undecided), %d error rules, %d new violations, %.1fs" % (len(results), okc, len(viol), len(unknown), sites, len(seen), time.time() - t0))
    return code


def replay(scratch, exe, path):
    d = json.load(open(path))
    work = os.path.join(scratch.dir, "replay")
    os.makedirs(work, exist_ok=True)
    src = os.path.join(work, "prog.ms")
    open(src, "w").write(d["program"])
    text, err = compile_raw(exe, src)
    if text is None:
        print("program no longer compiles:", err)
        return V.EXIT_OK
    funcs = M.parse_raw_text(text)
    ops = opcode_names(scratch.repo)
    bad = []
    for fn, code in funcs.items():
        r = M.check_function(fn, code)
        if r["status"] == "violation":
            bad.append((fn, r["violations"]))
    rc, out, recs = run_traced(exe, src)
    c, mm, rl = TR.validate(recs, funcs, ops)
    print("solver violations:", bad[:3], "| run exit", rc, "| real-trace violations:", rl[:3])
    if (bad and rc != 0) or rl:
        print("VIOLATION property=C09 replay=%s" % path)
        return V.EXIT_VIOLATION
    print("not reproduced on the current tree")
    return V.EXIT_OK


if __name__ == "__main__":
    sys.exit(main())
