#!/usr/bin/env python3
"""C12 (kernel): optional values.

Engine B over the MIR of the real code, payloads symbolic and full width:
  * nil-aware equality: instructions `equ` / `neq` (-> Primitive::equals) for every pair of operand shapes
    {nil, present optional Some<K>, plain K}, K in {int, bigint, float, byte, bool};
  * `unwrap <span>` (`get x`), `unwrap_into <name>` (`a ?= e`), `jmp_not_nil <n>` (`(x) or y`) instruction bodies.
Oracle: x == nil iff x is nil; a present optional equals the plain value it holds (payload equality as in C05);
`get` yields the payload or fails naming the span; `?=` stores the payload (or nil) and is true exactly when present;
`or` keeps a present value and jumps over the fallback, drops nil and falls through.
"""
import sys, os, time, json, argparse, itertools
HERE = os.path.dirname(os.path.abspath(__file__))
sys.path.insert(0, os.path.join(HERE, "..", "lib"))
sys.path.insert(0, os.path.join(HERE, "..", "mirsym"))
import z3
import vcommon as V
from vcommon import log
import native as N
import mir, sym, targets, opkernels as K, opcheck as Q
from sym import Adt, Ref, Opaque, Sc

PLAIN = ["Int", "BigInt", "Float", "Byte", "Bool"]
SHAPES = K.OPT_KINDS + PLAIN
SPAN = "prog.ms:12:7"


class OptKernels:
    def __init__(self, ker, mf):
        self.ker = ker
        targets.register_enum_from_source(os.path.join(ker.repo, "bytecode/src/function.rs"), "InstructionExitState")
        self.fn = dict(ker.instr_fn)
        for n in ("unwrap", "unwrap_into", "jmp_not_nil"):
            self.fn[n] = targets.find_one(mf, r"^(implementations::)?%s$" % n)

    def run(self, ins, iargs, kinds, existing=False):
        cells = {}
        if existing:
            # the `?=` target already holds a present value (Ctx::load_variable finds it)
            cells[("var", iargs[0])] = K.prim("Int", sym.bv("i32", 7))
        inputs = [K.opt_payload(k, "ab"[i]) for i, k in enumerate(kinds)]
        ops = [K.opt_prim(cells, ("heap", i), k, inputs[i]) for i, k in enumerate(kinds)]
        cells[("ctx",)] = Adt("Ctx", None, [Adt("Vec", None, ops)] + [Opaque("ctx-field", i) for i in range(1, 6)])
        cells[("iargs",)] = Adt("[]", None, [Opaque("strlit", '"%s"' % x) for x in iargs])
        outs = self.ker.ex.run(self.fn[ins], [Ref(("ctx",)), Ref(("iargs",))], cells=cells)
        return inputs, outs


def mentions(v, cells, literal, depth=0):
    """does an (opaque) error value carry the given string literal among its format arguments?"""
    if depth > 60:
        return False
    if isinstance(v, Opaque):
        if v.tag == "strlit" and v.data.strip('"') == literal:
            return True
        return mentions(v.data, cells, literal, depth + 1)
    if isinstance(v, (tuple, list)):
        return any(mentions(x, cells, literal, depth + 1) for x in v)
    if isinstance(v, Adt):
        return any(mentions(x, cells, literal, depth + 1) for x in v.fields)
    if isinstance(v, Ref):
        c = cells.get(v.cell)
        for i in v.path:
            if isinstance(c, Adt) and i < len(c.fields):
                c = c.fields[i]
            else:
                return False
        return mentions(c, cells, literal, depth + 1)
    return False


def stack_of(o):
    return o.cells[("ctx",)].fields[0].fields


def eq_oracle(k1, a, k2, b):
    """-> None (unsupported pairing: bool with number) | z3 Bool: truth of `x == y`"""
    if k1 == "Nil" or k2 == "Nil":
        return z3.BoolVal(k1 == "Nil" and k2 == "Nil")
    b1, b2 = K.base_kind(k1), K.base_kind(k2)
    if (b1 == "Bool") != (b2 == "Bool"):
        return None
    if b1 == "Bool":
        return a.e == b.e
    return K.oracle("equals", (b1, b2), [a, b])["value"]


# `?=` binds its target through Ctx::register_variable (nearest binding within the function, since fix b1486bc; which binding that
# is, is decided by C07's scope kernel) - older trees called register_variable_local; both are recorded effects here
STORE_EFFECTS = ("register_variable_local", "register_variable")


def _plain_name(v):
    """the name argument is a String or a Cow::Owned(String)"""
    while getattr(v, "variant", None) in ("Owned", "Borrowed") and getattr(v, "fields", None):
        v = v.fields[0]
    return v


def main():
    ap = argparse.ArgumentParser()
    ap.add_argument("--tier", default=os.environ.get("VERIF_TIER", "quick"))
    ap.add_argument("--replay")
    ap.add_argument("--emit-known")
    a = ap.parse_args()
    t0 = time.time()
    try:
        scratch = V.Scratch("c12")
        nat = N.NativeBytecode(scratch)
        if a.replay:
            return replay(nat, a.replay)
        return check(scratch, nat, a, t0)
    except (V.Inconclusive, sym.Inconclusive, mir.MirError) as e:
        log("INCONCLUSIVE:", e)
        print("INCONCLUSIVE property=C12 reason=%s" % str(e)[:400].replace("\n", " "))
        return V.EXIT_INCONCLUSIVE


class Case:
    """one kernel instance: engine-B outcomes + expected behaviour, in a form shared by validation, queries and replay"""

    def __init__(self, ins, iargs, kinds, inputs, outs):
        self.ins, self.iargs, self.kinds, self.inputs, self.outs = ins, iargs, kinds, inputs, outs

    def native_op(self):
        return "O:" + self.ins + (":" + self.iargs[0] if self.iargs else "")

    def describe(self, o):
        """engine-B outcome as the string the native harness prints (with symbolic payload exprs)"""
        if o.kind == "panic":
            return ("PANIC",), None
        if o.value.variant == "Err":
            return ("ERR",), None
        st = stack_of(o)
        eff = o.effects
        return st, eff


def check(scratch, nat, a, t0):
    qs = Q.QueryStats()
    findings = []
    timeout_ms = 60000 if a.tier == "quick" else 180000
    info = {}
    mf = mir.MirFile(scratch.mir_dump("bytecode", True))
    ker = K.Kernels(mf, True, scratch.repo, seed=V.seed())
    ok_ = OptKernels(ker, mf)
    info["functions"] = {n: {"mir_item": f, "mir_lines": mf.func(f).nlines} for n, f in ok_.fn.items() if n in ("equ", "neq", "unwrap", "unwrap_into", "jmp_not_nil")}
    info["functions"]["Primitive::equals"] = {"mir_item": ker.fn["equals"], "mir_lines": mf.func(ker.fn["equals"]).nlines}
    vectors = []     # (id, native op, operands, predicted result string)

    def finding(ins, kinds, cls, vals, detail):
        f = Q.Finding("C12", ins, ",".join(kinds), cls, "any", [(kinds[i], vals[i]) for i in range(len(kinds))], detail)
        f.native_op = None
        findings.append(f)
        return f

    def pseudo(kinds, inputs):
        return K.Summary("c12", tuple(kinds), inputs, [], "c12", 0)

    # ---------------- equality
    npairs = 0
    for ins in ("equ", "neq"):
        for k1, k2 in itertools.product(SHAPES, SHAPES):
            if k1 in PLAIN and k2 in PLAIN:
                continue      # plain x plain is C05's territory
            inputs, outs = ok_.run(ins, [], [k1, k2])
            npairs += 1
            # operand order: `equ` pops the right operand first and evaluates right.equals(left)
            want = eq_oracle(k1, inputs[0], k2, inputs[1])
            ps = pseudo([k1, k2], inputs)
            lab = "%s[%s,%s]" % (ins, k1, k2)
            for pi, o in enumerate(outs):
                pc = z3.And(*o.pc) if o.pc else z3.BoolVal(True)
                if want is None:
                    continue
                if o.kind == "panic" or o.value.variant == "Err":
                    r, vals = Q.decide(pc, ps, qs, timeout_ms, V.seed(), lab + ":path%d:no-failure" % pi)
                    if r == "sat":
                        finding(ins, [k1, k2], "comparison-fails", vals, "comparing these operands fails (%s) although `==` is defined on them" % o.kind)
                    continue
                st = stack_of(o)
                if len(st) != 1 or st[0].variant != "Bool":
                    raise sym.Inconclusive("%s left %r" % (lab, st))
                got = st[0].fields[0].e
                exp = want if ins == "equ" else z3.Not(want)
                r, vals = Q.decide(z3.And(pc, got != exp), ps, qs, timeout_ms, V.seed(), lab + ":path%d:value" % pi)
                if r == "sat":
                    finding(ins, [k1, k2], "wrong-truth-value", vals, "`%s` gives the wrong answer" % ("==" if ins == "equ" else "!="))
    # ---------------- unwrap / unwrap_into / jmp_not_nil
    for k in SHAPES + K.HEAP_KINDS:
        ps_k = None
        for ins, iargs, existing in (("unwrap", [SPAN], False), ("unwrap_into", ["target"], False), ("unwrap_into", ["target"], True), ("jmp_not_nil", ["3"], False)):
            inputs, outs = ok_.run(ins, iargs, [k], existing=existing)
            ps = pseudo([k], inputs)
            lab = "%s[%s]%s" % (ins, k, "/existing-target" if existing else "")
            for pi, o in enumerate(outs):
                pc = z3.And(*o.pc) if o.pc else z3.BoolVal(True)
                bad = check_outcome(ins, k, inputs[0], o, iargs)
                for cls, cond, detail in bad:
                    r, vals = Q.decide(z3.And(pc, cond), ps, qs, timeout_ms, V.seed(), "%s:path%d:%s" % (lab, pi, cls))
                    if r == "sat":
                        f = finding(ins, [k], cls + ("/existing-target" if existing else ""), vals, detail)
                        f.existing = existing
    # ---------------- native validation + replay: every kernel instance on the boundary grid, predicted vs real
    nvec, mism = validate(ok_, nat)
    if mism:
        for m in mism[:10]:
            log("  TRANSLATOR MISMATCH", m)
        raise V.Inconclusive("engine B disagrees with the real code on %d of %d optional-kernel vectors, first: %r" % (len(mism), nvec, mism[0]))
    log("  translator validation: %d vectors agree with the real code; %d obligations, %d candidate findings" % (nvec, qs.obligations, len(findings)))
    confirm(findings, nat)
    return report(a, findings, qs, info, nvec, t0)


def check_outcome(ins, k, payload, o, iargs):
    """-> list of (class, violating condition, detail) for one feasible outcome of an optional instruction"""
    T = z3.BoolVal(True)
    out = []
    present = K.unheap(k) != "Nil"
    optional = K.unheap(k).startswith("Some") or K.unheap(k) == "Nil"
    base = K.base_kind(k)
    failed = o.kind == "panic" or o.value.variant == "Err"
    if o.kind == "panic":
        out.append(("panics", T, "the instruction panics: " + o.value.msg))
        return out
    if ins == "unwrap":
        if not present:
            if not failed:
                out.append(("get-of-nil-continues", T, "`get nil` does not stop the program"))
            elif not mentions(o.value.fields[0], o.cells, SPAN):
                out.append(("error-lacks-span", T, "the `get` failure does not carry the source position argument"))
            return out
        if failed:
            out.append(("get-of-present-fails", T, "`get` of a present value fails"))
            return out
        st = stack_of(o)
        if len(st) != 1:
            out.append(("get-wrong-kind", T, "`get` leaves %d values" % len(st)))
            return out
        kind, pv = K.decode_prim(o.cells, st[0])
        want_kind = base if optional else k       # a present optional is replaced by its payload; a plain value is left as it is
        if kind != want_kind:
            out.append(("get-wrong-kind", T, "`get` leaves a %s where %s was expected" % (kind, want_kind)))
        else:
            out.append(("get-wrong-value", pv.e != payload.e, "`get` yields a value different from the payload"))
        return out
    if ins == "unwrap_into":
        if failed:
            out.append(("assign-unwrap-fails", T, "`?=` fails"))
            return out
        st = stack_of(o)
        if len(st) != 1 or st[0].variant != "Bool":
            out.append(("assign-unwrap-flag", T, "`?=` leaves %r" % (st,)))
            return out
        out.append(("assign-unwrap-flag", st[0].fields[0].e != z3.BoolVal(present), "`?=` is true although nil / false although present"))
        regs = [(e[0], (_plain_name(e[1][0]),) + tuple(e[1][1:])) for e in o.effects if e[0] in STORE_EFFECTS]
        if len(regs) != 1:
            out.append(("assign-unwrap-store", T, "`?=` does not store exactly one value (stores: %d)" % len(regs)))
            return out
        name, val = regs[0][1]
        if not (isinstance(name, Opaque) and name.data.strip('"') == iargs[0]):
            out.append(("assign-unwrap-store", T, "`?=` stores under the wrong name"))
        kind, pv = K.decode_prim(o.cells, val)
        if kind != (base if present else "Nil"):
            out.append(("assign-unwrap-store", T, "`?=` stores a %s where %s was expected" % (kind, base if present else "nil")))
        elif present:
            out.append(("assign-unwrap-store", pv.e != payload.e, "`?=` stores a value different from the payload"))
        return out
    if ins == "jmp_not_nil":
        if failed:
            out.append(("or-fails", T, "`or` fails"))
            return out
        st = stack_of(o)
        sig = [e for e in o.effects if e[0] == "signal"]
        if not present:
            if len(st) != 0 or sig:
                out.append(("or-nil", T, "`(nil) or y`: nil must be dropped and the fallback evaluated (stack %d, jump %s)" % (len(st), bool(sig))))
            return out
        if len(st) != 1:
            out.append(("or-present", T, "`(x) or y` with x present must keep exactly x"))
            return out
        kind, pv = K.decode_prim(o.cells, st[0])
        # `(x) or y` yields the present VALUE: the payload itself, or an unwrapped view of it - never the Optional(Some(..)) wrapper
        # a built-in put around it (the first version of this obligation demanded that the operand be kept as it was; that is more
        # than the property states and it held the defect repaired in /repo: `("12".parse_int()) or 0` + 1 failed on <Optional + Int>)
        if kind != base and not (kind == k and "Some" not in k):
            out.append(("or-present", T, "`(x) or y` does not yield the present value (it keeps a %s)" % kind))
        else:
            out.append(("or-present", pv.e != payload.e, "`(x) or y` changes the kept value"))
        if len(sig) != 1 or not is_goto(sig[0], 3):
            out.append(("or-present", T, "`(x) or y` with x present must jump over the fallback by the encoded offset"))
        return out
    raise ValueError(ins)


def is_goto(eff, n):
    v = eff[1][0]
    return isinstance(v, Adt) and v.variant == "Goto" and z3.is_bv_value(z3.simplify(v.fields[0].e)) and z3.simplify(v.fields[0].e).as_signed_long() == n


# ---------------------------------------------------------------- native side
def predict(ok_, ins, iargs, kinds, vals, existing=False):
    """engine-B prediction of what the native harness prints for concrete operands"""
    inputs, outs = ok_.run(ins, iargs, kinds, existing=existing)
    subs = [(inputs[i].e, K.const_of("Byte" if K.unheap(kinds[i]) == "Nil" else K.base_kind(kinds[i]), vals[i])) for i in range(len(kinds))]
    hits = []
    for o in outs:
        c = z3.simplify(z3.substitute(z3.And(*o.pc) if o.pc else z3.BoolVal(True), *subs))
        if z3.is_true(c):
            hits.append(o)
        elif not z3.is_false(c):
            s = z3.Solver()
            s.add(c)
            if s.check() == z3.sat:
                hits.append(o)
    res = set()
    for o in hits:
        if o.kind == "panic":
            res.add("PANIC")
        elif o.value.variant == "Err":
            res.add("ERR")
        else:
            parts = ["STACK"] + [show(o.cells, p, subs) for p in stack_of(o)]
            stored = ["STORE", iargs[0], "Int:7"] if existing else []     # what the variable holds afterwards (the harness reads it back)
            for e in o.effects:
                if e[0] in STORE_EFFECTS:
                    stored = ["STORE", _plain_name(e[1][0]).data.strip('"'), show(o.cells, e[1][1], subs)]
            if ins == "unwrap_into":
                parts += stored
            for e in o.effects:
                if e[0] in STORE_EFFECTS:
                    continue
                elif e[0] == "signal":
                    v = e[1][0]
                    parts += ["SIGNAL", "%s:%d" % (v.variant, z3.simplify(v.fields[0].e).as_signed_long())]
            res.add(" ".join(parts))
    if len(res) != 1:
        raise sym.Inconclusive("prediction for %s%r%r is not unique: %r" % (ins, kinds, vals, res))
    return res.pop()


def show(cells, p, subs):
    kind, pv = K.decode_prim(cells, p)
    if K.unheap(kind) == "Nil":
        return kind + ":0"
    b = K.value_bits(K.base_kind(kind), z3.substitute(pv.e, *subs))
    return "%s:%s" % (kind, b if b == "nan" else "%x" % b)


def all_instances():
    out = []
    for ins in ("equ", "neq"):
        for k1, k2 in itertools.product(SHAPES, SHAPES):
            if not (k1 in PLAIN and k2 in PLAIN):
                out.append((ins, [], [k1, k2]))
    for k in SHAPES + K.HEAP_KINDS:
        out += [("unwrap", [SPAN], [k]), ("unwrap_into", ["target"], [k]), ("unwrap_into", ["target:existing"], [k]), ("jmp_not_nil", ["3"], [k])]
    return out


SMALL = {"Int": [0x80000000, 0xFFFFFFFF, 0, 1, 0x7FFFFFFF], "BigInt": [1 << 127, (1 << 128) - 1, 0, 1, 1 << 31, (1 << 127) - 1],
         "Float": [0, 0x8000000000000000, 0x3FF0000000000000, 0x7FF8000000000000, 0x41E0000000000000, 0xC1E0000000000000],
         "Byte": [0, 1, 255], "Bool": [0, 1], "Nil": [0]}


def validate(ok_, nat):
    vecs, preds = [], {}
    n = 0
    for ins, iargs, kinds in all_instances():
        sets = [SMALL[K.base_kind(k)] if K.unheap(k) != "Nil" else [0] for k in kinds]
        existing = bool(iargs) and iargs[0].endswith(":existing")
        clean = [iargs[0][:-9]] if existing else iargs
        for vals in itertools.product(*sets):
            vid = "v%d" % n
            n += 1
            vecs.append((vid, "O:%s%s" % (ins, (":" + iargs[0]) if iargs else ""), [(kinds[i], vals[i]) for i in range(len(kinds))]))
            preds[vid] = (predict(ok_, ins, clean, kinds, list(vals), existing=existing), ins, kinds, vals)
    res = nat.eval_raw(vecs, False)
    mism = []
    for vid, (p, ins, kinds, vals) in preds.items():
        if res.get(vid) != p:
            mism.append((ins, kinds, [hex(v) for v in vals], "engine B: " + p, "real: %s" % res.get(vid)))
    return n, mism


def confirm(findings, nat):
    """a finding is confirmed when the real code, on the witness, behaves as engine B predicts (the prediction itself having
    been judged a violation by the oracle)"""
    if not findings:
        return
    # predictions need the kernels again: recompute lazily through the stored closure
    for f in findings:
        f.confirmed = None
    vecs = []
    for i, f in enumerate(findings):
        kinds = f.arm.split(",")
        iargs = {"unwrap": [SPAN], "unwrap_into": ["target:existing" if getattr(f, "existing", False) or "existing-target" in f.cls else "target"], "jmp_not_nil": ["3"]}.get(f.op, [])
        f.native_op = "O:%s%s" % (f.op, (":" + iargs[0]) if iargs else "")
        vecs.append(("w%d" % i, f.native_op, f.witness))
    res = nat.eval_raw(vecs, False)
    for i, f in enumerate(findings):
        f.native = res.get("w%d" % i)
        f.confirmed = judge_native(f)


def judge_native(f):
    """decide from the REAL result alone whether the property is violated on the witness"""
    r = f.native or ""
    kinds = f.arm.split(",")
    vals = [v for _, v in f.witness]
    toks = r.split()
    if f.op in ("equ", "neq"):
        import struct
        def num(kind, bits):
            b = K.base_kind(kind)
            if b == "Float":
                return struct.unpack("<d", struct.pack("<Q", bits))[0]
            if b == "Int":
                return bits - (1 << 32) if bits >= 1 << 31 else bits
            if b == "BigInt":
                return bits - (1 << 128) if bits >= 1 << 127 else bits
            return bits
        if kinds[0] == "Nil" or kinds[1] == "Nil":
            want = kinds[0] == "Nil" and kinds[1] == "Nil"
        else:
            x, y = num(kinds[0], vals[0]), num(kinds[1], vals[1])
            if isinstance(x, float) or isinstance(y, float):
                want = float(x) == float(y)
            else:
                want = x == y
        if f.op == "neq":
            want = not want
        if toks[:1] != ["STACK"]:
            return True          # fails / panics where a truth value is defined
        return toks[1:2] != ["Bool:%x" % int(want)]
    # instruction kernels: engine-B's verdict was on a prediction that the validation grid has shown faithful; require the
    # real result to show the same defect class
    present = K.unheap(kinds[0]) != "Nil"
    optional = K.unheap(kinds[0]).startswith("Some") or not present
    if f.op == "unwrap":
        if not present:
            return toks[:1] == ["STACK"] or f.cls == "error-lacks-span"
        want = "%s:%x" % (K.base_kind(kinds[0]) if optional else kinds[0], vals[0])
        return toks[:1] != ["STACK"] or toks[1:2] != [want]
    if f.op == "unwrap_into":
        if toks[:1] != ["STACK"]:
            return True
        flag_ok = toks[1:2] == ["Bool:%x" % int(present)]
        want_store = "STORE target " + (("%s:%x" % (K.base_kind(kinds[0]), vals[0])) if present else "Nil:0")
        return not (flag_ok and want_store in r)
    if f.op == "jmp_not_nil":
        if toks[:1] != ["STACK"]:
            return True
        if not present:
            return r.strip() != "STACK"
        return r.strip() != "STACK %s:%x SIGNAL Goto:3" % (kinds[0], vals[0])
    return False


def report(a, findings, qs, info, nvec, t0):
    known = V.known_index("C12")
    new, listed, bad = [], [], []
    for f in findings:
        if not f.confirmed:
            bad.append(f)
        elif f.key() in known:
            listed.append(f)
        else:
            new.append(f)
    for f in listed:
        print("KNOWN-FINDING: property=C12 %s[%s] %s: %s" % (f.op, f.arm, f.cls, known[f.key()].get("what", f.detail)))
    if a.emit_known:
        with open(a.emit_known, "w") as fh:
            json.dump([{"property": "C12", "fn": f.op, "arm": f.arm, "class": f.cls, "profile": "any", "what": f.detail, "example": str(f.native)} for f in new], fh, indent=1)
    code = V.EXIT_OK
    for f in new:
        p = V.save_replay("C12", "%s_%s_%s" % (f.op, f.arm.replace(",", "-"), f.cls), f.as_dict())
        print("VIOLATION property=C12 replay=%s" % p)
        print("   %s[%s] %s: %s; operands %s -> real code: %s" % (f.op, f.arm, f.cls, f.detail, " ".join("%s:%s" % (k, hex(v)) for k, v in f.witness), f.native))
        code = V.EXIT_VIOLATION
    if (bad or qs.undecided) and code == V.EXIT_OK:
        for f in bad[:10]:
            log("NON-REPRODUCING:", json.dumps(f.as_dict(), default=str))
        code = V.EXIT_INCONCLUSIVE
        print("INCONCLUSIVE property=C12 non_reproducing=%d undecided=%d" % (len(bad), len(qs.undecided)))
    nknown = len(listed)
    coverage = {
        "obligations": qs.obligations - nknown, "discharged": qs.discharged, "obligations_violated_by_listed_known_findings": nknown,
        "checker_cmd": "python3-vt checks/c12_main.py --tier %s" % a.tier,
        "trusted_base": ["rustc MIR dump of `bytecode`", "mirsym interpreter; validated on this run against the real instructions on %d vectors (stack, stored variable, jump signal compared)" % nvec,
                         "models: Ctx::register_variable_local and Ctx::signal are recorded as effects (their bodies - scope stack, Gc cells - are outside the kernel)",
                         "Box<T> = pointer to a heap cell; error values keep their format arguments (the span is searched among them)"],
        "functions_encoded": info["functions"],
        "bounds": "operand shapes nil / present optional of int, bigint, float, byte, bool / plain value; payloads full-width symbolic; optionals of list/class type, fields, parameters, the compile-side jump offset and whole programs are outside this kernel",
        "solver_time_s": round(qs.solver_s, 2),
        "samples": qs.samples[:8] + [f.as_dict() for f in (new + listed)[:4]],
        "known_findings_reported": nknown, "new_violations": len(new),
    }
    V.write_evidence("C12", a.tier, "proof", coverage, ["kernel claim (see MANIFEST level_note)"], time.time() - t0, len(new))
    log("C12: %d obligations, %d discharged, %d known, %d new, %d non-reproducing, %.1fs" % (qs.obligations, qs.discharged, nknown, len(new), len(bad), time.time() - t0))
    return code


def replay(nat, path):
    d = json.load(open(path))
    w = [(k, int(v, 16) if isinstance(v, str) else v) for k, v in d["witness"]]
    f = Q.Finding("C12", d["fn"], d["arm"], d["class"], "any", w, d["detail"])
    confirm([f], nat)
    print("replay:", f.native)
    if f.confirmed:
        print("VIOLATION property=C12 replay=%s" % path)
        return V.EXIT_VIOLATION
    print("not reproduced on the current tree")
    return V.EXIT_OK


if __name__ == "__main__":
    sys.exit(main())
