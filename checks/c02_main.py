#!/usr/bin/env python3
"""C02 (kernel): the compiler's static operator/negation tables agree with the run-time operator kernels.

static side : the REAL `TypeLayout::get_output_type`, `supports_negate`, `is_boolean`, evaluated natively on their whole
              (finite) domain: 7 x 7 native kinds x 26 operators.
run-time side: engine B summaries of the real operator kernels (through the interpreter instruction), operand VALUES symbolic.
obligations per accepted cell (static says Some(k)):
   (a) the run time supports the kind pair at all (some feasible path returns a value)            -> class static-accepts-runtime-rejects
   (b) for ALL operand values, a returned value has kind k (= what `typeof` reports)               -> class static-kind-differs
"""
import sys, os, time, json, argparse
HERE = os.path.dirname(os.path.abspath(__file__))
sys.path.insert(0, os.path.join(HERE, "..", "lib"))
sys.path.insert(0, os.path.join(HERE, "..", "mirsym"))
import z3
import vcommon as V
from vcommon import log
import native as N
import mir, sym, opkernels as K, opcheck as Q

OPMAP = {  # static Op -> (level, run-time kernel)
    "Add": ("instr", "add"), "Subtract": ("instr", "sub"), "Multiply": ("instr", "mul"), "Divide": ("instr", "div"), "Modulo": ("instr", "rem"),
    "Lt": ("instr", "lt"), "Gt": ("instr", "gt"), "Lte": ("instr", "le"), "Gte": ("instr", "ge"), "Eq": ("instr", "equals"), "Neq": ("instr", "nequals"),
    "And": ("instr", "and"), "Or": ("instr", "or"), "Xor": ("instr", "bxor"),
    "AddAssign": ("assign", "add"), "SubAssign": ("assign", "sub"), "MulAssign": ("assign", "mul"), "DivAssign": ("assign", "div"), "ModAssign": ("assign", "rem"),
    "BinaryXor": ("instr", "bitxor"), "BinaryOr": ("instr", "bitor"), "BinaryAnd": ("instr", "bitand"), "BitwiseLs": ("instr", "shl"), "BitwiseRs": ("instr", "shr"),
}
OUTSIDE = {"Unwrap": "`?=` is typed by its own rule (C12)", "Is": "`is` compares identities; its run-time arm is outside the encoded kernels"}
RT_KINDS = ["Bool", "Str", "Int", "BigInt", "Float", "Byte"]
SYMBOLS = {"Add": "+", "Subtract": "-", "Multiply": "*", "Divide": "/", "Modulo": "%", "Lt": "<", "Gt": ">", "Lte": "<=", "Gte": ">=", "Eq": "==",
           "Neq": "!=", "And": "&&", "Or": "||", "Xor": "^", "AddAssign": "+=", "SubAssign": "-=", "MulAssign": "*=", "DivAssign": "/=",
           "ModAssign": "%=", "BinaryXor": "xor", "BinaryOr": "|", "BinaryAnd": "&", "BitwiseLs": "<<", "BitwiseRs": ">>", "negate": "neg", "not": "!"}


def rt_kind(k):
    return "Str" if k.startswith("Str") else k


def main():
    ap = argparse.ArgumentParser()
    ap.add_argument("--tier", default=os.environ.get("VERIF_TIER", "quick"))
    ap.add_argument("--replay")
    ap.add_argument("--emit-known")
    a = ap.parse_args()
    t0 = time.time()
    try:
        scratch = V.Scratch("c02")
        if a.replay:
            return replay(scratch, a.replay)
        return check(scratch, a, t0)
    except (V.Inconclusive, sym.Inconclusive, mir.MirError) as e:
        log("INCONCLUSIVE:", e)
        print("INCONCLUSIVE property=C02 reason=%s" % str(e)[:400].replace("\n", " "))
        return V.EXIT_INCONCLUSIVE


def static_table(scratch):
    lines = N.NativeCompiler(scratch).run()
    cells, neg, nots = {}, {}, {}
    for t in lines:
        if t[0] == "cell":
            cells[(t[1], t[2], t[3])] = None if t[4] == "None" else t[4]
        elif t[0] == "negate":
            neg[t[1]] = t[2] == "true"
        elif t[0] == "not":
            nots[t[1]] = t[2] == "true"
    if len(cells) != 7 * 7 * 26:
        raise V.Inconclusive("static table has %d cells, expected %d" % (len(cells), 7 * 7 * 26))
    return cells, neg, nots


def check(scratch, a, t0):
    cells, neg, nots = static_table(scratch)
    mf = mir.MirFile(scratch.mir_dump("bytecode", True))
    ker = K.Kernels(mf, True, scratch.repo, seed=V.seed())
    nat = N.NativeBytecode(scratch)
    summ_cache = {}

    def summary(level, op, kinds):
        key = (level, op, tuple(kinds))
        if key not in summ_cache:
            summ_cache[key] = (ker.summarize_instr(op, list(kinds)) if level == "instr" else
                               ker.summarize_assign(op, list(kinds)) if level == "assign" else ker.summarize(op, list(kinds)))
        return summ_cache[key]

    qs = Q.QueryStats()
    findings = []
    accepted = 0
    outside = 0
    timeout_ms = 60000 if a.tier == "quick" else 180000

    def obligations(static_name, arm_static, level, op, kinds, k_static):
        """(a) and (b) for one accepted cell"""
        s = summary(level, op, kinds)
        lab = "%s[%s]" % (static_name, ",".join(arm_static))
        oks = [p for p in s.paths if p.outcome == "ok"]
        # (a) some feasible value-returning path.  Witness operands first (1 op 1, true, "a": no dynamic failure possible),
        #     decided by evaluating the summary; the solver is only needed when the witness does not return a value.
        qs.obligations += 1
        sup = False
        if all(k != "Str" for k in kinds):
            try:
                sup = K.eval_summary(s, [default_bits(k) for k in kinds])[0] == "OK"
            except sym.Inconclusive:
                sup = False
        if not sup:
            for p in oks:
                r, _ = Q.solve(p.cond(), timeout_ms, V.seed())
                if r == z3.sat:
                    sup = True
                    break
                if r != z3.unsat:
                    qs.undecided.append(lab + ":supported")
        if sup:
            qs.discharged += 1
        else:
            qs.violated += 1
            findings.append(mk(static_name, arm_static, "static-accepts-runtime-rejects", level, op, kinds, None,
                               "type checker accepts `%s %s %s` (typed %s) but the run-time operator has no arm for these kinds"
                               % (arm_static[0], SYMBOLS[static_name], arm_static[-1], k_static)))
            return
        # (b) every returned value has the static kind, for all operand values
        wrong = [p for p in oks if p.rkind != k_static]
        cond = z3.Or(*[p.cond() for p in wrong]) if wrong else z3.BoolVal(False)
        r, vals = Q.decide(cond, s, qs, timeout_ms, V.seed(), lab + ":kind")
        if r == "sat":
            pred = K.eval_summary(s, vals) if all(k != "Str" for k in kinds) else None
            vals = [0x61 if kinds[i] == "Str" else v for i, v in enumerate(vals)]
            findings.append(mk(static_name, arm_static, "static-kind-differs", level, op, kinds, vals,
                               "`typeof` says %s but the run-time value has kind %s" % (k_static, wrong[0].rkind), pred))

    def mk(static_name, arm_static, cls, level, op, kinds, vals, detail, pred=None):
        f = Q.Finding("C02", static_name, ",".join(arm_static), cls, "any", [(kinds[i], vals[i]) for i in range(len(kinds))] if vals else [], detail,
                      predicted=list(pred) if pred else None)
        f.native_op = ("I:" + op) if level == "instr" else ("A:" + op) if level == "assign" else op
        f.kinds = kinds
        return f

    for (l, r, opn), res in sorted(cells.items()):
        if res is None:
            continue
        if opn in OUTSIDE:
            outside += 1
            continue
        accepted += 1
        level, op = OPMAP[opn]
        if res.startswith("Other"):
            qs.obligations += 1
            qs.violated += 1
            findings.append(mk(opn, (l, r), "static-kind-differs", level, op, [rt_kind(l), rt_kind(r)], None, "static result type %s is not a native kind" % res))
            continue
        obligations(opn, (l, r), level, op, [rt_kind(l), rt_kind(r)], res)
        if opn.endswith("Assign"):
            # (c) `x op= y` stores the result back into x: for ALL operand values the stored value must still have x's kind
            s_ = summary(level, op, [rt_kind(l), rt_kind(r)])
            wrong = [p for p in s_.paths if p.outcome == "ok" and p.rkind != rt_kind(l)]
            cond = z3.Or(*[p.cond() for p in wrong]) if wrong else z3.BoolVal(False)
            r_, vals = Q.decide(cond, s_, qs, timeout_ms, V.seed(), "%s[%s,%s]:assign-keeps-kind" % (opn, l, r))
            if r_ == "sat":
                vals = [0x61 if k == "Str" else v for k, v in zip([rt_kind(l), rt_kind(r)], vals)]
                f = mk(opn, (l, r), "assign-changes-variable-kind", level, op, [rt_kind(l), rt_kind(r)], vals,
                       "`x %s y` with x: %s, y: %s is accepted, but the value stored back into x has kind %s (typeof x still says %s)"
                       % (SYMBOLS[opn], l, r, wrong[0].rkind, l))
                f.expect_kind = rt_kind(l)
                findings.append(f)
    for k, ok in sorted(neg.items()):
        if ok:
            accepted += 1
            obligations("negate", (k,), "instr", "negate", [rt_kind(k)], rt_kind(k))
    for k, ok in sorted(nots.items()):
        if ok:
            accepted += 1
            obligations("not", (k,), "instr", "not", [rt_kind(k)], "Bool")
    # native confirmation of every finding that has operand values (or witness operands for kind-level ones)
    vecs = []
    for i, f in enumerate(findings):
        w = f.witness if f.witness else [(k, default_bits(k)) for k in f.kinds]
        f.witness = w
        vecs.append(("w%d" % i, f.native_op, w))
    if vecs:
        res = nat.eval(vecs, False)
        for i, f in enumerate(findings):
            if ("w%d" % i) in res:
                f.native = list(res["w%d" % i])
                if f.cls == "assign-changes-variable-kind":
                    f.confirmed = f.native[0] == "OK" and f.native[1] != f.expect_kind
                elif f.cls == "static-accepts-runtime-rejects":
                    f.confirmed = f.native[0] in ("ERR", "PANIC")
                else:
                    stat = cells.get(tuple(f.arm.split(",")) + (f.op,)) if f.op not in ("negate", "not") else None
                    f.confirmed = f.native[0] == "OK" and (stat is None or f.native[1] != stat)
    return report(a, findings, qs, t0, accepted, outside, ker, len(cells), summ_cache)


def default_bits(kind):
    return {"Int": 1, "BigInt": 1, "Float": 0x3FF0000000000000, "Byte": 1, "Bool": 1, "Str": 0x61}[kind]


def report(a, findings, qs, t0, accepted, outside, ker, ncells, summ_cache):
    known = V.known_index("C02")
    new, listed, bad = [], [], []
    for f in findings:
        if not f.confirmed:
            bad.append(f)
        elif f.key() in known:
            listed.append(f)
        else:
            new.append(f)
    for f in listed:
        print("KNOWN-FINDING: property=C02 %s[%s] %s: %s" % (SYMBOLS[f.op], f.arm, f.cls, known[f.key()].get("what", f.detail)))
    if a.emit_known:
        with open(a.emit_known, "w") as fh:
            json.dump([{"property": "C02", "fn": f.op, "arm": f.arm, "class": f.cls, "profile": "any", "what": f.detail,
                        "example": " ".join("%s:%s" % (k, hex(v)) for k, v in f.witness) + " -> " + " ".join(map(str, f.native or []))} for f in new], fh, indent=1)
    code = V.EXIT_OK
    for f in new:
        p = V.save_replay("C02", "%s_%s_%s" % (f.op, f.arm.replace(",", "-"), f.cls), f.as_dict())
        print("VIOLATION property=C02 replay=%s" % p)
        print("   %s[%s] %s: %s; operands %s -> real run time returns %s" % (SYMBOLS[f.op], f.arm, f.cls, f.detail,
              " ".join("%s:%s" % (k, hex(v)) for k, v in f.witness), " ".join(map(str, f.native or []))))
        code = V.EXIT_VIOLATION
    if (bad or qs.undecided) and code == V.EXIT_OK:
        for f in bad[:10]:
            log("NON-REPRODUCING:", json.dumps(f.as_dict()))
        code = V.EXIT_INCONCLUSIVE
        print("INCONCLUSIVE property=C02 non_reproducing=%d undecided=%d" % (len(bad), len(qs.undecided)))
    nknown = len(listed)
    coverage = {
        "obligations": qs.obligations - nknown, "discharged": qs.discharged,
        "obligations_violated_by_listed_known_findings": nknown,
        "checker_cmd": "python3-vt checks/c02_main.py --tier %s" % a.tier,
        "trusted_base": ["static side: the real get_output_type/supports_negate/is_boolean evaluated natively on their complete finite domain (%d cells, %d accepted and checked, %d accepted cells of `?=`/`is` outside the kernel)" % (ncells, accepted, outside),
                         "run-time side: engine B summaries (see C05 evidence for the validation of the MIR interpreter against the real code)",
                         "string operands are abstract (kind-level reasoning only)"],
        "functions_encoded": ker.encoded_functions(),
        "runtime_summaries": len(summ_cache),
        "bounds": "native kinds only (bool, str, int, bigint, float, byte); aliases, optionals, generics, classes, lists, maps, function types and every other typing rule are outside this kernel claim",
        "solver_time_s": round(qs.solver_s, 2),
        "samples": qs.samples[:8] + [f.as_dict() for f in (new + listed)[:6]],
        "known_findings_reported": nknown, "new_violations": len(new),
    }
    V.write_evidence("C02", a.tier, "proof", coverage,
                     ["kernel claim: only the operator / negation / `!` tables over native kinds are decided",
                      "operand values are symbolic and full width on the run-time side"], time.time() - t0, len(new))
    log("C02: %d accepted cells, %d obligations, %d discharged, %d known, %d new, %.1fs" % (accepted, qs.obligations, qs.discharged, nknown, len(new), time.time() - t0))
    return code


def replay(scratch, path):
    d = json.load(open(path))
    cells, neg, nots = static_table(scratch)
    arm = tuple(d["arm"].split(","))
    if d["fn"] == "negate":
        stat = "accepted" if neg.get(arm[0]) else None
    elif d["fn"] == "not":
        stat = "accepted" if nots.get(arm[0]) else None
    else:
        stat = cells.get(arm + (d["fn"],))
    print("static table now: %s[%s] -> %s" % (d["fn"], d["arm"], stat))
    if stat is None:
        print("not reproduced: the type checker no longer accepts this cell")
        return V.EXIT_OK
    w = [(k, int(v, 16) if isinstance(v, str) else v) for k, v in d["witness"]]
    if not w:
        print("finding without operands: re-run the check itself")
        return V.EXIT_OK
    res = N.NativeBytecode(scratch).eval([("r0", d["native_op"], w)], False)["r0"]
    print("run time now returns", res)
    if d["class"] == "assign-changes-variable-kind":
        rep = res[0] == "OK" and res[1] != rt_kind(arm[0])
    else:
        rep = (res[0] in ("ERR", "PANIC")) if d["class"] == "static-accepts-runtime-rejects" else (res[0] == "OK" and res[1] != stat)
    if rep:
        print("VIOLATION property=C02 replay=%s" % path)
        return V.EXIT_VIOLATION
    print("not reproduced on the current tree")
    return V.EXIT_OK


if __name__ == "__main__":
    sys.exit(main())
