#!/usr/bin/env python3
"""C19 (kernel): foreign calls pass the operand stack unchanged and deliver result or error.

Engine B executes the real `call_lib` instruction and the real `Program::process_library_jump_request` (MIR of `bytecode`, both
overflow profiles) against an environment stub of the `libloading` crate (mirsym/ffikernels.py).  The stub's contract and the
end-to-end behaviour are validated on every run - and every solver counterexample is replayed - with REAL foreign calls: the check
builds the CLI and a small dynamic library (native/ffi_echo.rs, built in place of the repository's `ffi` example crate) from the
scratch copy and executes bytecode programs that `call_lib` into it.
"""
import sys, os, time, json, argparse, subprocess, shutil
HERE = os.path.dirname(os.path.abspath(__file__))
sys.path.insert(0, os.path.join(HERE, "..", "lib"))
sys.path.insert(0, os.path.join(HERE, "..", "mirsym"))
import z3
import vcommon as V
from vcommon import log
import mir, sym, opcheck as Q, ffikernels as F


def build_real(scratch, release):
    t = time.time()
    prof = ["--release"] if release else []
    V.run(["cargo", "build", "--offline", "--bin", "mscript", "--target-dir", os.path.join(scratch.dir, "target-cli")] + prof,
          cwd=scratch.repo, env=V.env_offline({"RUSTFLAGS": "-Awarnings"}), timeout=3600)
    shutil.copy(os.path.join(V.VERIF, "native", "ffi_echo.rs"), os.path.join(scratch.repo, "ffi", "src", "lib.rs"))
    sub = "release" if release else "debug"
    libs = {}
    for tag in ("A", "B"):
        # two builds of the same library (same symbols, different tag in their output)
        V.run(["cargo", "build", "--offline", "--target-dir", os.path.join(scratch.dir, "target-ffi-" + tag)] + prof,
              cwd=os.path.join(scratch.repo, "ffi"), env=V.env_offline({"RUSTFLAGS": "-Awarnings", "VERIF_FFI_TAG": tag}), timeout=3600)
        libs[tag] = os.path.join(scratch.dir, "target-ffi-" + tag, sub, "libffi.so")
    exe = os.path.join(scratch.dir, "target-cli", sub, "mscript")
    lib = libs
    if not (os.path.exists(exe) and all(os.path.exists(x) for x in libs.values())):
        raise V.Inconclusive("CLI or FFI test library not built")
    log("  real CLI and FFI test library (%s) built in %.1fs" % (sub, time.time() - t))
    return exe, lib


def real_call(scratch, exe, lib, func, args, calls=None):
    """execute a bytecode program that, for each (lib, func, args) call, pushes the arguments (ints, or (instruction, text)
    pairs), calls lib::func through call_lib and prints the result; finally prints a marker"""
    d = os.path.join(scratch.dir, "ffi-run")
    shutil.rmtree(d, ignore_errors=True)
    os.makedirs(d)
    lines = ["function __module__"]
    for call in (calls or [(lib, func, args)]):
        lib_, func_, args_ = call[:3]
        for a in args_:
            if isinstance(a, tuple):
                lines.append('\t%s "%s"' % a)
            else:
                lines.append('\tmake_int "%d"' % a)
        lines.append('\tcall_lib "%s" "%s"' % (lib_, func_))
        if len(call) > 3 and call[3] == "no-value":
            continue        # nothing is printed or discarded: what the call left on the operand stack shows in the next print
        lines += ['\tprintn "*"', "\tvoid"]
    lines += ['\tmake_str "after"', '\tprintn "*"', "\tvoid", "\tret_mod", "end", ""]
    src = os.path.join(d, "p.transpiled.mmm")
    with open(src, "w") as f:
        f.write("\n".join(lines))
    env = dict(os.environ, RUST_BACKTRACE="0", NO_COLOR="1")
    t = subprocess.run([exe, "transpile", src], cwd=d, stdout=subprocess.PIPE, stderr=subprocess.PIPE, text=True, env=env, timeout=120)
    if t.returncode != 0:
        raise V.Inconclusive("transpile of the FFI test program failed: %s" % (t.stderr[-500:] + t.stdout[-300:]))
    p = subprocess.run([exe, "execute", os.path.join(d, "p.mmm")], cwd=d, stdout=subprocess.PIPE, stderr=subprocess.PIPE, text=True, env=env, timeout=120)
    return {"exit": p.returncode, "stdout": p.stdout.strip().splitlines(), "stderr": p.stderr[-600:], "panicked": p.returncode == 101 or "panicked at" in p.stderr}


def real_suite(scratch, exe, libs):
    """the observable contract of a foreign call, on real runs: -> (runs, list of deviations)"""
    dev, runs = [], 0
    lib = libs["A"]
    for n in range(5):
        args = [7 + 2 * i for i in range(n)]
        r = real_call(scratch, exe, lib, "echo", args)
        runs += 1
        want = ["ECHO[A] n=%d args=[%s]" % (n, ",".join(map(str, args))), "42", "after"]
        if r["exit"] != 0 or r["stdout"] != want:
            dev.append(("echo(%r)" % args, "expected %r exit 0" % want, r))
    for func, needle in (("fail", "boom from foreign code"), ("no_such_symbol", "Could not find symbol")):
        r = real_call(scratch, exe, lib, func, [1, 2])
        runs += 1
        if r["exit"] == 0 or r["panicked"] or needle not in r["stderr"] or "after" in r["stdout"]:
            dev.append((func, "expected a run-time error carrying %r, nothing executed afterwards" % needle, r))
    # a call that returns no value leaves nothing behind: neither its arguments nor a result (the next print shows the stack)
    for args in ([], [7], [7, 9]):
        r = real_call(scratch, exe, None, None, None, calls=[(lib, "nothing", args, "no-value"), (lib, "echo", [5])])
        runs += 1
        want = ["NOTHING[A] n=%d args=[%s]" % (len(args), ",".join(map(str, args))), "ECHO[A] n=1 args=[5]", "42", "after"]
        if r["exit"] != 0 or r["stdout"] != want:
            dev.append(("nothing(%r) then echo(5)" % args, "expected %r exit 0" % want, r))
    # every kind of value comes back unchanged
    for ins, text, shown in (("make_int", "5", "5"), ("make_byte", "0b101", "0b101"), ("make_bool", "true", "true"), ("make_str", "hey", "hey"),
                             ("make_float", "2.5", "2.5"), ("make_bigint", "123456789012", "123456789012")):
        r = real_call(scratch, exe, lib, "first", [(ins, text)])
        runs += 1
        if r["exit"] != 0 or len(r["stdout"]) != 2 or r["stdout"][1] != "after" or r["stdout"][0].lower().lstrip("b") not in (shown.lower().lstrip("b"), str(int(shown, 2)) if shown.startswith("0b") else shown):
            dev.append(("first(%s %s)" % (ins, text), "expected the argument to come back as the result", r))
    # the same symbol in two libraries, one after the other: each call reaches the library it names
    r = real_call(scratch, exe, None, None, None, calls=[(libs["A"], "echo", [1]), (libs["B"], "echo", [2]), (libs["A"], "echo", [3])])
    runs += 1
    want = ["ECHO[A] n=1 args=[1]", "42", "ECHO[B] n=1 args=[2]", "42", "ECHO[A] n=1 args=[3]", "42", "after"]
    if r["exit"] != 0 or r["stdout"] != want:
        dev.append(("echo in library A, B, A", "expected %r" % want, r))
    r = real_call(scratch, exe, None, None, None, calls=[(libs["A"], "echo", [1]), (os.path.join(scratch.dir, "no-such-library.so"), "echo", [2])])
    runs += 1
    if r["exit"] == 0 or r["panicked"] or "Could not open FFI Library" not in r["stderr"] or "after" in r["stdout"]:
        dev.append(("missing library after a successful call of the same symbol", "expected a run-time error naming the library", r))
    # the library is opened under exactly the name given: a versioned name works, and a missing `x.dll` is an error even if `x.so` exists
    ldir = os.path.join(scratch.dir, "ffi-named")
    os.makedirs(ldir, exist_ok=True)
    shutil.copy(lib, os.path.join(ldir, "libprobe.so.1"))
    shutil.copy(lib, os.path.join(ldir, "plugin.so"))
    r = real_call(scratch, exe, os.path.join(ldir, "libprobe.so.1"), "echo", [4])
    runs += 1
    want = ["ECHO[A] n=1 args=[4]", "42", "after"]
    if r["exit"] != 0 or r["stdout"] != want:
        dev.append(("echo in a library named libprobe.so.1", "expected %r exit 0" % want, r))
    r = real_call(scratch, exe, os.path.join(ldir, "plugin.dll"), "echo", [4])
    runs += 1
    if r["exit"] == 0 or r["panicked"] or "Could not open FFI Library" not in r["stderr"] or "after" in r["stdout"] or any("ECHO" in l for l in r["stdout"]):
        dev.append(("library plugin.dll missing while plugin.so exists", "expected a run-time error naming the library, no foreign call", r))
    r = real_call(scratch, exe, os.path.join(scratch.dir, "no-such-library.so"), "echo", [1])
    runs += 1
    if r["exit"] == 0 or r["panicked"] or "Could not open FFI Library" not in r["stderr"] or "after" in r["stdout"]:
        dev.append(("missing library", "expected a run-time error naming the library", r))
    return runs, dev


def main():
    ap = argparse.ArgumentParser()
    ap.add_argument("--tier", default=os.environ.get("VERIF_TIER", "quick"))
    ap.add_argument("--replay")
    a = ap.parse_args()
    t0 = time.time()
    try:
        scratch = V.Scratch("c19")
        if a.replay:
            return replay(scratch, a.replay)
        return check(scratch, a, t0)
    except (V.Inconclusive, sym.Inconclusive, mir.MirError) as e:
        log("INCONCLUSIVE:", e)
        print("INCONCLUSIVE property=C19 reason=%s" % str(e)[:400].replace("\n", " "))
        return V.EXIT_INCONCLUSIVE


def check(scratch, a, t0):
    qs = Q.QueryStats()
    info = {"functions": {}, "models": {}, "real_runs": {}}
    timeout_ms = 60000 if a.tier == "quick" else 180000
    bad = []
    gave_up = None
    for release in (False, True):
        profile = "release" if release else "dev"
        oc = not release
        try:
            fk = F.FfiKernels(mir.MirFile(scratch.mir_dump("bytecode", oc)), oc, scratch.repo, seed=V.seed())
            info["functions"][profile] = fk.encoded_functions()
            for n in range(F.NMAX.get(a.tier, 3) + 1):
                bad += [(profile,) + b for b in F.check_call_lib(fk, n, profile, qs, timeout_ms, V.seed())]
                bad += [(profile,) + b for b in F.check_plj(fk, n, profile, qs, timeout_ms, V.seed())]
            info["models"][profile] = sorted(fk.ex.stats["models_used"])
        except (sym.Inconclusive, mir.MirError) as e:
            # the engine met code it cannot interpret: never a pass - but the real foreign calls below are still run and reported
            gave_up = str(e)[:400].replace("\n", " ")
            log("  [%s] engine gave up: %s" % (profile, gave_up))
            break
        log("  [%s] %d obligations so far, %d candidate findings" % (profile, qs.obligations, len(bad)))
    # real foreign calls: validation of the stub contract / replay of findings
    deviations = {}
    for release in ([False, True] if a.tier == "thorough" else [False]):
        exe, lib = build_real(scratch, release)
        runs, dev = real_suite(scratch, exe, lib)
        info["real_runs"]["release" if release else "dev"] = runs
        deviations["release" if release else "dev"] = dev
        log("  real foreign calls (%s): %d runs, %d deviations" % ("release" if release else "dev", runs, len(dev)))
    alldev = sum(deviations.values(), [])

    def report_real(why):
        """a real foreign call that contradicts the observable contract of C19 is a violation demonstrated on the real code, whatever
        the solver's part could decide"""
        seen = set()
        for prof, devs in deviations.items():
            for d in devs:
                if d[0] in seen:
                    continue
                seen.add(d[0])
                payload = {"property": "C19", "fn": "real-suite", "arm": d[0], "class": "real-call-deviates", "profile": prof, "detail": d[1], "real_deviations": [d], "solver_part": why}
                p = V.save_replay("C19", "real_%s_%s" % (d[0][:40], prof), payload)
                print("VIOLATION property=C19 replay=%s" % p)
                print("   real foreign call `%s` (%s profile) deviates from the contract: %s -> %s   [solver part: %s]" % (d[0], prof, d[1], json.dumps(d[2])[:300], why))

    if gave_up:
        for d in alldev[:5]:
            log("REAL DEVIATION:", d[0], d[1], json.dumps(d[2])[:400])
        print("INCONCLUSIVE property=C19 reason=%s real_deviations=%d" % (gave_up, len(alldev)))
        if alldev:
            report_real("gave up: " + gave_up[:160])
            return V.EXIT_VIOLATION
        return V.EXIT_INCONCLUSIVE
    known = V.known_index("C19")
    code = V.EXIT_OK
    new = []
    if bad:
        if alldev:
            # the solver's counterexample shows on real foreign calls: report
            seen = set()
            for profile, cls, detail, n in bad:
                key = ("C19", "call_lib", "args=%d" % n, cls, profile)
                if key in seen or key in known:
                    continue
                seen.add(key)
                payload = {"property": "C19", "fn": "call_lib", "arm": "args=%d" % n, "class": cls, "profile": profile, "detail": detail,
                           "real_deviations": [(d[0], d[1], d[2]) for d in alldev[:4]]}
                p = V.save_replay("C19", "call_lib_args%d_%s_%s" % (n, cls, profile), payload)
                print("VIOLATION property=C19 replay=%s" % p)
                print("   call_lib[args=%d] %s (%s profile): %s; real run: %s -> %s" % (n, cls, profile, detail, alldev[0][0], json.dumps(alldev[0][2])[:300]))
                new.append(payload)
                code = V.EXIT_VIOLATION
        else:
            for b in bad[:10]:
                log("NON-REPRODUCING (the real foreign calls behave as specified):", b)
            code = V.EXIT_INCONCLUSIVE
            print("INCONCLUSIVE property=C19 non_reproducing=%d" % len(bad))
    elif alldev:
        # the encoding says the property holds but real foreign calls deviate: the stub or the replicated step is wrong
        for d in alldev[:5]:
            log("REAL DEVIATION not predicted by the encoding:", d[0], d[1], json.dumps(d[2])[:400])
        print("INCONCLUSIVE property=C19 real_deviations=%d (the encoding predicts none)" % len(alldev))
        report_real("all obligations discharged - the deviation lies outside the solver's part (Function::run's loop, CLI)")
        code = V.EXIT_VIOLATION
    if qs.undecided and code == V.EXIT_OK:
        code = V.EXIT_INCONCLUSIVE
        print("INCONCLUSIVE property=C19 undecided=%d" % len(qs.undecided))
    coverage = {
        "obligations": qs.obligations, "discharged": qs.discharged,
        "checker_cmd": "python3-vt checks/c19_main.py --tier %s" % a.tier,
        "trusted_base": ["rustc MIR dump of `bytecode` (both overflow profiles)", "mirsym interpreter",
                         "environment stub of libloading (Library::new / Library::get succeed or fail arbitrarily; the loaded symbol is an opaque function pointer whose call is a recorded effect with an arbitrary ReturnValue) - /verif/mirsym/ffikernels.py",
                         "validated on this run by %s REAL foreign calls through the real CLI into a dynamic library built from /verif/native/ffi_echo.rs (arguments echoed in order, value pushed, FFI error / missing symbol / missing library reported, nothing executed afterwards)" % info["real_runs"],
                         "std models used: " + ", ".join(sorted(set(sum(info["models"].values(), []))))],
        "functions_encoded": info["functions"],
        "bounds": "operand stacks of 0..%d int values (all values); the function name is a fixed literal, the dispatch kernel runs once per library name in %r (concrete names: plain, versioned, without extension, foreign extension); every outcome of opening the library, finding the symbol and of the foreign function itself is an arbitrary environment value.  The step that pushes the returned value / raises `FFI: <message>` lives inside Function::run's loop and is covered only by the real runs, not by the solver" % (F.NMAX.get(a.tier, 3), F.LIBNAMES),
        "solver_time_s": round(qs.solver_s, 2),
        "samples": qs.samples[:8] + new[:3],
        "new_violations": len(new),
    }
    V.write_evidence("C19", a.tier, "proof", coverage,
                     ["dlopen/dlsym and the foreign code are the environment: arbitrary outcomes constrained only by libloading's documented API",
                      "argument values are ints; the argument vector is passed by reference, so element kinds do not matter to what is checked"],
                     time.time() - t0, len(new))
    log("C19: %d obligations, %d discharged, %d new, %d undecided, %.1fs" % (qs.obligations, qs.discharged, len(new), len(qs.undecided), time.time() - t0))
    return code


def replay(scratch, path):
    d = json.load(open(path))
    exe, lib = build_real(scratch, d["profile"] == "release")
    runs, dev = real_suite(scratch, exe, lib)
    print("replay: %d real foreign calls, %d deviations" % (runs, len(dev)))
    for x in dev[:5]:
        print("   ", x[0], "-", x[1], "->", json.dumps(x[2])[:300])
    if dev:
        print("VIOLATION property=C19 replay=%s" % path)
        return V.EXIT_VIOLATION
    print("not reproduced on the current tree")
    return V.EXIT_OK


if __name__ == "__main__":
    sys.exit(main())
