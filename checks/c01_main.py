#!/usr/bin/env python3
"""C01 / C15: bounded translation validation of the real compiler's output by symbolic execution (engine D, /verif/bytesym).

For every program of the family (bytesym/gen01.py for C01, gen15.py for C15):
  1. the REAL compiler (built from /repo's working tree on this run) emits bytecode (`compile --output-format raw-text`);
  2. the bytecode is executed symbolically (vm.py) and the program's AST is executed symbolically under the language semantics
     (ref.py), both with the program inputs as 32-bit solver variables; every branch asks z3 which sides are feasible;
  3. for every pair (implementation path, reference path) z3 decides: is there an input on which both are taken and the printed
     lines / return status differ?  unsat for all pairs = the emitted code behaves as the semantics prescribes for ALL inputs
     (within the loop / call-depth bound; paths that leave the bound are counted and are outside the claim);
  4. translator validation: a model of each explored path's condition is turned into concrete inputs, the real `mscript run`
     is executed on them and must print exactly what the symbolic executor predicts for that path;
  5. a solver counterexample is replayed the same way and reported only if the real output differs from the semantics."""
import sys, os, time, json, argparse, re, multiprocessing, hashlib
HERE = os.path.dirname(os.path.abspath(__file__))
sys.path.insert(0, os.path.join(HERE, "..", "lib"))
sys.path.insert(0, os.path.join(HERE, "..", "bytesym"))
import vcommon as V
from vcommon import log
import z3
import core, ref, driver as D, gen01, gen15, gen07, gen12, gen08, gen13, gen17, gen04, gen02, gen11, gen14

LIMITS = {"timeout_ms": 4000, "max_steps": 6000, "max_paths": 160, "max_depth": 10, "budget_s": 90}
G = {}


def build_cli(scratch):
    t = time.time()
    # built with the trace hook (cfg mscript_verif): validation compares real executions with the instruction summary step by step
    env = V.env_offline({"RUSTFLAGS": "--cfg mscript_verif -Awarnings"})
    V.run(["cargo", "build", "--offline", "--target-dir", os.path.join(scratch.dir, "target-cli")], cwd=scratch.repo, env=env, timeout=1800)
    exe = os.path.join(scratch.dir, "target-cli", "debug", "mscript")
    if not os.path.exists(exe):
        raise V.Inconclusive("CLI binary not built")
    log("  CLI built in %.1fs" % (time.time() - t))
    return exe


def family(prop):
    return {"C01": gen01, "C15": gen15, "C07": gen07, "C12": gen12, "C08": gen08, "C13": gen13, "C17": gen17, "C04": gen04, "C18": gen04, "C02": gen02, "C11": gen11, "C14": gen14}[prop]


def path_models(paths, nin, limit):
    """one concrete input vector per explored path (a model of its path condition)"""
    out = []
    for p in paths:
        if p["status"] == "bound":
            continue
        s = z3.Solver()
        s.set("timeout", 5000)
        for c in p["pc"]:
            s.add(c)
        # prefer small magnitudes: keeps the real run away from unrelated limits
        s.push()
        for x in D.input_vars(nin):
            s.add(x >= -50, x <= 50)
        r = s.check()
        if r != z3.sat:
            s.pop()
            r = s.check()
        if r != z3.sat:
            continue
        out.append((D.model_values(s.model(), nin), p))
        if len(out) >= limit:
            break
    return out


def norm(lines):
    """printed values -> the lines a text-mode reader of stdout sees (a value may contain line feeds; CR / CRLF read as LF)"""
    if not lines:
        return []
    t = "".join(l + "\n" for l in lines).replace("\r\n", "\n").replace("\r", "\n").split("\n")
    t.pop()
    return t


PIPELINE = {"C04": "execute", "C18": "transpile", "C11": "execute"}


# ---------------------------------------------------------------- C02: accepted programs never hit a dynamic type failure
ALLOWED_FAILURES = ("assert ", "arith ", "unwrap ", "vec_op index out of bounds", "bin_op invalid binary operation on nil", "lookup nil object", "remove index out of range",
                    "bin_op invalid binary operation on an Optional")
REAL_ALLOWED = ("assertion failed", "divide by zero", "overflow", "out of bounds", "nil", "None", "unwrap", "does not fit", "stack overflow")


TYPE_TEXT = re.compile(r"^\(*(int|bool|str|bigint|float|byte|fn\(|\[|map\[|K$|K\?)")


def kind_ok(v, t):
    """does the run-time value v have the kind the static type text t names?  (nil excepted - C02)"""
    from core import NIL, ListRef, MapRef, Fn, Obj, Some, is_int, is_bool
    t = t.strip()
    if v is NIL:
        return True
    if isinstance(v, Some):
        return t.endswith("?") and kind_ok(v.v, t[:-1])
    if t.endswith("?"):
        return kind_ok(v, t[:-1])
    if t.startswith("(") and t.endswith(")"):
        return kind_ok(v, t[1:-1])
    if isinstance(v, tuple) and v and v[0] == "big":
        return t == "bigint"
    if t == "int":
        return is_int(v)
    if t == "bool":
        return is_bool(v)
    if t == "str" or t.startswith("str("):
        return isinstance(v, tuple) and v[0] == "str"
    if t.startswith("fn("):
        return isinstance(v, Fn)
    if t.startswith("map["):
        return isinstance(v, MapRef)
    if t.startswith("["):
        if not isinstance(v, ListRef):
            return False
        if t.endswith("...]"):
            return all(kind_ok(x, t[1:-4]) for x in v.items)
        return True
    if t in ("bigint", "float", "byte"):
        return False if (is_int(v) or is_bool(v) or isinstance(v, (tuple, ListRef, MapRef, Fn, Obj))) else None
    if isinstance(v, Obj):
        return True
    return None          # a type text this check does not interpret


def work_c02(job):
    idx, item, validate = job
    prop, exe, wdir = G["prop"], G["exe"], G["wdir"]
    prog = gen02.program(*item)
    stem = "t%05d_%d" % (idx, os.getpid())
    res = {"idx": idx, "item": item, "what": gen02.describe(item), "violations": [], "mismatch": []}
    t = time.time()
    try:
        funcs, mp = D.compile_raw(exe, wdir, stem, ref.render(prog))
    except RuntimeError as e:
        res.update(status="rejected", reason=str(e)[-200:], t=time.time() - t)
        return res
    try:
        limits = dict(LIMITS, deadline=time.time() + LIMITS["budget_s"])
        paths, ex = D.explore_impl(funcs, mp, gen02.NIN, (), limits)
        res.update(status="ok", impl_paths=len(paths), queries=ex.queries, unknown=ex.unknowns, validated=0,
                   bound_paths=sum(1 for p in paths if p["status"] == "bound"), fail_paths=sum(1 for p in paths if p["status"] == "fail"))
        res["probes"] = 0
        for vals, p in path_models(paths, gen02.NIN, 400):
            why = None
            if p["status"] == "fail" and not p["detail"].startswith(ALLOWED_FAILURES):
                why = "dynamic type failure: " + p["detail"]
            out = p["out"]
            for k in range(0, len(out) - 1):
                a, b = out[k], out[k + 1]
                if isinstance(a, tuple) and a[0] == "str" and TYPE_TEXT.match(a[1]):      # a `typeof` line followed by the value
                    res["probes"] += 1
                    if kind_ok(b, a[1]) is False and why is None:
                        why = "a value of another kind than `typeof` reports (%s)" % a[1]
            st, lines, detail = D.predict_impl(funcs, mp, vals)
            lines = norm(lines)
            rc, rout, err = D.run_real(exe, wdir, stem + "r", ref.render(prog, vals), full_stderr=True)
            res["validated"] += 1
            agrees = rc is not None and (rc == 0) == (st == "ok") and rout == lines
            if not agrees:
                res["mismatch"].append({"inputs": vals, "predicted": [st, lines, detail], "real": [rc, rout, err[-300:]]})
            if why:
                last = [l for l in err.strip().split("\n") if l.strip()]
                real_allowed = rc == 0 or any(a in err for a in REAL_ALLOWED) and "type" not in why
                res["violations"].append({"inputs": vals, "why": why, "expected": ["accepted by the compiler: no dynamic type failure, values of the reported kind", []],
                                          "real": [rc, rout, err[-500:]], "reproduced": agrees})
        if res["violations"]:
            res["status"] = "violation"
        elif ex.unknowns:
            res["status"] = "unknown"
    except core.TooManyPaths as e:
        res.update(status="outside-bound", reason=str(e))
    except core.Deadline:
        res.update(status="unknown", reason="time budget used up")
    except core.Unsupported as e:
        res.update(status="unsupported", reason=str(e)[:300])
    except Exception as e:   # noqa
        res.update(status="unsupported", reason="%s: %s" % (type(e).__name__, str(e)[:300]))
    for suf in ("", "r"):
        try:
            os.remove(os.path.join(wdir, stem + suf + ".ms"))
        except OSError:
            pass
    res["t"] = time.time() - t
    return res


def work(job):
    if G["prop"] == "C02":
        return work_c02(job)
    idx, item, validate = job
    prop, exe, wdir = G["prop"], G["exe"], G["wdir"]
    fam = family(prop)
    prog = fam.program(*item)
    stem = "p%05d_%d" % (idx, os.getpid())
    res = {"idx": idx, "item": item, "what": fam.describe(item)}
    t = time.time()
    multi = isinstance(prog, dict)
    if multi:
        # a multi-module program lives in a directory of its own (the module files have fixed names)
        wdir = os.path.join(wdir, stem)
        os.makedirs(wdir, exist_ok=True)
        stem = "main"
    oth = lambda vals=None: (ref.render_modules(prog, vals) if multi else None)
    try:
        if multi:
            funcs, mp = D.compile_raw_modules(exe, wdir, stem, ref.render(prog), oth())
        else:
            funcs, mp = D.compile_raw(exe, wdir, stem, ref.render(prog))
    except RuntimeError as e:
        res.update(status="compile-fail", reason=str(e)[-400:])
        return res
    try:
        keep = {}
        r = D.check_program(prog, funcs, mp, fam.NIN, (), LIMITS, keep)
        res.update(r)
        res["mismatch"] = []
        res["validated"] = 0
        if validate and "impl" in keep:
            for vals, p in path_models(keep["impl"], fam.NIN, validate):
                ptrace, rtrace, holder = [], [], {}
                st, lines, detail = D.predict_impl(funcs, mp, vals, trace=ptrace, holder=holder)
                lines = norm(lines)
                rc, out, err = D.run_real(exe, wdir, stem if multi else stem + "r", ref.render(prog, vals), trace=rtrace, full_stderr=(prop == "C17"), others=oth(vals))
                res["validated"] += 1
                if prop in PIPELINE:
                    # C04 / C18: the same program and inputs through the file pipeline; stdout byte for byte, success / failure
                    pl = D.run_pipelines(exe, wdir, stem if multi else stem + "m", ref.render(prog, vals), ("run", PIPELINE[prop]), others=oth(vals))
                    res["pipeline_runs"] = res.get("pipeline_runs", 0) + 1
                    a_, b_ = pl["run"], pl[PIPELINE[prop]]
                    if D.pipelines_differ(a_, b_):
                        res.setdefault("pipeline", []).append({"inputs": vals, "pipeline": PIPELINE[prop],
                                                               "run": [a_[0], a_[1].decode("utf-8", "replace"), a_[2][-200:]],
                                                               "other": [b_[0], b_[1].decode("utf-8", "replace"), b_[2][-200:]]})
                if prop == "C17" and st == "fail":
                    # C17: a failing program ends in a reported run-time error (status 1, no panic / abort) whose call trace lists
                    # exactly the frames active at the point of failure, innermost first
                    want = [fr.label.split("#", 1)[-1] for fr in reversed(holder["machine"].stack)]
                    got = D.parse_call_trace(err)
                    got_n = None if got is None else [g.split("#", 1)[-1] for g in got]
                    res["call_traces_compared"] = res.get("call_traces_compared", 0) + 1
                    bad = None
                    if rc != 1 or "panicked at" in err:
                        bad = "exit status %s%s where a reported run-time error (status 1) is due" % (rc, ", Rust panic" if "panicked at" in err else "")
                    elif got_n != want:
                        bad = "call trace %s, frames active at the failure %s" % (got_n, want)
                    elif out != lines:
                        bad = "output before the failure differs"
                    elif detail.startswith("assert") and item[0] in ("assert", "assert_inline"):
                        # a failed assert names file, line and column of THAT assert (position read off the source text)
                        lvl = vals[0] if 1 <= vals[0] <= 7 else 0
                        if vals[0] == 8 and gen17.level_in_module(item[1], 8):
                            lvl = 8
                        in_lib = gen17.level_in_module(item[1], lvl)
                        src_text = ref.render_modules(prog, vals)[gen17.LIB + ".ms"] if in_lib else ref.render(prog, vals)
                        want_pos = gen17.assert_position(src_text, lvl)
                        mpos = re.search(r"\(([^():\s]+):(\d+):(\d+)\)", err)
                        got_pos = (int(mpos.group(2)), int(mpos.group(3))) if mpos else None
                        res["assert_positions_compared"] = res.get("assert_positions_compared", 0) + 1
                        if want_pos is None or got_pos != want_pos or not mpos.group(1).endswith(".ms") or mpos.group(1).endswith(gen17.LIB + ".ms") != in_lib:
                            bad = "the failed assert is reported at %s, the statement is at %s (line, column)" % (got_pos, want_pos)
                    if bad:
                        res.setdefault("c17", []).append({"inputs": vals, "why": bad, "expected": [st, lines, want], "real": [rc, out, (got or err[-300:])]})
                    err = err[-400:]
                res["trace_records"] = res.get("trace_records", 0) + len(rtrace)
                tdiff = None
                if rtrace and ptrace != rtrace:
                    k = next((i for i, (x, y) in enumerate(zip(ptrace, rtrace)) if x != y), min(len(ptrace), len(rtrace)))
                    tdiff = {"at_record": k, "predicted": ptrace[k] if k < len(ptrace) else None, "real": rtrace[k] if k < len(rtrace) else None,
                             "legend": "(function, ip, frames, open scope markers, operand-stack size)"}
                if rc is None or (rc == 0) != (st == "ok") or out != lines or tdiff is not None:
                    rst, rlines, _ = D.predict_ref(prog, vals)
                    rlines = norm(rlines)
                    res["mismatch"].append({"inputs": vals, "predicted": [st, lines, detail], "real": [rc, out, err[-200:]], "semantics": [rst, rlines], "trace_diff": tdiff,
                                            "real_differs_from_semantics": rc is None or (rc == 0) != (rst == "ok") or out != rlines})
        # replay of solver counterexamples: real run vs. the semantics
        for v in res.get("violations", []):
            st, lines, detail = D.predict_ref(prog, v["inputs"])
            lines = norm(lines)
            rc, out, err = D.run_real(exe, wdir, stem if multi else stem + "v", ref.render(prog, v["inputs"]), others=oth(v["inputs"]))
            v["expected"] = [st, lines]
            v["real"] = [rc, out, err[-300:]]
            v["reproduced"] = rc is None or (rc == 0) != (st == "ok") or out != lines
    except core.Unsupported as e:
        res.update(status="unsupported", reason=str(e)[:300])
    except Exception as e:   # noqa
        res.update(status="unsupported", reason="%s: %s" % (type(e).__name__, str(e)[:300]))
    if multi:
        import shutil
        shutil.rmtree(wdir, ignore_errors=True)
    for suf in ("", "r", "v", "m"):
        try:
            os.remove(os.path.join(wdir, stem + suf + ".ms"))
        except OSError:
            pass
    res["t"] = time.time() - t
    return res


def classify(prop, item, why):
    """finding key: which construct, not which witness"""
    if prop == "C01":
        spine, leaf = item[0], item[1]
        forms = sorted(set(spine))
        return ("C01", "program", "+".join(forms), re.sub(r"[0-9]+", "N", why.split(":")[0])[:60], "any")
    return (prop, "program", family(prop).describe(item)[:80], re.sub(r"[0-9]+", "N", why.split(":")[0])[:60], "any")


def known_match(known, prop, item, v):
    """known findings of C01 are keyed by the construct that must be present and the symptom class"""
    for k, f in known.items():
        if f.get("program_class") and prop != "C01":
            if re.search(f["program_class"], family(prop).describe(item)) and f.get("symptom", "") in v["why"]:
                return f
            continue
        need = f.get("needs_forms")
        if need and prop == "C01":
            spine = item[0]
            if all(any(fm == n for fm in spine) for n in need) and f.get("symptom", "") in v["why"]:
                return f
    return None


def main():
    ap = argparse.ArgumentParser()
    ap.add_argument("prop")
    ap.add_argument("--tier", default=os.environ.get("VERIF_TIER", "quick"))
    ap.add_argument("--replay")
    ap.add_argument("--merge", action="store_true", help="add this run's coverage to the evidence file another engine wrote for the same property")
    a = ap.parse_args()
    t0 = time.time()
    prop = a.prop
    if a.tier == "thorough":
        # the deep tier may take its time: a program is given up (undecided, exit 2) only after generous solver budgets
        LIMITS.update(timeout_ms=15000, budget_s=400)
    try:
        scratch = V.Scratch(prop.lower())
        exe = build_cli(scratch)
        wdir = os.path.join(scratch.dir, "progs")
        os.makedirs(wdir, exist_ok=True)
        G.update(prop=prop, exe=exe, wdir=wdir)
        if a.replay:
            return replay(a, prop)
        return check(a, prop, t0)
    except V.Inconclusive as e:
        log("INCONCLUSIVE:", e)
        print("INCONCLUSIVE property=%s reason=%s" % (prop, str(e)[:400].replace("\n", " ")))
        return V.EXIT_INCONCLUSIVE
    except Exception as e:   # noqa - a defect of the checker itself is never a verdict
        import traceback
        traceback.print_exc()
        print("INCONCLUSIVE property=%s reason=checker error %s: %s" % (prop, type(e).__name__, str(e)[:300].replace("\n", " ")))
        return V.EXIT_INCONCLUSIVE


def select(prop, tier):
    if prop == "C07":
        return gen07.select(tier, V.seed())
    if prop == "C12":
        return gen12.select(tier, V.seed())
    if prop == "C08":
        return gen08.select(tier, V.seed())
    if prop == "C13":
        return gen13.select(tier, V.seed())
    if prop == "C17":
        return gen17.select(tier, V.seed())
    if prop in ("C04", "C18"):
        return gen04.select(tier, V.seed())
    if prop == "C02":
        return gen02.select(tier, V.seed())
    if prop == "C11":
        return gen11.select(tier, V.seed())
    if prop == "C14":
        return gen14.select(tier, V.seed())
    if prop == "C01":
        if tier == "quick":
            return gen01.select([(1, None), (2, 1100), (3, 200)], V.seed(), deep=80)
        return gen01.select([(1, None), (2, None), (3, 7000)], V.seed(), deep=None)
    if tier == "quick":
        items, space = gen15.select(1, 3, 2400, V.seed())
        return items, space, 1
    items, space = gen15.select(1, 4, 14000, V.seed())
    return items, space, 1


def check(a, prop, t0):
    items, space, full_depth = select(prop, a.tier)
    if os.environ.get("VERIF_FAMILY_FILTER"):      # development aid: examine only the programs whose description contains the text
        items = [it for it in items if os.environ["VERIF_FAMILY_FILTER"] in family(prop).describe(it)]
    # every program is also run for real: up to 4 (quick) / 10 (thorough) of its paths, inputs from models of the path conditions
    # C17: every failing path; C14: the meaning of the string methods is compared with the real interpreter path by path, so more of them
    jobs = [(i, it, 200 if prop == "C17" else (12 if prop == "C14" else (4 if a.tier == "quick" else 10))) for i, it in enumerate(items)]
    log("  %s: %d programs (exhaustive to depth %d, seeded sample beyond)" % (prop, len(jobs), full_depth))
    with multiprocessing.Pool(15) as pool:
        results = pool.map(work, jobs, chunksize=4)
    return report(a, prop, results, space, full_depth, t0)


def report(a, prop, results, space, full_depth, t0):
    known = V.known_index(prop)
    ok = [r for r in results if r.get("status") == "ok"]
    viol = [r for r in results if r.get("status") == "violation"]
    unk = [r for r in results if r.get("status") == "unknown"]
    unsup = [r for r in results if r.get("status") in ("unsupported", "compile-fail")]
    outside = [r for r in results if r.get("status") == "outside-bound"]
    mism = [(r, m) for r in results for m in r.get("mismatch", [])]
    code = V.EXIT_OK
    new, unrepro, known_hits = [], [], {}
    for r in viol:
        for v in r["violations"]:
            f = known_match(known, prop, r["item"], v)
            if f is not None and v.get("reproduced"):
                known_hits.setdefault(f["what"], 0)
                known_hits[f["what"]] += 1
            elif v.get("reproduced"):
                new.append((r, v))
            else:
                unrepro.append((r, v))
    for r, m in list(mism):
        if m.get("real_differs_from_semantics"):
            v = {"inputs": m["inputs"], "why": "real run deviates from the semantics (and from the instruction summary): " + (m["real"][2].strip().split("\n")[-1][:80] if m["real"][2].strip() else "output differs"),
                 "expected": m["semantics"], "real": m["real"], "reproduced": True}
            f = known_match(known, prop, r["item"], v)
            if f is not None:
                known_hits.setdefault(f["what"], 0)
                known_hits[f["what"]] += 1
            else:
                new.append((r, v))
            mism.remove((r, m))
    for r in results:
        for c in r.get("c17", []):
            new.append((r, {"inputs": c["inputs"], "why": c["why"], "expected": c["expected"], "real": c["real"], "reproduced": True}))
    for r in results:
        for c in r.get("pipeline", []):
            new.append((r, {"inputs": c["inputs"], "why": "`run` and the `%s` pipeline behave differently (exit status / stdout)" % c["pipeline"], "pipeline": c["pipeline"],
                            "expected": c["run"][:2], "real": [c["other"][0], c["other"][1].split("\n"), c["other"][2]], "reproduced": True}))
    for what, n in known_hits.items():
        print("KNOWN-FINDING: property=%s %s (%d programs of this run show it)" % (prop, what, n))
    seen = set()
    for r, v in new:
        k = classify(prop, r["item"], v["why"])
        if k in seen:
            continue
        seen.add(k)
        if len(seen) > 25:
            continue
        fam = family(prop)
        rp = V.save_replay(prop, "%s_%s" % (prop, hashlib.sha1(repr((r["item"], v["inputs"])).encode()).hexdigest()[:12]),
                           {"property": prop, "item": r["item"], "what": r["what"], "inputs": v["inputs"], "why": v["why"], "pipeline": v.get("pipeline"),
                            "program": ref.render(fam.program(*r["item"]), v["inputs"]), "expected": v["expected"], "real": v["real"]})
        print("VIOLATION property=%s replay=%s" % (prop, rp))
        print("   %s, inputs %s: %s; the semantics prescribes %s, the real run printed %s (exit %s)"
              % (r["what"], v["inputs"], v["why"], v["expected"], v["real"][1], v["real"][0]))
        code = V.EXIT_VIOLATION
    if unk or unsup or mism or unrepro:
        for r in unsup[:5]:
            log("UNSUPPORTED / NOT COMPILING:", r["what"], r.get("reason"))
        for r in unk[:5]:
            log("UNDECIDED:", r["what"], r.get("reason", ""), "impl/ref paths", r.get("impl_paths"), r.get("ref_paths"))
        for r, m in mism[:5]:
            log("SUMMARY MISMATCH (the real interpreter does not do what engine D's instruction summary predicts):", r["what"], json.dumps(m)[:600])
        for r, v in unrepro[:5]:
            log("UNCONFIRMED solver counterexample (real run agrees with the semantics):", r["what"], v["inputs"], v["why"])
        if code == V.EXIT_OK:
            code = V.EXIT_INCONCLUSIVE
        print("INCONCLUSIVE property=%s unsupported=%d undecided=%d summary_mismatches=%d unconfirmed=%d" % (prop, len(unsup), len(unk), len(mism), len(unrepro)))
    npairs = sum(r.get("pairs", 0) for r in results)
    nq = sum(r.get("queries", 0) for r in results)
    nval = sum(r.get("validated", 0) for r in results)
    nbound = sum(r.get("bound_paths", 0) for r in results)
    samples = []
    for r in results[:2] + results[-1:]:
        samples.append({"program": r["what"], "status": r.get("status"), "impl_paths": r.get("impl_paths"), "ref_paths": r.get("ref_paths"),
                        "path_pairs_decided": r.get("pairs"), "solver_queries": r.get("queries")})
    fam = family(prop)
    samples.append({"source_of_first_program": ref.render(fam.program(*results[0]["item"]))})
    for r, v in new[:3]:
        samples.append({"violation": r["what"], "inputs": v["inputs"], "why": v["why"]})
    coverage = {
        "programs": len(results), "disagreements_checked": len(viol) + len(mism),
        "samples": samples,
        "programs_ok (every pair of jointly feasible paths behaves alike, for all inputs)": len(ok),
        "programs_outside_bound (more than %d paths: not examined, outside the claim)" % LIMITS["max_paths"]: len(outside),
        "programs_rejected_by_the_compiler (C02 says nothing about them)": sum(1 for r in results if r.get("status") == "rejected"),
        "typeof_probes_checked (value kind vs. the static type text, per explored path)": sum(r.get("probes", 0) for r in results),
        "programs_violating": len(viol), "programs_undecided": len(unk), "programs_unsupported": len(unsup),
        "implementation_paths": sum(r.get("impl_paths", 0) for r in results), "reference_paths": sum(r.get("ref_paths", 0) for r in results),
        "path_pairs_decided_by_solver": npairs, "solver_queries": nq,
        "paths_outside_bound (loop/step/call-depth bound reached; outside the claim)": nbound,
        "failing_paths_compared (assert, zero divisor, overflow: output must stop at the same statement)": sum(r.get("fail_paths", 0) for r in results),
        "traces_validated_against_impl": nval, "summary_mismatches": len(mism),
        "pipeline_runs_compared (`run` vs. the file pipeline of this property on the same program and inputs: stdout byte for byte, success / failure)": sum(r.get("pipeline_runs", 0) for r in results),
        "assert_positions_compared (file:line:column named by the report vs. where the failing assert stands in the source)": sum(r.get("assert_positions_compared", 0) for r in results),
        "call_traces_compared (failing real runs: status 1, no panic, trace = frames active at the failure)": sum(r.get("call_traces_compared", 0) for r in results),
        "trace_records_compared (real interpreter vs. instruction summary, per executed instruction: function, ip, frames, scope markers, operand-stack size)": sum(r.get("trace_records", 0) for r in results),
        "family": {"exhaustive_to_depth": full_depth, "space_listed": space, "selected": len(results)},
        "solver_time_s": round(sum(r.get("t", 0) for r in results), 1),
        "checker_cmd": "python3-vt checks/c01_main.py %s --tier %s  (z3 %s, QF_BV)" % (prop, a.tier, z3.get_version_string()),
        "bounds": "inputs: three i32, all values; <= %d executed steps and call depth <= %d per path; programs with more than %d paths are not examined (counted above)" % (LIMITS["max_steps"], LIMITS["max_depth"], LIMITS["max_paths"]),
        "functions_encoded": "compiler output of the real `mscript compile` for each program (all of compiler/src/ast/*::compile that the family reaches); interpreter side = instruction summary bytesym/vm.py",
    }
    assumptions = ["what is validated is the compiler's OUTPUT on this run, per program, for all input values; the interpreter side is the instruction summary in bytesym/vm.py, validated on this run against %d real executions (one per sampled path, inputs from a model of the path condition)" % nval,
                   "the language semantics is the reference interpreter bytesym/ref.py (stated at its top)",
                   "integer arithmetic is i32 with failure on overflow / zero divisor on both sides (what arithmetic yields is C05's claim)"]
    if a.merge:
        evdir = os.environ.get("VERIF_EVIDENCE_DIR") or os.path.join(V.VERIF, "evidence")
        p = os.path.join(evdir, "%s.json" % prop)
        try:
            ev = json.load(open(p))
        except (OSError, ValueError):
            ev = None
        if ev is None or ev.get("tier") != a.tier:
            # the first engine gave up (its exit status says so): this engine's verdict and coverage stand on their own
            log("--merge: no evidence of the first engine to add to; writing this engine's part alone")
            V.write_evidence(prop, a.tier, "translation_validation", coverage, assumptions + ["the first engine of this check did not finish on this run: only the engine D part is reported here"], time.time() - t0, len(seen))
            return code
        ev["coverage"]["engine_D_families (bounded translation validation of emitted code)"] = coverage
        ev["assumptions"] = ev.get("assumptions", []) + ["engine D part: " + x for x in assumptions]
        ev["wall_s"] = round(ev.get("wall_s", 0) + time.time() - t0, 2)
        ev["violations"] = ev.get("violations", 0) + len(seen)
        with open(p + ".tmp", "w") as f:
            json.dump(ev, f, indent=1, default=str)
        os.replace(p + ".tmp", p)
    else:
        V.write_evidence(prop, a.tier, "translation_validation", coverage, assumptions, time.time() - t0, len(seen))
    log("%s: %d programs (%d ok, %d violating, %d undecided, %d unsupported), %d path pairs, %d solver queries, %d real runs validated, %d new violations, %.1fs"
        % (prop, len(results), len(ok), len(viol), len(unk), len(unsup), npairs, nq, nval, len(seen), time.time() - t0))
    return code


def replay(a, prop):
    d = json.load(open(a.replay))
    fam = family(prop)
    item = d["item"]
    if prop == "C02":
        res = work_c02((0, tuplify(item), 400))
        hits = [v for v in res.get("violations", []) if v.get("reproduced")]
        print("program %s: %s, %d violating paths" % (res["what"], res.get("status"), len(hits)))
        if hits:
            print("VIOLATION property=%s replay=%s" % (prop, a.replay))
            return V.EXIT_VIOLATION
        print("not reproduced on the current tree")
        return V.EXIT_OK
    if prop in PIPELINE:
        item = tuplify(item)
    else:
        item = tuple(tuple(x) if isinstance(x, list) else x for x in item) if prop == "C01" else (tuplify(item[0]), item[1], item[2])
    prog = fam.program(*item)
    if d.get("pipeline"):
        pl = D.run_pipelines(G["exe"], G["wdir"], "replay", ref.render(prog, d["inputs"]), ("run", d["pipeline"]), others=ref.render_modules(prog, d["inputs"]))
        print("run: %s | %s: %s" % (pl["run"][:2], d["pipeline"], pl[d["pipeline"]][:2]))
        if D.pipelines_differ(pl["run"], pl[d["pipeline"]]):
            print("VIOLATION property=%s replay=%s" % (prop, a.replay))
            return V.EXIT_VIOLATION
        print("not reproduced on the current tree")
        return V.EXIT_OK
    st, lines, detail = D.predict_ref(prog, d["inputs"])
    lines = norm(lines)
    rc, out, err = D.run_real(G["exe"], G["wdir"], "replay", ref.render(prog, d["inputs"]), others=ref.render_modules(prog, d["inputs"]))
    print("semantics: %s %s | real: exit %s %s" % (st, lines, rc, out))
    if rc is None or (rc == 0) != (st == "ok") or out != lines:
        print("VIOLATION property=%s replay=%s" % (prop, a.replay))
        return V.EXIT_VIOLATION
    print("not reproduced on the current tree")
    return V.EXIT_OK


def tuplify(x):
    return tuple(tuplify(y) for y in x) if isinstance(x, list) else x


if __name__ == "__main__":
    sys.exit(main())
