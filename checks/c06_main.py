#!/usr/bin/env python3
"""C06: compile-time constant folding agrees with run-time evaluation.

folder side : engine B over the MIR of the compiler crate: `impl {Add,Sub,Mul,Div,Rem,Shl,Shr,BitAnd,BitOr,BitXor} for &Number`,
              `Number::negate`, `impl CompileTimeEvaluate for Number` (literal widening); decimal strings are abstract terms
              (std's to_string/parse contract, /verif/mirsym/decmodels.py).
run-time side: engine B summaries of the same operator reached through the interpreter instruction (see C05).
For every (operator, literal kinds) and ALL literal values: the folded literal, once loaded by `make_<kind>`, has the kind and value
the run-time evaluation yields; the folder fails exactly when the run time fails.
"""
import sys, os, time, json, argparse
HERE = os.path.dirname(os.path.abspath(__file__))
sys.path.insert(0, os.path.join(HERE, "..", "lib"))
sys.path.insert(0, os.path.join(HERE, "..", "mirsym"))
import z3
import vcommon as V
from vcommon import log
import native as N
import mir, sym, opkernels as K, opcheck as Q, foldkernels as F, decmodels

OPS = ["add", "sub", "mul", "div", "rem", "shl", "shr", "bitand", "bitor", "bitxor"]


def main():
    ap = argparse.ArgumentParser()
    ap.add_argument("--tier", default=os.environ.get("VERIF_TIER", "quick"))
    ap.add_argument("--replay")
    ap.add_argument("--emit-known")
    a = ap.parse_args()
    t0 = time.time()
    try:
        scratch = V.Scratch("c06")
        if a.replay:
            return replay(scratch, a.replay)
        return check(scratch, a, t0)
    except (V.Inconclusive, sym.Inconclusive, mir.MirError) as e:
        log("INCONCLUSIVE:", e)
        print("INCONCLUSIVE property=C06 reason=%s" % str(e)[:400].replace("\n", " "))
        return V.EXIT_INCONCLUSIVE


def check(scratch, a, t0):
    qs = Q.QueryStats()
    findings = []
    info = {"functions": {}, "paths": {}}
    timeout_ms = 45000 if a.tier == "quick" else 180000
    nat = N.NativeBytecode(scratch)
    natc = N.NativeCompiler(scratch)
    for release in (False, True):
        profile = "release" if release else "dev"
        oc = not release
        ker = K.Kernels(mir.MirFile(scratch.mir_dump("bytecode", oc)), oc, scratch.repo, seed=V.seed())
        fk = F.FoldKernels(mir.MirFile(scratch.mir_dump("compiler", oc)), scratch.repo, seed=V.seed())
        info["functions"][profile] = {"folder": fk.encoded_functions(), "runtime": ker.encoded_functions()}
        npaths = 0
        cases = [(op, (k1, k2)) for op in OPS for k1 in K.KINDS for k2 in K.KINDS] + [("negate", (k,)) for k in K.KINDS]
        pf = []
        for op, kinds in cases:
            # Number level: `&Number op &Number` / Number::negate directly
            fs = fk.summarize(op, list(kinds))
            rs = ker.summarize_instr(op, list(kinds))
            npaths += len(fs.paths) * len(rs.paths)
            pf += compare(op, kinds, fs, rs, profile, qs, timeout_ms)
            # Expr level: `impl CompileTimeEvaluate for Expr` on literal leaves; an `int` literal is any integer text up to
            # 128 bits (it widens to bigint when it does not fit 32 bits), so each Int leaf is split into narrow / wide
            expr_level = ("Int" in kinds) if a.tier == "thorough" else (not release and all(k == "Int" for k in kinds))
            if expr_level:
                n, fnd = compare_expr(fk, ker, op, kinds, profile, qs, timeout_ms)
                npaths += n
                pf += fnd
        pf += widening(fk, profile, qs, timeout_ms)
        if not release:
            pf += literal_forms(fk, profile, qs, timeout_ms)
        info["paths"][profile] = npaths
        log("  [%s] %d folder/run-time path pairs, %d obligations so far, %d candidate findings" % (profile, npaths, qs.obligations, len(pf)))
        # boundary probes: the obligation `literal-loads` is decided on a CONTRACT of make_<kind> (std's FromStr); the real
        # make_<kind> is exercised here on the literals at the edge of each kind, produced by the real folder
        pf += boundary_probes(profile)
        # native confirmation: real folder (compiler crate) and real run time (bytecode crate) on the witness
        confirm(pf, nat, natc, release)
        pf = [f for f in pf if not (getattr(f, "probe", False) and not f.confirmed)]
        findings += pf
    return report(a, findings, qs, info, t0)


def compare(op, kinds, fs, rs, profile, qs, timeout_ms):
    out = []
    arm = ",".join(kinds)
    lab = "fold:%s[%s]/%s" % (op, arm, profile)

    def add(cls, vals, detail):
        f = Q.Finding("C06", op, arm, cls, profile, [(kinds[i], vals[i]) for i in range(len(kinds))], detail)
        f.native_op = "I:" + op
        out.append(f)

    for fi, fp in enumerate(fs.paths):
        for ri, rp in enumerate(rs.paths):
            both = z3.And(fp.cond(), rp.cond())
            pl = "%s:f%d(%s)xr%d(%s)" % (lab, fi, fp.outcome, ri, rp.outcome)
            if fp.outcome == "panic":
                r, vals = Q.decide(both, fs, qs, timeout_ms, V.seed(), pl + ":folder-panics")
                if r == "sat":
                    add("folder-panics", vals, "the constant folder itself panics: " + fp.msg)
                continue
            if fp.outcome == "ok":
                okparse, val = F.literal_value(fp.rkind, fp.rval)
                if rp.outcome != "ok":
                    r, vals = Q.decide(both, fs, qs, timeout_ms, V.seed(), pl + ":accepts=>succeeds")
                    if r == "sat":
                        add("compiler-accepts-runtime-fails", vals, "the folder produces a literal although run-time evaluation fails (%s)" % rp.outcome)
                    continue
                r, vals = Q.decide(z3.And(both, z3.Not(okparse)), fs, qs, timeout_ms, V.seed(), pl + ":literal-loads")
                if r == "sat":
                    add("folded-literal-unloadable", vals, "the folded %s literal text is not accepted by make_%s at run time" % (fp.rkind, fp.rkind.lower()))
                if fp.rkind != rp.rkind:
                    r, vals = Q.decide(z3.And(both, okparse), fs, qs, timeout_ms, V.seed(), pl + ":kind")
                    if r == "sat":
                        add("kind-differs", vals, "folded kind %s, run-time kind %s" % (fp.rkind, rp.rkind))
                    continue
                r, vals = Q.decide(z3.And(both, okparse, val != rp.rval.e), fs, qs, timeout_ms, V.seed(), pl + ":value")
                if r == "sat":
                    add("value-differs", vals, "folded value differs from the run-time value")
            else:
                if op == "negate":
                    continue   # Number::negate -> None means "not foldable": the run-time `neg` instruction is emitted instead
                if rp.outcome == "ok":
                    r, vals = Q.decide(both, fs, qs, timeout_ms, V.seed(), pl + ":rejects=>fails")
                    if r == "sat":
                        add("compiler-rejects-runtime-succeeds", vals, "the folder rejects the expression although run-time evaluation yields a value")
    return out


def compare_expr(fk, ker, op, kinds, profile, qs, timeout_ms):
    import itertools
    out = []
    npairs = 0
    names = ["a", "b"]
    int_pos = [i for i, k in enumerate(kinds) if k == "Int"]
    for wide in itertools.product([False, True], repeat=len(int_pos)):
        wmap = dict(zip(int_pos, wide))
        if not any(wide):
            pass   # all-narrow literals still go through the Expr-level code (widening must NOT trigger)
        leaves, link, rt_kinds, finputs, fkinds = [], [], [], [], []
        for i, k in enumerate(kinds):
            if k == "Int" and wmap[i]:
                # literal text = an integer that does NOT fit 32 bits; the run time sees a bigint with the same value
                A = z3.BitVec(names[i], 128)
                leaves.append(("Int", sym.Sc("i128", A), 128))
                finputs.append(sym.Sc("i128", A))
                fkinds.append("BigInt")
                rt_kinds.append("BigInt")
                link.append(z3.Not(z3.And(A >= -(1 << 31), A <= (1 << 31) - 1)))
            elif k == "Int":
                # literal text = the decimal text of a 32-bit value (written as a 128-bit-domain literal: sign extension)
                a32 = z3.BitVec(names[i], 32)
                leaves.append(("Int", sym.Sc("i128", z3.SignExt(96, a32)), 128))
                finputs.append(sym.Sc("i32", a32))
                fkinds.append("Int")
                rt_kinds.append("Int")
            else:
                p = K.sym_payload(k, names[i])
                leaves.append((k, p, None))
                finputs.append(p)
                fkinds.append(k)
                rt_kinds.append(k)
        fpaths = F.summarize_expr(fk, op, leaves)
        rs = ker.summarize_instr(op, rt_kinds)
        pseudo = K.Summary(op, tuple(fkinds), finputs, [], "expr", 0)
        # findings are keyed by the run-time kinds the operands have (a wide int literal IS a bigint operand)
        arm = ",".join(rt_kinds)
        lit = ",".join(("IntLit" + ("(wide)" if wmap[i] else "")) if k == "Int" else k for i, k in enumerate(kinds))
        lab = "foldexpr:%s[%s]/%s" % (op, lit, profile)
        linkc = z3.And(*link) if link else z3.BoolVal(True)

        def add(cls, vals, detail):
            rtw = [(rt_kinds[i], vals[i]) for i in range(len(kinds))]
            f = Q.Finding("C06", op, arm, cls, profile, rtw, detail + " [Expr-level folding of literals %s]" % lit)
            f.native_op = "I:" + op
            f.fold_witness = [(("IntLit" if wmap[i] else "Int") if k == "Int" else k, vals[i]) for i, k in enumerate(kinds)]
            out.append(f)

        for fi, fp in enumerate(fpaths):
            for ri, rp in enumerate(rs.paths):
                npairs += 1
                both = z3.And(fp.cond(), rp.cond(), linkc)
                pl = "%s:f%d(%s)xr%d(%s)" % (lab, fi, fp.outcome, ri, rp.outcome)
                if fp.outcome == "defer":
                    continue
                if fp.outcome == "panic":
                    r, vals = Q.decide(both, pseudo, qs, timeout_ms, V.seed(), pl + ":folder-panics")
                    if r == "sat":
                        add("folder-panics", vals, "the constant folder itself panics: " + fp.msg)
                    continue
                if fp.outcome == "ok":
                    okparse, val = F.literal_value(fp.rkind, fp.rval)
                    if rp.outcome != "ok":
                        r, vals = Q.decide(both, pseudo, qs, timeout_ms, V.seed(), pl + ":accepts=>succeeds")
                        if r == "sat":
                            add("compiler-accepts-runtime-fails", vals, "the folder produces a literal although run-time evaluation fails (%s)" % rp.outcome)
                        continue
                    r, vals = Q.decide(z3.And(both, z3.Not(okparse)), pseudo, qs, timeout_ms, V.seed(), pl + ":literal-loads")
                    if r == "sat":
                        add("folded-literal-unloadable", vals, "the folded %s literal text is not accepted by make_%s at run time" % (fp.rkind, fp.rkind.lower()))
                    if fp.rkind != rp.rkind:
                        r, vals = Q.decide(z3.And(both, okparse), pseudo, qs, timeout_ms, V.seed(), pl + ":kind")
                        if r == "sat":
                            add("kind-differs", vals, "folded kind %s, run-time kind %s" % (fp.rkind, rp.rkind))
                        continue
                    r, vals = Q.decide(z3.And(both, okparse, val != rp.rval.e), pseudo, qs, timeout_ms, V.seed(), pl + ":value")
                    if r == "sat":
                        add("value-differs", vals, "folded value differs from the run-time value")
                elif rp.outcome == "ok":
                    r, vals = Q.decide(both, pseudo, qs, timeout_ms, V.seed(), pl + ":rejects=>fails")
                    if r == "sat":
                        add("compiler-rejects-runtime-succeeds", vals, "the folder rejects the expression although run-time evaluation yields a value")
    return npairs, out


def widening(fk, profile, qs, timeout_ms):
    """`impl CompileTimeEvaluate for Number`: an int literal that does not fit 32 bits becomes a bigint, value preserved."""
    out = []
    v = z3.BitVec("a", 128)
    cells = {("in", 0): sym.Adt("Number", "Integer", [decmodels.dec("i128", v)])}
    outs = fk.ex.run(fk.fn["widen"], [sym.Ref(("in", 0))], cells=cells)
    fits = z3.And(v >= -(1 << 31), v <= (1 << 31) - 1)
    dummy = K.Summary("widen", ("BigInt",), [sym.Sc("i128", v)], [], fk.fn["widen"], 0)
    for i, o in enumerate(outs):
        pc = z3.And(*o.pc) if o.pc else z3.BoolVal(True)
        lab = "fold:widen/%s:path%d" % (profile, i)
        bad = None
        if o.kind != "return" or not (isinstance(o.value, sym.Adt) and o.value.ty == "Result"):
            bad = (pc, "literal evaluation panics or returns an unexpected value")
        elif o.value.variant == "Err":
            bad = (pc, "an int literal within 128 bits is rejected")
        else:
            ce = o.value.fields[0]
            num = ce.fields[0].fields[0] if isinstance(ce, sym.Adt) and ce.fields and isinstance(ce.fields[0], sym.Adt) and ce.fields[0].fields else None
            if not (isinstance(num, sym.Adt) and num.ty == "Number"):
                raise sym.Inconclusive("widen returned %r" % (o.value,))
            kind = F.KIND_OF_NUM[num.variant]
            okp, val = F.literal_value(kind, num.fields[0])
            want_kind = z3.If(fits, z3.BoolVal(kind == "Int"), z3.BoolVal(kind == "BigInt"))
            same = z3.And(okp, int_eq(kind, val, v))
            bad = (z3.And(pc, z3.Not(z3.And(want_kind, same))), "literal widening: wrong kind or value (%s)" % kind)
        r, vals = Q.decide(bad[0], dummy, qs, timeout_ms, V.seed(), lab)
        if r == "sat":
            f = Q.Finding("C06", "widen", "Int", "literal-widening", profile, [("BigInt", vals[0])], bad[1])
            f.native_op = None
            out.append(f)
    return out


def literal_forms(fk, profile, qs, timeout_ms):
    """`!b`, `get <literal>`, `get nil`, `(nil) or <literal>`, `(<literal>) or <literal>` folded by impl CompileTimeEvaluate for Expr:
    !b is the negation; get/or on a present literal yield that literal (kind and value); `(nil) or y` yields y; `get nil` is rejected."""
    from sym import Adt, Opaque, Ref, Sc
    out = []

    def run(root, cells):
        cells[("root",)] = root
        return fk.ex.run(fk.fn["expr"], [Ref(("root",))], cells=cells)

    def outcome(o):
        if o.kind == "panic":
            return ("panic", None, None)
        v = o.value
        if v.variant == "Err":
            return ("err", None, None)
        ce = v.fields[0]
        if ce.variant == "Impossible":
            return ("defer", None, None)
        val = ce.fields[0]
        if val.variant == "Boolean":
            return ("ok", "Bool", val.fields[0].e)
        if val.variant == "Number":
            n = val.fields[0]
            kind = F.KIND_OF_NUM[n.variant]
            okp, e = F.literal_value(kind, n.fields[0])
            return ("ok", kind, (okp, e))
        return ("other", None, None)

    def add(form, arm, vals, kinds, detail, native):
        f = Q.Finding("C06", form, arm, "literal-form-wrong", profile, [(kinds[i], vals[i]) for i in range(len(kinds))], detail)
        f.native_op = None
        f.lf = native
        out.append(f)

    # !b
    b = Sc("bool", z3.Bool("a"))
    cells = {}
    outs = run(Adt("Expr", "UnaryNot", [F.boxed(cells, ("h", 0), Adt("Expr", "Value", [Adt("Value", "Boolean", [b])]))]), cells)
    ps = K.Summary("not", ("Bool",), [b], [], "expr", 0)
    for i, o in enumerate(outs):
        pc = z3.And(*o.pc) if o.pc else z3.BoolVal(True)
        k, kind, e = outcome(o)
        bad = pc if not (k == "ok" and kind == "Bool") else z3.And(pc, e != z3.Not(b.e))
        r, vals = Q.decide(bad, ps, qs, timeout_ms, V.seed(), "fold:not/%s:path%d" % (profile, i))
        if r == "sat":
            add("not", "Bool", vals, ["Bool"], "`!<bool literal>` is not folded to the negation", "lf:not:%d" % vals[0])
    for kind in K.KINDS:
        a = K.sym_payload(kind, "a")
        # get <literal>  and  (<literal>) or <float literal>  and  (nil) or <literal>: all must yield the literal `a`
        for form in ("get", "orlit", "ornil"):
            cells = {}
            if form == "get":
                root = Adt("Expr", "UnaryUnwrap", [F.literal_leaf(cells, ("h", 0), kind, a), Opaque("span", "x")])
            elif form == "orlit":
                root = Adt("Expr", "NilEval", [F.literal_leaf(cells, ("h", 0), kind, a), Adt("Value", "Number", [F.number("Byte", K.sym_payload("Byte", "b"))])])
            else:
                root = Adt("Expr", "NilEval", [F.boxed(cells, ("h", 0), Adt("Expr", "Nil", [])), Adt("Value", "Number", [F.number(kind, a)])])
            ps = K.Summary(form, (kind,), [a], [], "expr", 0)
            for i, o in enumerate(run(root, cells)):
                pc = z3.And(*o.pc) if o.pc else z3.BoolVal(True)
                k, rk, e = outcome(o)
                if k == "ok" and rk == kind:
                    okp, val = e
                    bad = z3.And(pc, z3.Not(z3.And(okp, val == a.e)))
                else:
                    bad = pc
                r, vals = Q.decide(bad, ps, qs, timeout_ms, V.seed(), "fold:%s[%s]/%s:path%d" % (form, kind, profile, i))
                if r == "sat":
                    add(form, kind, vals, [kind], "`%s` on a present %s literal does not yield that literal" % ({"get": "get x", "orlit": "(x) or y", "ornil": "(nil) or x"}[form], kind), "lf:" + form)
    # get nil: must be rejected at compile time (the run time would stop with an error)
    cells = {}
    outs = run(Adt("Expr", "UnaryUnwrap", [F.boxed(cells, ("h", 0), Adt("Expr", "Nil", [])), Opaque("span", "x")]), cells)
    ps = K.Summary("getnil", (), [], [], "expr", 0)
    for i, o in enumerate(outs):
        pc = z3.And(*o.pc) if o.pc else z3.BoolVal(True)
        k, _, _ = outcome(o)
        r, vals = Q.decide(pc if k in ("ok", "panic", "other") else z3.BoolVal(False), ps, qs, timeout_ms, V.seed(), "fold:getnil/%s:path%d" % (profile, i))
        if r == "sat":
            add("getnil", "Nil", [], [], "`get nil` is folded to a value instead of being rejected", "lf:getnil")
    return out


def int_eq(kind, val, v128):
    bits = sym.INT_TYPES[K.KTY[kind]][0]
    if bits == 128:
        return val == v128
    return z3.SignExt(128 - bits, val) == v128


def boundary_probes(profile):
    import struct
    fb = lambda x: struct.unpack("<Q", struct.pack("<d", x))[0]
    probes = [("sub", ("Int", "Int"), [0x80000001, 1]), ("mul", ("Int", "Int"), [0xC0000000, 2]), ("shl", ("Int", "Int"), [1, 31]), ("add", ("Int", "Int"), [0x7FFFFFFE, 1]),
              ("sub", ("BigInt", "BigInt"), [(1 << 127) + 1, 1]), ("add", ("BigInt", "BigInt"), [(1 << 127) - 2, 1]), ("sub", ("Byte", "Byte"), [5, 5]), ("add", ("Byte", "Byte"), [254, 1]),
              ("negate", ("Int",), [0x7FFFFFFF]), ("negate", ("BigInt",), [(1 << 127) - 1]), ("mul", ("Float", "Float"), [fb(1e308), fb(10.0)]), ("sub", ("Float", "Float"), [fb(0.0), fb(0.0)]),
              ("mul", ("Float", "Float"), [fb(-1.0), fb(0.0)]), ("div", ("Float", "Float"), [fb(1.0), fb(3.0)])]
    out = []
    for op, kinds, vals in probes:
        f = Q.Finding("C06", op, ",".join(kinds), "folded-literal-unloadable", profile, [(kinds[i], vals[i]) for i in range(len(kinds))],
                      "the literal the real folder produces for this boundary expression is not accepted by the real make_<kind> (boundary probe)")
        f.native_op = "I:" + op
        f.probe = True
        out.append(f)
    return out


def confirm(findings, nat, natc, release):
    """replay on the real code: fold natively (compiler crate) and evaluate natively (bytecode crate)"""
    todo = [f for f in findings if f.native_op]
    lfs = [f for f in findings if getattr(f, "lf", None)]
    if lfs:
        vec = os.path.join(natc.s.dir, "fold_vectors_lf.txt")
        with open(vec, "w") as fh:
            for i, f in enumerate(lfs):
                w = f.witness + ([("Byte", 1)] if f.lf == "lf:orlit" else [])
                fh.write("%d %s %s\n" % (i, f.lf, " ".join("%s %x" % (k, v) for k, v in w if k != "Bool")))
        res = natc.run(env_extra={"VERIF_FOLD_VECTORS": vec}, release=release)
        got = {t[1]: t[2:] for t in res if t[0] == "fold"}
        for i, f in enumerate(lfs):
            f.native = got.get(str(i))
            # the REAL folder must deviate from the meaning of the form on this witness
            n = f.native
            if n is None:
                f.confirmed = False
            elif f.lf.startswith("lf:not"):
                f.confirmed = n != ["OK", "Bool", "%x" % (1 - f.witness[0][1])]
            elif f.lf == "lf:getnil":
                f.confirmed = n != ["ERR"]
            else:
                k, v = f.witness[0]
                f.confirmed = n != ["OK", k, "nan" if (k == "Float" and (v & 0x7FF0000000000000) == 0x7FF0000000000000 and v & 0xFFFFFFFFFFFFF) else "%x" % v]
    for f in findings:
        if not f.native_op and not getattr(f, "lf", None):
            f.native = ["(widening: confirmed by the folder harness below)"]
    if not todo:
        return
    rt = nat.eval([("w%d" % i, f.native_op, f.witness) for i, f in enumerate(todo)], release)
    lines = ["%d %s %s" % (i, ("expr:" + f.op) if getattr(f, "fold_witness", None) else f.op,
                           " ".join("%s %x" % (k, v) for k, v in (getattr(f, "fold_witness", None) or f.witness))) for i, f in enumerate(todo)]
    vec = os.path.join(natc.s.dir, "fold_vectors.txt")
    with open(vec, "w") as fh:
        fh.write("\n".join(lines) + "\n")
    res = natc.run(env_extra={"VERIF_FOLD_VECTORS": vec}, release=release)
    folded = {t[1]: t[2:] for t in res if t[0] == "fold"}
    for i, f in enumerate(todo):
        r = rt["w%d" % i]
        fo = folded.get(str(i))
        f.native = {"runtime": list(r), "folder": fo}
        f.confirmed = confirms(f.cls, r, fo)


def confirms(cls, r, fo):
    if fo is None:
        return False
    f_ok = fo[0] == "OK"
    r_ok = r[0] == "OK"
    if cls == "compiler-accepts-runtime-fails":
        return f_ok and not r_ok
    if cls == "compiler-rejects-runtime-succeeds":
        return (not f_ok) and r_ok
    if cls == "kind-differs":
        return f_ok and r_ok and fo[1] != r[1]
    if cls == "value-differs":
        return f_ok and r_ok and fo[1] == r[1] and fo[2] != ("nan" if r[2] == "nan" else "%x" % r[2])
    if cls == "folded-literal-unloadable":
        return f_ok and fo[1] == "UNLOADABLE"
    if cls == "folder-panics":
        return fo[0] == "PANIC"
    return False


def report(a, findings, qs, info, t0):
    known = V.known_index("C06")
    new, listed, bad = [], [], []
    for f in findings:
        if f.confirmed is False or (f.confirmed is None and (f.native_op or getattr(f, "lf", None))):
            bad.append(f)
        elif f.key() in known:
            listed.append(f)
        else:
            new.append(f)
    seen = set()
    for f in listed:
        if f.key() in seen:
            continue
        seen.add(f.key())
        print("KNOWN-FINDING: property=C06 fold %s[%s] %s (%s profile): %s" % (K.SYMBOL.get(f.op, f.op), f.arm, f.cls, f.profile, known[f.key()].get("what", f.detail)))
    if a.emit_known:
        with open(a.emit_known, "w") as fh:
            json.dump([{"property": "C06", "fn": f.op, "arm": f.arm, "class": f.cls, "profile": f.profile, "what": f.detail,
                        "example": " ".join("%s:%s" % (k, hex(v)) for k, v in f.witness) + " -> " + json.dumps(f.native)} for f in new], fh, indent=1)
    code = V.EXIT_OK
    for f in new:
        p = V.save_replay("C06", "%s_%s_%s_%s" % (f.op, f.arm.replace(",", "-"), f.cls, f.profile), f.as_dict())
        print("VIOLATION property=C06 replay=%s" % p)
        print("   fold %s[%s] %s (%s profile): %s; literals %s -> %s" % (K.SYMBOL.get(f.op, f.op), f.arm, f.cls, f.profile, f.detail,
              " ".join("%s:%s" % (k, hex(v)) for k, v in f.witness), json.dumps(f.native)))
        code = V.EXIT_VIOLATION
    if (bad or qs.undecided) and code == V.EXIT_OK:
        for f in bad[:10]:
            log("NON-REPRODUCING:", json.dumps(f.as_dict(), default=str))
        for u in qs.undecided[:10]:
            log("UNDECIDED:", u)
        code = V.EXIT_INCONCLUSIVE
        print("INCONCLUSIVE property=C06 non_reproducing=%d undecided=%d" % (len(bad), len(qs.undecided)))
    nknown = qs.violated - len(new) - len(bad)
    coverage = {
        "obligations": qs.obligations - nknown, "discharged": qs.discharged,
        "obligations_violated_by_listed_known_findings": nknown,
        "checker_cmd": "python3-vt checks/c06_main.py --tier %s" % a.tier,
        "trusted_base": ["rustc MIR dumps of `compiler` and `bytecode` (both overflow profiles)", "mirsym interpreter (validated against the real run-time kernels in the C05 run; every counterexample here is replayed on the real folder and the real run time)",
                         "decimal codec contract of std (decmodels.py): to_string/parse round trip, integer range checks, correctly rounded float parsing",
                         "`make_<kind>` loads a folded literal with <kind>::from_str (make_byte: decimal branch)"],
        "functions_encoded": info["functions"], "path_pairs": info["paths"],
        "expr_level": "quick: every operator on (int literal, int literal) in the dev profile, each literal split narrow/wide; thorough: every kind pair containing an int literal, both profiles",
        "bounds": "depth-1 expressions over two literals + unary minus + literal widening, all literal values of i32/i128/f64/u8 (int literals up to 128 bits); deeper trees are covered only through compositionality of try_constexpr_eval (children are folded first, a folded step is again a Number literal)",
        "solver_time_s": round(qs.solver_s, 2),
        "samples": qs.samples[:8] + [f.as_dict() for f in (new + listed)[:6]],
        "known_findings_reported": len(seen), "new_violations": len(new),
    }
    V.write_evidence("C06", a.tier, "proof", coverage,
                     ["a defect inside std's Display/FromStr is outside the claim", "`get`/`or`/`!` on literals and nesting in lists are outside this kernel"], time.time() - t0, len(new))
    log("C06: %d obligations, %d discharged, %d known keys, %d new, %d non-reproducing, %.1fs" % (qs.obligations, qs.discharged, len(seen), len(new), len(bad), time.time() - t0))
    return code


def replay(scratch, path):
    d = json.load(open(path))
    w = [(k, int(v, 16) if isinstance(v, str) else v) for k, v in d["witness"]]
    f = Q.Finding("C06", d["fn"], d["arm"], d["class"], d["profile"], w, d["detail"])
    f.native_op = d.get("native_op")
    if d.get("fold_witness"):
        f.fold_witness = [(k, int(v, 16)) for k, v in d["fold_witness"]]
    confirm([f], N.NativeBytecode(scratch), N.NativeCompiler(scratch), d["profile"] == "release")
    print("replay:", json.dumps(f.native))
    if f.confirmed:
        print("VIOLATION property=C06 replay=%s" % path)
        return V.EXIT_VIOLATION
    print("not reproduced on the current tree")
    return V.EXIT_OK


if __name__ == "__main__":
    sys.exit(main())
