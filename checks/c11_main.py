#!/usr/bin/env python3
"""C11 (kernel): modules initialise exactly once, in import order, and share one instance.

Engine B executes the real `module_entry` instruction and the Module arm of the real `Program::process_jump_request` (MIR of
`bytecode`, both overflow profiles) from an arbitrary module cache, the module's top-level code being an environment stub
(mirsym/modkernels.py).  The stub's contract and the end-to-end behaviour are validated on every run - and every solver
counterexample is replayed - by REAL multi-module programs compiled and run with the CLI built from the scratch copy.
"""
import sys, os, time, json, argparse, subprocess, shutil
HERE = os.path.dirname(os.path.abspath(__file__))
sys.path.insert(0, os.path.join(HERE, "..", "lib"))
sys.path.insert(0, os.path.join(HERE, "..", "mirsym"))
import z3
import vcommon as V
from vcommon import log
import mir, sym, opcheck as Q, modkernels as M, scopekernels as S

PROGRAMS = {
    # a imports b and c, c imports b again, a imports a name from b: b's code runs once, everyone shares b's list
    "diamond": ({"a.ms": 'print "a start"\nimport b\nimport c\nimport state from b\nb.state.push(7)\nprint c.peek()\nstate.push(8)\nprint b.state.len()\nprint c.peek()\nprint "a end"\n',
                 "b.ms": 'print "init b"\nexport state: [int...] = [0]\n',
                 "c.ms": 'print "init c"\nimport b\nexport peek: fn() -> int = fn() -> int {\n\treturn b.state.len()\n}\n'},
                ["a start", "init b", "init c", "2", "3", "3", "a end"]),
    # the same module imported three times in a row, in two forms
    "repeated": ({"a.ms": 'import b\nimport n from b\nimport m from b\nprint n\nprint m\nprint b.n\nprint "done"\n',
                  "b.ms": 'print "init b"\nexport n: int = 5\nexport m: int = 6\n'},
                 ["init b", "5", "6", "5", "done"]),
    # a module without any export, imported along two paths and directly: still initialised once
    "no-exports": ({"a.ms": 'print "a1"\nimport left\nimport right\nimport audit\nprint left.l() + right.r()\n',
                    "left.ms": 'import audit\nexport l: fn() -> int = fn() -> int {\n\treturn 1\n}\n',
                    "right.ms": 'import audit\nexport r: fn() -> int = fn() -> int {\n\treturn 2\n}\n',
                    "audit.ms": 'print "audit: init"\n'},
                   ["a1", "audit: init", "3"]),
    # importers see the exporter's LIVE variable, not a snapshot taken at export time
    "live-export": ({"a.ms": 'import b\nprint b.count\nb.bump()\nb.bump()\nprint b.count\nimport c\nprint c.seen()\n',
                     "b.ms": 'export count: int = 0\nexport bump: fn() = fn() {\n\tmodify count = count + 1\n}\n',
                     "c.ms": 'import b\nexport seen: fn() -> int = fn() -> int {\n\treturn b.count\n}\n'},
                    ["0", "2", "2"]),
    # an import that binds only a type still initialises the module, at that point
    "type-only": ({"a.ms": 'print "a1"\nimport type Celsius from units\nprint "a2"\nt: Celsius = 21\nprint t\n',
                   "units.ms": 'print "units: init"\nexport type Celsius int\nexport offset: int = 1\n'},
                  ["a1", "units: init", "a2", "21"]),
    # order: imports run depth-first in import order, each completing before the importer continues
    "order": ({"a.ms": 'print "a1"\nimport b\nprint "a2"\nimport c\nprint "a3"\n',
               "b.ms": 'print "b1"\nimport c\nprint "b2"\nexport x: int = 1\n',
               "c.ms": 'print "c1"\nexport y: int = 2\n'},
              ["a1", "b1", "c1", "b2", "a2", "a3"]),
}


def build_cli(scratch, release):
    t = time.time()
    cmd = ["cargo", "build", "--offline", "--bin", "mscript", "--target-dir", os.path.join(scratch.dir, "target-cli")] + (["--release"] if release else [])
    V.run(cmd, cwd=scratch.repo, env=V.env_offline({"RUSTFLAGS": "-Awarnings"}), timeout=3600)
    exe = os.path.join(scratch.dir, "target-cli", "release" if release else "debug", "mscript")
    if not os.path.exists(exe):
        raise V.Inconclusive("CLI binary not built")
    log("  real CLI (%s) built in %.1fs" % ("release" if release else "dev", time.time() - t))
    return exe


def real_suite(scratch, exe):
    dev, runs = [], 0
    env = dict(os.environ, RUST_BACKTRACE="0", NO_COLOR="1")
    for name, (files, want) in PROGRAMS.items():
        for mode in ("run", "compile+execute"):
            d = os.path.join(scratch.dir, "mods-" + name)
            shutil.rmtree(d, ignore_errors=True)
            os.makedirs(d)
            for fn, text in files.items():
                open(os.path.join(d, fn), "w").write(text)
            if mode == "run":
                p = subprocess.run([exe, "run", "a.ms", "-q"], cwd=d, stdout=subprocess.PIPE, stderr=subprocess.PIPE, text=True, env=env, timeout=120)
            else:
                c = subprocess.run([exe, "compile", "a.ms", "--quick"], cwd=d, stdout=subprocess.PIPE, stderr=subprocess.PIPE, text=True, env=env, timeout=120)
                if c.returncode != 0:
                    dev.append((name, mode, "compile failed", c.stderr[-300:]))
                    runs += 1
                    continue
                p = subprocess.run([exe, "execute", "a.mmm"], cwd=d, stdout=subprocess.PIPE, stderr=subprocess.PIPE, text=True, env=env, timeout=120)
            runs += 1
            got = p.stdout.strip().splitlines()
            if p.returncode != 0 or got != want:
                dev.append((name, mode, "expected %r" % want, {"exit": p.returncode, "stdout": got, "stderr": p.stderr[-300:]}))
    return runs, dev


def main():
    ap = argparse.ArgumentParser()
    ap.add_argument("--tier", default=os.environ.get("VERIF_TIER", "quick"))
    ap.add_argument("--replay")
    a = ap.parse_args()
    t0 = time.time()
    try:
        scratch = V.Scratch("c11")
        if a.replay:
            return replay(scratch, a.replay)
        return check(scratch, a, t0)
    except (V.Inconclusive, sym.Inconclusive, mir.MirError) as e:
        log("INCONCLUSIVE:", e)
        print("INCONCLUSIVE property=C11 reason=%s" % str(e)[:400].replace("\n", " "))
        return V.EXIT_INCONCLUSIVE


def check(scratch, a, t0):
    qs = Q.QueryStats()
    info = {"functions": {}, "models": {}, "real_runs": {}}
    timeout_ms = 60000 if a.tier == "quick" else 180000
    bad = []
    for release in (False, True):
        profile = "release" if release else "dev"
        oc = not release
        mk = M.ModKernels(mir.MirFile(scratch.mir_dump("bytecode", oc)), oc, scratch.repo, seed=V.seed())
        info["functions"][profile] = mk.encoded_functions()
        for cached in (False, True):
            for n in range(3):
                bad += [(profile,) + b for b in M.check_import(mk, cached, n, profile, qs, timeout_ms, V.seed())]
        for n in range(3):
            bad += [(profile,) + b for b in M.check_entry(mk, n, profile, qs, timeout_ms, V.seed())]
        # `export_name`: the export table receives the variable's own cell (what makes state shared across importers)
        sk = S.ScopeKernels(mk.mf, oc, scratch.repo, seed=V.seed())
        info["functions"][profile].update({"instruction export_name": sk.encoded_functions()["export_name"]})
        for sh in S.shapes(a.tier):
            run = S.run_export(sk, sh)
            for cls, detail, model in S.judge(sk, run, profile, qs, timeout_ms, V.seed()):
                bad.append((profile, cls, detail, "export_name," + run.arm))
        info["models"][profile] = sorted(set(mk.ex.stats["models_used"]) | set(sk.ex.stats["models_used"]))
        log("  [%s] %d obligations so far, %d candidate findings" % (profile, qs.obligations, len(bad)))
    deviations = []
    for release in ([False, True] if a.tier == "thorough" else [False]):
        exe = build_cli(scratch, release)
        runs, dev = real_suite(scratch, exe)
        info["real_runs"]["release" if release else "dev"] = runs
        deviations += dev
        log("  real multi-module programs (%s): %d runs, %d deviations" % ("release" if release else "dev", runs, len(dev)))
    known = V.known_index("C11")
    code, new = V.EXIT_OK, []
    if bad:
        if deviations:
            seen = set()
            for profile, cls, detail, arm in bad:
                key = ("C11", "import", arm, cls, profile)
                if key in seen or key in known:
                    continue
                seen.add(key)
                payload = {"property": "C11", "fn": "import", "arm": arm, "class": cls, "profile": profile, "detail": detail,
                           "real_deviations": deviations[:3]}
                p = V.save_replay("C11", "import_%s_%s_%s" % (arm, cls, profile), payload)
                print("VIOLATION property=C11 replay=%s" % p)
                print("   import[%s] %s (%s profile): %s; real program `%s` (%s): %s" % (arm, cls, profile, detail, deviations[0][0], deviations[0][1], json.dumps(deviations[0][3])[:300]))
                new.append(payload)
                code = V.EXIT_VIOLATION
        else:
            for b in bad[:10]:
                log("NON-REPRODUCING (the real multi-module programs behave as specified):", b)
            code = V.EXIT_INCONCLUSIVE
            print("INCONCLUSIVE property=C11 non_reproducing=%d" % len(bad))
    elif deviations:
        for d in deviations[:5]:
            log("REAL DEVIATION not predicted by the encoding:", d[0], d[1], json.dumps(d[3])[:400])
        print("INCONCLUSIVE property=C11 real_deviations=%d (the encoding predicts none)" % len(deviations))
        # a real multi-module program that contradicts the observable contract of C11 is a violation demonstrated on the real code,
        # although it lies outside the solver's part (compiler side, file loading)
        seen = set()
        for d in deviations:
            if d[0] in seen:
                continue
            seen.add(d[0])
            payload = {"property": "C11", "fn": "real-suite", "arm": d[0], "class": "real-program-deviates", "profile": "dev", "detail": d[1], "real_deviations": [d]}
            p = V.save_replay("C11", "real_%s" % d[0][:40], payload)
            print("VIOLATION property=C11 replay=%s" % p)
            print("   real program `%s` (%s) deviates from the contract: %s" % (d[0], d[1], json.dumps(d[3])[:300]))
            new.append(payload)
        code = V.EXIT_VIOLATION
    if qs.undecided and code == V.EXIT_OK:
        code = V.EXIT_INCONCLUSIVE
        print("INCONCLUSIVE property=C11 undecided=%d" % len(qs.undecided))
    coverage = {
        "obligations": qs.obligations, "discharged": qs.discharged,
        "checker_cmd": "python3-vt checks/c11_main.py --tier %s" % a.tier,
        "trusted_base": ["rustc MIR dump of `bytecode` (both overflow profiles)", "mirsym interpreter; pointer model of gc::Gc (a module instance is a cell), HashMap<String,_> with concrete keys, std RefCell without borrow flags",
                         "environment stub: `process_standard_jump_request` (running the module's top-level code) is a recorded effect yielding a fresh module instance / no value / a non-module value / an error (mirsym/modkernels.py)",
                         "validated on this run by %s REAL runs of multi-module programs (diamond import with shared mutable state, repeated imports in two forms, nested import order) through `run` and `compile`+`execute` of the CLI built from the scratch copy" % info["real_runs"],
                         "std models used: " + ", ".join(sorted(set(sum(info["models"].values(), []))))],
        "functions_encoded": info["functions"],
        "bounds": "module cache holding the requested path or not plus 0..2 other modules; every outcome of the module's top-level code arbitrary; module_entry with 0..2 operands.  Outside the solver's part: loading files, the entry module's registration in execute(), export visibility and types (compiler), the instruction sequence the compiler emits for `import a, b from m` - these are exercised only by the real programs",
        "solver_time_s": round(qs.solver_s, 2),
        "samples": qs.samples[:8] + new[:3],
        "new_violations": len(new),
    }
    V.write_evidence("C11", a.tier, "proof", coverage,
                     ["one import = one Module jump request (module_entry); the cache is keyed by the path string the compiler wrote",
                      "inductive reading: the cache holds, for every path, the instance its first successful initialisation produced"],
                     time.time() - t0, len(new))
    log("C11: %d obligations, %d discharged, %d new, %d undecided, %.1fs" % (qs.obligations, qs.discharged, len(new), len(qs.undecided), time.time() - t0))
    return code


def replay(scratch, path):
    d = json.load(open(path))
    exe = build_cli(scratch, d["profile"] == "release")
    runs, dev = real_suite(scratch, exe)
    print("replay: %d real runs, %d deviations" % (runs, len(dev)))
    for x in dev[:5]:
        print("   ", x[0], x[1], "-", x[2], "->", json.dumps(x[3])[:300])
    if dev:
        print("VIOLATION property=C11 replay=%s" % path)
        return V.EXIT_VIOLATION
    print("not reproduced on the current tree")
    return V.EXIT_OK


if __name__ == "__main__":
    sys.exit(main())
