#!/usr/bin/env python3
"""C20: `mscript clean DIR` deletes exactly the bytecode files of one directory and nothing else.

The real `clean_command` (MIR of the binary crate, regenerated from the current tree) is executed symbolically (engine B)
against a symbolic directory listing and arbitrary I/O outcomes (mirsym/fsmodels.py); obligations in mirsym/cleankernels.py.
Translator validation and counterexample replay run the REAL `mscript clean` binary on real directories.
"""
import sys, os, time, json, argparse, subprocess, shutil, re
HERE = os.path.dirname(os.path.abspath(__file__))
sys.path.insert(0, os.path.join(HERE, "..", "lib"))
sys.path.insert(0, os.path.join(HERE, "..", "mirsym"))
import z3
import vcommon as V
from vcommon import log
import mir, sym, opcheck as Q, cleankernels as C


def build_cli(scratch, release):
    t = time.time()
    cmd = ["cargo", "build", "--offline", "--bin", "mscript", "--target-dir", os.path.join(scratch.dir, "target-cli")]
    if release:
        cmd.append("--release")
    V.run(cmd, cwd=scratch.repo, env=V.env_offline({"RUSTFLAGS": "-Awarnings"}), timeout=3600)
    exe = os.path.join(scratch.dir, "target-cli", "release" if release else "debug", "mscript")
    if not os.path.exists(exe):
        raise V.Inconclusive("CLI binary not built")
    log("  real CLI (%s) built in %.1fs" % ("release" if release else "dev", time.time() - t))
    return exe


def run_real(exe, scratch, entries, missing_dir=False):
    """run the real `mscript clean` on a real directory; entries = [(name, 'f'|'d')]; directories get inner files"""
    root = os.path.join(scratch.dir, "fs")
    shutil.rmtree(root, ignore_errors=True)
    d = os.path.join(root, "dir")
    os.makedirs(d)
    # a sibling and a parent-level bytecode file that must never be touched
    open(os.path.join(root, "sibling.mmm"), "w").write("x")
    for name, kind in entries:
        p = os.path.join(d, name)
        if kind == "d":
            os.makedirs(p)
            open(os.path.join(p, "inner.mmm"), "w").write("x")
            open(os.path.join(p, "keep.txt"), "w").write("x")
        elif kind == "l":
            # a symbolic link to a file outside DIR that must survive
            tgt = os.path.join(root, "linked-%d.txt" % len(os.listdir(root)))
            open(tgt, "w").write("x")
            os.symlink(tgt, p)
        else:
            open(p, "w").write("x")
    target = os.path.join(root, "nonexistent") if missing_dir else d
    p = subprocess.run([exe, "clean", target], stdout=subprocess.PIPE, stderr=subprocess.PIPE, text=True, timeout=60,
                       env=dict(os.environ, RUST_BACKTRACE="0", NO_COLOR="1"))
    remaining = set(os.listdir(d))
    links_ok = all(os.path.exists(os.path.join(root, n)) for n in os.listdir(root) if n.startswith("linked-")) and \
        len([n for n in os.listdir(root) if n.startswith("linked-")]) == len([1 for _, k in entries if k == "l"])
    deleted = sorted(n for n, _ in entries if n not in remaining)
    inner_ok = all(os.path.exists(os.path.join(d, n, "inner.mmm")) and os.path.exists(os.path.join(d, n, "keep.txt"))
                   for n, k in entries if k == "d" and n in remaining)
    m = re.search(r"Removed (-?\d+) files", p.stdout)
    res = {"exit": p.returncode, "deleted": deleted, "remaining": sorted(remaining), "count": int(m.group(1)) if m else None,
           "inner_intact": inner_ok, "sibling_intact": os.path.exists(os.path.join(root, "sibling.mmm")) and links_ok,
           "panicked": p.returncode == 101 or "panicked at" in p.stderr, "stderr": p.stderr[-300:]}
    shutil.rmtree(root, ignore_errors=True)
    return res


def concrete_violations(entries, r, missing_dir=False):
    """the property decided on one concrete real run"""
    out = []
    kinds = dict(entries)
    for n in r["deleted"]:
        if kinds[n] == "d":
            out.append("deletes-directory")
        elif not C.is_mmm_text(n):
            out.append("deletes-non-mmm")
    if not r["inner_intact"] or not r["sibling_intact"]:
        out.append("touches-other-directories")
    if r["panicked"]:
        out.append("panic")
    elif r["exit"] == 0:
        if any(k == "f" and C.is_mmm_text(n) and n not in r["deleted"] for n, k in entries):
            out.append("keeps-mmm")
        if r["count"] is None:
            out.append("count-not-reported")
        elif r["count"] != len(r["deleted"]):
            out.append("wrong-count")
    else:
        if not missing_dir and not any(k == "d" and C.is_mmm_text(n) for n, k in entries):
            out.append("fails-without-io-error")
    return out


def validate(summaries, exe, scratch):
    n, mism = 0, []
    for s in summaries:
        for names in C.grid(s):
            pred = C.predict(s, names)
            r = run_real(exe, scratch, [(x, "f") for x in names])
            n += 1
            got = ("PANIC" if r["panicked"] else "OK" if r["exit"] == 0 else "ERR", frozenset(r["deleted"]), r["count"])
            if tuple(pred) != got:
                mism.append((s.arm, names, "engine", (pred[0], sorted(pred[1]), pred[2]), "real", (got[0], sorted(got[1]), got[2])))
    # the environment errors a real file system can produce: a directory named *.mmm (remove_file fails on it), a missing DIR
    by_shape = {s.lengths: s for s in summaries}
    for names, kinds, missing in ([["d.mmm"], ["d"], False], [["e.txt"], ["d"], False], [[], [], True]):
        s = by_shape.get(tuple(len(x) for x in names))
        if s is None:
            continue
        pred = C.predict(s, names, kinds, read_dir_err=missing)
        r = run_real(exe, scratch, list(zip(names, kinds)), missing_dir=missing)
        n += 1
        got = ("PANIC" if r["panicked"] else "OK" if r["exit"] == 0 else "ERR", frozenset(r["deleted"]), r["count"])
        if tuple(pred) != got:
            mism.append((s.arm, names, kinds, "engine", (pred[0], sorted(pred[1]), pred[2]), "real", (got[0], sorted(got[1]), got[2])))
    return n, mism


def confirm(findings, exe, scratch):
    for f in findings:
        ents = [(n, k) for n, k in f.fs["entries"]]
        if any(f.fs["entry_err"]) or f.fs["read_dir_err"]:
            f.native = {"not-replayable": "the witness needs a per-entry listing error, which a real directory cannot be made to produce"}
            f.confirmed = False
            continue
        r = run_real(exe, scratch, ents)
        viol = concrete_violations(ents, r)
        f.native = {"real_run": r, "violated_clauses": viol}
        f.confirmed = bool(viol)


def main():
    ap = argparse.ArgumentParser()
    ap.add_argument("--tier", default=os.environ.get("VERIF_TIER", "quick"))
    ap.add_argument("--replay")
    a = ap.parse_args()
    t0 = time.time()
    try:
        scratch = V.Scratch("c20")
        if a.replay:
            return replay(scratch, a.replay)
        return check(scratch, a, t0)
    except (V.Inconclusive, sym.Inconclusive, mir.MirError) as e:
        log("INCONCLUSIVE:", e)
        print("INCONCLUSIVE property=C20 reason=%s" % str(e)[:400].replace("\n", " "))
        return V.EXIT_INCONCLUSIVE


def check(scratch, a, t0):
    qs = Q.QueryStats()
    info = {"functions": {}, "paths": {}, "validation_runs": {}, "models": {}, "witnesses": {}}
    timeout_ms = 60000 if a.tier == "quick" else 180000
    findings = []
    profiles = [False, True]
    exes = {False: build_cli(scratch, False)}
    if a.tier == "thorough":
        exes[True] = build_cli(scratch, True)
    for release in profiles:
        profile = "release" if release else "dev"
        oc = not release
        ck = C.CleanKernels(mir.MirFile(V.mir_dump_bin(scratch, "mscript", oc)), oc, seed=V.seed())
        info["functions"][profile] = ck.encoded_functions()
        t = time.time()
        summaries = [ck.summarize(sh) for sh in C.shapes(a.tier)]
        info["paths"][profile] = sum(len(s.outs) for s in summaries)
        info["models"][profile] = sorted(ck.ex.stats["models_used"])
        log("  [%s] %d listing shapes, %d paths, %.1fs" % (profile, len(summaries), info["paths"][profile], time.time() - t))
        exe = exes.get(release)
        if exe:
            n, mism = validate(summaries, exe, scratch)
            info["validation_runs"][profile] = n
            if mism:
                for m in mism[:10]:
                    log("  TRANSLATOR MISMATCH", m)
                raise V.Inconclusive("engine B disagrees with the real `mscript clean` on %d of %d directories (%s), first: %r" % (len(mism), n, profile, mism[0]))
            log("  [%s] translator validation: %d real runs of `mscript clean` agree with the engine" % (profile, n))
        # vacuity witnesses: a path that deletes something is feasible in every shape that admits a *.mmm name
        wit = 0
        for s in summaries:
            if not any(n >= 5 for n in s.lengths):
                continue
            ok_ = False
            for o in s.outs:
                if o.kind == "return" and o.value.variant == "Ok" and C.analyse(o)[0]:
                    r, _ = Q.solve(z3.And(*o.pc), 20000, V.seed())
                    if r == z3.sat:
                        ok_ = True
                        break
            if not ok_:
                raise V.Inconclusive("vacuity: no feasible deleting path for listing shape %s" % s.arm)
            wit += 1
        info["witnesses"][profile] = wit
        pf = []
        for s in summaries:
            pf += C.check_summary(s, profile, qs, timeout_ms, V.seed())
        # one finding per (class, profile) and shape is plenty; replay on the real binary (dev binary in the quick tier)
        confirm(pf, exes.get(release) or exes[False], scratch)
        findings += pf
        log("  [%s] %d obligations so far, %d candidate findings" % (profile, qs.obligations, len(pf)))
    return report(a, findings, qs, info, t0)


def fdict(f):
    d = f.as_dict()
    d["fs"] = f.fs
    return d


def report(a, findings, qs, info, t0):
    known = V.known_index("C20")
    new, listed, bad = {}, {}, []
    def better(f, g):
        # prefer the witness whose real run violates the very clause the solver refuted
        return g is None or (f.cls in f.native.get("violated_clauses", []) and g.cls not in g.native.get("violated_clauses", []))
    for f in findings:
        if not f.confirmed:
            bad.append(f)
        elif f.key() in known:
            listed.setdefault(f.key(), f)
        elif better(f, new.get(f.key())):
            new[f.key()] = f
    for k, f in listed.items():
        print("KNOWN-FINDING: property=C20 clean[%s] %s (%s profile): %s" % (f.arm, f.cls, f.profile, known[k].get("what", f.detail)))
    code = V.EXIT_OK
    for f in new.values():
        p = V.save_replay("C20", "clean_%s_%s_%s" % (f.arm, f.cls, f.profile), fdict(f))
        print("VIOLATION property=C20 replay=%s" % p)
        print("   clean[%s] %s (%s profile): %s; directory %s -> real run: %s" % (f.arm, f.cls, f.profile, f.detail,
              json.dumps(f.fs["entries"]), json.dumps({k: v for k, v in f.native.get("real_run", {}).items() if k in ("exit", "deleted", "count")})
              + " violated: " + ",".join(f.native.get("violated_clauses", []))))
        code = V.EXIT_VIOLATION
    if (bad or qs.undecided) and code == V.EXIT_OK:
        for f in bad[:10]:
            log("NON-REPRODUCING:", json.dumps(fdict(f), default=str)[:600])
        for u in qs.undecided[:10]:
            log("UNDECIDED:", u)
        code = V.EXIT_INCONCLUSIVE
        print("INCONCLUSIVE property=C20 non_reproducing=%d undecided=%d" % (len(bad), len(qs.undecided)))
    nviol_f = len([f for f in findings if f.confirmed and f.key() in known])
    coverage = {
        "obligations": qs.obligations - nviol_f, "discharged": qs.discharged,
        "obligations_violated_by_listed_known_findings": nviol_f,
        "checker_cmd": "python3-vt checks/c20_main.py --tier %s" % a.tier,
        "trusted_base": ["rustc MIR dump of the binary crate `mscript` (both overflow profiles), regenerated on this run",
                         "mirsym interpreter; validated on this run against the real `mscript clean` binary on %s real directories" % info["validation_runs"],
                         "file-system contracts of /verif/mirsym/fsmodels.py (read_dir, DirEntry, Path::extension, remove_file, _print)",
                         "std models used: " + ", ".join(sorted(set(sum(info["models"].values(), [])))),
                         "meaning of `extension is mmm`: cleankernels.is_mmm (len >= 5 and suffix .mmm), stated independently of Path::extension"],
        "functions_encoded": info["functions"], "paths": info["paths"],
        "bounds": "directory listings of 0..%d entries, names of 1..%d characters, every character symbolic in 0x20..0x7E except `/` (non-ASCII names outside the claim); read_dir / per-entry / per-deletion I/O outcomes arbitrary; larger listings and longer names outside the claim" % (C.KMAX[a.tier], C.LMAX[a.tier]),
        "vacuity_witnesses": info["witnesses"],
        "solver_time_s": round(qs.solver_s, 2),
        "samples": qs.samples[:8] + [fdict(f) for f in list(new.values())[:4]],
        "known_findings_reported": len(listed), "new_violations": len(new),
    }
    V.write_evidence("C20", a.tier, "proof", coverage,
                     ["the file system is the documented std contract (fsmodels.py): remove_file never removes a directory; read_dir yields neither `.` nor `..`; names are unique within a directory",
                      "entry kinds (file / directory / symlink) influence the run only through the outcome of remove_file, which is arbitrary",
                      "output other than the `Removed {n} files` line is not checked"], time.time() - t0, len(new))
    log("C20: %d obligations, %d discharged, %d known keys, %d new, %d non-reproducing, %d undecided, %.1fs" % (
        qs.obligations, qs.discharged, len(listed), len(new), len(bad), len(qs.undecided), time.time() - t0))
    return code


def replay(scratch, path):
    d = json.load(open(path))
    exe = build_cli(scratch, d["profile"] == "release")
    ents = [(n, k) for n, k in d["fs"]["entries"]]
    r = run_real(exe, scratch, ents)
    viol = concrete_violations(ents, r)
    print("replay: directory %s -> %s ; violated clauses: %s" % (json.dumps(ents), json.dumps(r), viol))
    if viol:
        print("VIOLATION property=C20 replay=%s" % path)
        return V.EXIT_VIOLATION
    print("not reproduced on the current tree")
    return V.EXIT_OK


if __name__ == "__main__":
    sys.exit(main())
