#!/usr/bin/env python3
"""C08 (kernel): objects - per-instance state, reference identity, shared field cells.

Engine B executes the real ObjectBuilder::build, the derived Clone of Object, Primitive::runtime_addr_check (`is`), the `lookup`
and `ptr_mut` instructions (MIR of `bytecode`, both overflow profiles) - see mirsym/objkernels.py.
"""
import sys, os, time, json, argparse
HERE = os.path.dirname(os.path.abspath(__file__))
sys.path.insert(0, os.path.join(HERE, "..", "lib"))
sys.path.insert(0, os.path.join(HERE, "..", "mirsym"))
import z3
import vcommon as V
from vcommon import log
import native as N
import mir, sym, opcheck as Q, objkernels as O

# what the real objects must show (native harness op J:), fixed by the property itself
EXPECT = [
    ("J:is:alias", [5, 6], "OK Bool:1"),
    ("J:is:other", [5, 6], "OK Bool:0"),
    ("J:is:build", [5, 6], "OK Bool:0"),
    ("J:write:f", [5, 6, 9], "OK | f=Int:9,g=Int:6 | f=Int:5,g=Int:6"),
    ("J:write:g", [5, 6, 9], "OK | f=Int:5,g=Int:9 | f=Int:5,g=Int:6"),
    ("J:read:zz", [5, 6, 9], "ERR | f=Int:5,g=Int:6 | f=Int:5,g=Int:6"),
    ("J:construct-twice", [5, 6, 9], "OK same=0 | f=Int:5,g=Int:6 | f=Int:9,g=Int:6"),
    ("J:relist", [7, 7], "OK | f=[Int:7,Int:63]"),
]
REPLAY_OP = {"clone": ["J:is:alias", "J:write:f"], "is": ["J:is:alias", "J:is:other", "J:is:build"], "build": ["J:is:build"],
             "lookup": ["J:write:f", "J:write:g", "J:read:zz"], "field-write": ["J:write:f", "J:write:g"],
             "construct": ["J:construct-twice"], "field-write-list": ["J:relist"]}


def native_suite(nat, release, only=None):
    vecs = [("j%d" % i, op, [("Int", v) for v in args]) for i, (op, args, _) in enumerate(EXPECT) if only is None or op in only]
    res = nat.eval_raw(vecs, release)
    dev = []
    for i, (op, args, want) in enumerate(EXPECT):
        if "j%d" % i in res:
            got = " ".join(res["j%d" % i].split())
            if got != want:
                dev.append((op, args, "expected " + want, got))
    return len(vecs), dev


def main():
    ap = argparse.ArgumentParser()
    ap.add_argument("--tier", default=os.environ.get("VERIF_TIER", "quick"))
    ap.add_argument("--replay")
    a = ap.parse_args()
    t0 = time.time()
    try:
        scratch = V.Scratch("c08")
        nat = N.NativeBytecode(scratch)
        if a.replay:
            return replay(nat, a.replay)
        return check(scratch, nat, a, t0)
    except (V.Inconclusive, sym.Inconclusive, mir.MirError) as e:
        log("INCONCLUSIVE:", e)
        print("INCONCLUSIVE property=C08 reason=%s" % str(e)[:400].replace("\n", " "))
        return V.EXIT_INCONCLUSIVE


def check(scratch, nat, a, t0):
    qs = Q.QueryStats()
    info = {"functions": {}, "models": {}, "native_runs": {}}
    timeout_ms = 60000 if a.tier == "quick" else 180000
    new, bad_replay = {}, []
    known = V.known_index("C08")
    for release in (False, True):
        profile = "release" if release else "dev"
        oc = not release
        ok_ = O.ObjKernels(mir.MirFile(scratch.mir_dump("bytecode", oc)), oc, scratch.repo, seed=V.seed())
        info["functions"][profile] = ok_.encoded_functions()
        bad = O.check_all(ok_, profile, qs, timeout_ms, V.seed())
        info["models"][profile] = sorted(ok_.ex.stats["models_used"])
        n, dev = native_suite(nat, release)
        info["native_runs"][profile] = n
        log("  [%s] %d obligations so far, %d candidate findings; real objects: %d runs, %d deviations" % (profile, qs.obligations, len(bad), n, len(dev)))
        if not bad and dev:
            for d in dev[:5]:
                log("REAL DEVIATION not predicted by the encoding:", d)
            print("INCONCLUSIVE property=C08 real_deviations=%d (the encoding predicts none)" % len(dev))
            return V.EXIT_INCONCLUSIVE
        for op, cls, detail, model, vs in bad:
            key = ("C08", "object." + op, "fields=f,g", cls, profile)
            shown = [d for d in dev if d[0] in REPLAY_OP.get(op, [])]
            f = {"property": "C08", "fn": "object." + op, "arm": "fields=f,g", "class": cls, "profile": profile, "detail": detail,
                 "native_ops": REPLAY_OP.get(op, []), "real_deviations": shown}
            if key in known:
                print("KNOWN-FINDING: property=C08 object.%s %s (%s profile): %s" % (op, cls, profile, known[key].get("what", detail)))
            elif shown:
                new.setdefault(key, f)
            else:
                bad_replay.append(f)
    code = V.EXIT_OK
    for f in new.values():
        p = V.save_replay("C08", "%s_%s_%s" % (f["fn"], f["class"], f["profile"]), f)
        print("VIOLATION property=C08 replay=%s" % p)
        print("   %s %s (%s profile): %s; real objects: %s" % (f["fn"], f["class"], f["profile"], f["detail"], json.dumps(f["real_deviations"][0])[:300]))
        code = V.EXIT_VIOLATION
    if (bad_replay or qs.undecided) and code == V.EXIT_OK:
        for f in bad_replay[:10]:
            log("NON-REPRODUCING (the real objects behave as specified):", json.dumps(f)[:400])
        code = V.EXIT_INCONCLUSIVE
        print("INCONCLUSIVE property=C08 non_reproducing=%d undecided=%d" % (len(bad_replay), len(qs.undecided)))
    coverage = {
        "obligations": qs.obligations, "discharged": qs.discharged,
        "checker_cmd": "python3-vt checks/c08_main.py --tier %s" % a.tier,
        "trusted_base": ["rustc MIR dump of `bytecode` (both overflow profiles)", "mirsym interpreter; pointer model of gc::Gc (identity = store cell), HashMap<String,_> with concrete keys, raw-pointer equality = same place of the store",
                         "validated on this run against REAL objects (Object::new / ObjectBuilder::build / clone / runtime_addr_check / lookup + ptr_mut through an alias, observed through the original and through an unrelated object): %s runs" % info["native_runs"],
                         "std models used: " + ", ".join(sorted(set(sum(info["models"].values(), []))))],
        "functions_encoded": info["functions"],
        "bounds": "objects with two fields (f, g), every field value a full-width symbolic i32, flags over {0, READ_ONLY}; a second, separately built object with its own symbolic fields as a bystander. OUTSIDE: `make_object`'s class registration through the global OBJECT_BUILDER, method dispatch and `self` binding (interpreter call path), constructors as compiled code, object printing / hashing",
        "solver_time_s": round(qs.solver_s, 2),
        "samples": qs.samples[:8] + list(new.values())[:3],
        "new_violations": len(new),
    }
    V.write_evidence("C08", a.tier, "proof", coverage,
                     ["an object's identity is the address of its debug_lock Gc cell (what `is` compares); fields are Gc cells shared by clones (gc crate semantics, modelled)"],
                     time.time() - t0, len(new))
    log("C08: %d obligations, %d discharged, %d new, %d non-reproducing, %d undecided, %.1fs" % (qs.obligations, qs.discharged, len(new), len(bad_replay), len(qs.undecided), time.time() - t0))
    return code


def replay(nat, path):
    d = json.load(open(path))
    n, dev = native_suite(nat, d["profile"] == "release", only=set(d.get("native_ops") or []))
    print("replay: %d real runs, %d deviations: %s" % (n, len(dev), dev[:3]))
    if dev:
        print("VIOLATION property=C08 replay=%s" % path)
        return V.EXIT_VIOLATION
    print("not reproduced on the current tree")
    return V.EXIT_OK


if __name__ == "__main__":
    sys.exit(main())
