"""Engine A-lite (thorough tier of C05 only): Kani/CBMC cross-check of a subset of the integer arms on the COMPILED operator
impls - an independent second engine for obligations that engine B decides from MIR.  A harness that does not finish inside its
budget is recorded as 'not decided by Kani'; a harness whose C05 assertion FAILS while engine B discharged the same obligation
means the two engines disagree, which makes the run inconclusive (never a silent pass)."""
import os, re, shutil, subprocess, time
import vcommon as V

# harnesses measured to finish in ~15 s of CBMC time each (the div/rem/cmp harnesses drown in anyhow/fmt drop glue: DESIGN.md §1)
FAST = ["sub_int_int", "sub_int_byte", "sub_byte_int", "sub_byte_byte", "and_int_byte", "and_byte_int"]


def run(scratch, budget_s=900):
    src = os.path.join(V.VERIF, "kani", "crosscheck")
    dst = os.path.join(scratch.dir, "kani_cc")
    shutil.copytree(src, dst)
    ct = os.path.join(dst, "Cargo.toml")
    manifest = open(ct).read().replace("REPO_PATH", scratch.repo)
    with open(ct, "w") as fh:
        fh.write(manifest)
    shutil.copy(os.path.join(scratch.repo, "Cargo.lock"), dst)
    results = {}
    t0 = time.time()
    for h in FAST:
        left = budget_s - (time.time() - t0)
        if left < 60:
            results[h] = {"status": "not run (budget exhausted)"}
            continue
        t = time.time()
        try:
            p = subprocess.run(["cargo", "kani", "-Z", "stubbing", "--harness", h, "--target-dir", os.path.join(scratch.dir, "target-kani"), "--output-format", "terse"],
                               cwd=dst, env=V.env_offline(), text=True, capture_output=True, timeout=min(300, left))
            out = p.stdout + p.stderr
        except subprocess.TimeoutExpired:
            results[h] = {"status": "not decided by Kani (timeout)", "s": round(time.time() - t, 1)}
            continue
        if "VERIFICATION:- SUCCESSFUL" in out and re.search(r"1 of 1 cover properties satisfied", out):
            m = re.search(r"\*\* 0 of (\d+) failed", out)
            results[h] = {"status": "verified", "checks": int(m.group(1)) if m else None, "s": round(time.time() - t, 1)}
        elif "VERIFICATION:- FAILED" in out:
            failed = re.findall(r"Failed Checks: (.*)", out)
            c05 = [f for f in failed if "C05:" in f]
            results[h] = {"status": "FAILED", "failed_checks": failed[:5], "c05_assertion_failed": bool(c05), "s": round(time.time() - t, 1)}
        else:
            results[h] = {"status": "not decided by Kani (%s)" % out[-200:].replace("\n", " "), "s": round(time.time() - t, 1)}
    return results
