"""C04, file-structure part: see mirsym/loaderkernels.py.  Used by c04_main.py (property C04 only)."""
import os, sys, time, itertools
import z3
import vcommon as V
from vcommon import log
import native as N
import mir, sym, loaderkernels as L, hashmodels as H
from sym import Inconclusive


def nchars(instrs):
    return sum(sum(a) for a in instrs)


def struct_shapes(tier):
    one = [[], [()], [(1,)], [(2,)], [(1, 1)], [(), (1,)], [(1,), ()]]
    small = [[], [()], [(1,)]]
    out = [L.FileShape(["a"], [i]) for i in one]
    for names in (["a", "b"], ["a", "a"]):
        for i, j in itertools.product(small, small):
            out.append(L.FileShape(names, [i, j]))
    triples = [(["a", "b", "a"], [[()], [(1,)], []]), (["a", "a", "a"], [[()], [], [(1,)]]), (["a", "a", "b"], [[(1,)], [()], [()]]),
               (["a", "b", "b"], [[], [()], [(1,)]])]
    if tier != "quick":
        more = [[], [()], [(1,)], [(), ()], [(2,)], [(1, 1)]]
        for names in (["a", "b"], ["a", "a"], ["ab", "a"]):
            for i, j in itertools.product(more, more):
                if i in small and j in small and names != ["ab", "a"]:
                    continue
                if nchars(i) + nchars(j) > 3:
                    continue        # 4 symbolic characters per file: ~5 minutes per shape; outside the thorough tier
                out.append(L.FileShape(names, [i, j]))
        for names in (["a", "b", "a"], ["a", "a", "a"], ["a", "a", "b"], ["a", "b", "b"], ["a", "b", "c"]):
            for i, j, k in itertools.product(small, small, small):
                triples.append((names, [i, j, k]))
    seen = set()
    for names, ins in triples:
        s_ = L.FileShape(names, ins)
        if s_.arm not in seen:
            seen.add(s_.arm)
            out.append(s_)
    return out


def hex6(chars):
    return "-" if not chars else "".join("%06x" % c for c in chars)


def spec_of(shape, opv, argv):
    """native vector text for concrete values"""
    fns = []
    for fi, name in enumerate(shape.names):
        parts = [hex6([ord(c) for c in name])]
        for ii in range(len(shape.instrs[fi])):
            parts.append(",".join([str(opv[fi][ii])] + [hex6(a) for a in argv[fi][ii]]))
        fns.append(";".join(parts))
    return "/".join(fns)


def conc(e, model=None):
    x = z3.simplify(e if model is None else model.eval(e, model_completion=True))
    if not z3.is_bv_value(x):
        raise Inconclusive("value is not concrete: %s" % x)
    return x.as_long()


def table_of(cells, fmap, model=None):
    """{label: (function name chars, [(op, [arg chars])])} with z3 expressions (model None) or concrete values"""
    out = {}
    for k, f in H.entries(fmap):
        name, ins = L.describe_function(cells, f)
        out[k] = (name, ins)
    return out


def dump_table(tab, model):
    parts = []
    for k in sorted(tab):
        name, ins = tab[k]
        s_ = "%s:%s" % (hex6([ord(c) for c in k]), hex6([conc(c.e, model) for c in name.fields]))
        for op, args in ins:
            s_ += ";" + ",".join([str(conc(op.e, model))] + [hex6([conc(c.e, model) for c in a.fields]) for a in args])
        parts.append(s_)
    return "OK " + ("/".join(parts) if parts else "EMPTY")


class Structure:
    def __init__(self, cx, scratch):
        self.cx, self.scratch = cx, scratch
        self.K = L.LoaderKernels(cx.w.mf, cx.r.mf, scratch.repo, seed=V.seed())
        self.paths = 0
        self.shapes_done = []
        self.validation = None

    # -- all (pc, file bytes, old-file info) the real perform_file_io_out produces for the shape
    def written(self, shape, ops, args, pc):
        states = []
        for wp, kind, bs, info in self.K.write_file(shape, ops, args, pc):
            self.paths += 1
            if kind != "ok":
                m = self.cx.solve(z3.And(*wp), "C04-structure %s:writer-total" % shape.arm)
                if m is not None:
                    self.finding(shape, "writer-fails", m, ops, args, "writing the file fails without an I/O error (%s)" % kind)
                continue
            states.append((wp, bs, info))
        return states

    def finding(self, shape, cls, model, ops, args, detail, old=None):
        opv = [[conc(o.e, model) for o in f] for f in ops]
        argv = [[[[conc(c.e, model) for c in a.fields] for a in ia] for ia in f] for f in args]
        self.cx.findings.append({"property": "C04", "fn": "file-structure", "arm": shape.arm, "class": cls, "profile": "any", "opcode": 0, "args": [],
                                 "spec": spec_of(shape, opv, argv), "detail": detail,
                                 "old_file": (None if old is None else bytes([1] * (len(old) - 2) + [conc(old[-2].e, model), 0]).hex())})

    def check_shape(self, shape):
        cx = self.cx
        t_shape = time.time()
        ops, args, pc = self.K.inputs(shape)
        mem = []
        for mp, mc in self.K.build(shape, ops, args, pc):
            self.paths += 1
            fm = L.resolve(mc, mc[("file",)].fields[1].fields[0].fields[0])
            mem.append((mp, table_of(mc, fm.fields[0])))
        lab0 = "C04-structure %s" % shape.arm
        for wp, fbytes, info in self.written(shape, ops, args, pc):
            recs = self.K.records_of_bytes(fbytes)
            old = fbytes if info == "old-tail" else None
            lab = lab0 + (" (an older, longer file exists at the output path)" if old is not None else "")
            for o in self.K.load(recs, wp):
                self.paths += 1
                opens = len([e for e in o.effects if e[0] == "open"])
                if o.kind == "panic" or o.value.variant != "Ok":
                    m = cx.solve(z3.And(*o.pc), lab + ":loader-accepts")
                    if m is not None:
                        self.finding(shape, "loader-rejects", m, ops, args, "the loader %s on the file the writer produced" % ("panics" if o.kind == "panic" else "fails"), old)
                    continue
                lt = table_of(o.cells, L.resolve(o.cells, o.value.fields[0]).fields[0])
                for mp, mt in mem:
                    cond = z3.And(*(o.pc + mp))
                    if set(lt) != set(mt):
                        m = cx.solve(cond, lab + ":same-labels")
                        if m is not None:
                            self.finding(shape, "labels-differ", m, ops, args, "labels loaded %s, packaged in memory %s" % (sorted(lt), sorted(mt)), old)
                        continue
                    for k in sorted(lt):
                        (ln, li), (mn, mi) = lt[k], mt[k]
                        diffs = []
                        if len(ln.fields) != len(mn.fields) or len(li) != len(mi):
                            diffs = [z3.BoolVal(True)]
                        else:
                            diffs += [a.e != b.e for a, b in zip(ln.fields, mn.fields)]
                            for (lo, la), (mo, ma) in zip(li, mi):
                                diffs.append(lo.e != mo.e)
                                if len(la) != len(ma):
                                    diffs.append(z3.BoolVal(True))
                                    continue
                                for x, y in zip(la, ma):
                                    if len(x.fields) != len(y.fields):
                                        diffs.append(z3.BoolVal(True))
                                    else:
                                        diffs += [p.e != q.e for p, q in zip(x.fields, y.fields)]
                        m = cx.solve(z3.And(cond, z3.Or(*diffs)) if diffs else z3.BoolVal(False), lab + ":function[%s]-same-instructions" % k)
                        if m is not None:
                            self.finding(shape, "function-differs", m, ops, args,
                                         "label `%s`: the loaded function (%d instructions) differs from the one packaged in memory (%d instructions)" % (k, len(li), len(mi)), old)
        self.shapes_done.append(shape.arm)
        if self.cx.tier != "quick":
            log("  structure %s: %.1fs" % (shape.arm, time.time() - t_shape))

    # -- engine prediction for concrete inputs (translator validation)
    def predict(self, shape, opv, argv):
        ops, args, pc = self.K.inputs(shape)
        pin = list(pc)
        for fi in range(len(shape.names)):
            for ii in range(len(shape.instrs[fi])):
                pin.append(ops[fi][ii].e == opv[fi][ii])
                for ai, a in enumerate(args[fi][ii]):
                    pin += [c.e == v for c, v in zip(a.fields, argv[fi][ii][ai])]
        s = z3.Solver()
        s.add(*pin)
        if s.check() != z3.sat:
            raise Inconclusive("validation vector outside the kernel's input domain")
        model = s.model()
        loaded, memory = set(), set()
        for mp, mc in self.K.build(shape, ops, args, pin):
            if feasible(mp):
                fm = L.resolve(mc, mc[("file",)].fields[1].fields[0].fields[0])
                memory.add(dump_table(table_of(mc, fm.fields[0]), model))
        for wp, fbytes, info in self.written(shape, ops, args, pin):
            if not feasible(wp) or info == "old-tail":
                continue
            for o in self.K.load(self.K.records_of_bytes(fbytes), wp):
                if not feasible(o.pc):
                    continue
                if o.kind == "panic":
                    loaded.add("PANIC")
                elif o.value.variant != "Ok":
                    loaded.add("ERR")
                else:
                    loaded.add(dump_table(table_of(o.cells, L.resolve(o.cells, o.value.fields[0]).fields[0]), model))
        return loaded, memory

    def native(self, specs, olds=None):
        """specs: [(id, spec)] -> {id: (writer status, loader dump, memory dump)} from the REAL perform_file_io_out,
        MScriptFile::open and MScriptFileBuilder"""
        work = os.path.join(self.scratch.dir, "c04_files")
        os.makedirs(work, exist_ok=True)
        vec = os.path.join(self.scratch.dir, "file_vectors.txt")
        with open(vec, "w") as fh:
            for i, sp in specs:
                p = os.path.join(work, "f%s.mmm" % i)
                if olds and olds.get(i):
                    with open(p, "wb") as junk:
                        junk.write(bytes.fromhex(olds[i]))
                elif os.path.exists(p):
                    os.remove(p)
                fh.write("%s %s %s\n" % (i, p, sp))
        natc = getattr(self, "_natc", None) or N.NativeCompiler(self.scratch)
        self._natc = natc
        res = natc.run(env_extra={"VERIF_FILE_VECTORS": vec})
        wrote = {t[1]: t[2] for t in res if t[0] == "file"}
        natb = getattr(self, "_natb", None) or N.NativeBytecode(self.scratch)
        self._natb = natb
        vectors = []
        for i, sp in specs:
            p = os.path.join(work, "f%s.mmm" % i)
            vectors.append(("l%s" % i, "F:load:" + p.encode().hex(), []))
            vectors.append(("m%s" % i, "F:build:" + sp, []))
        got = natb.eval_raw(vectors, False)
        return {i: (wrote.get(str(i)), got.get("l%s" % i), got.get("m%s" % i)) for i, sp in specs}

    def validate(self):
        """engine vs real code on concrete files, every run"""
        Q, BS, SP, NL = 0x22, 0x5C, 0x20, 0x0A
        vecs = [
            (L.FileShape(["a"], [[(1,)]]), [[7]], [[[[0x78]]]]),
            (L.FileShape(["a"], [[(1,)]]), [[7]], [[[[Q]]]]),
            (L.FileShape(["a"], [[(2,)]]), [[9]], [[[[BS, SP]]]]),
            (L.FileShape(["a"], [[(1, 1)]]), [[62]], [[[[NL], [0x41]]]]),
            (L.FileShape(["a", "b"], [[()], [(1,)]]), [[1], [33]], [[[]], [[[0x7A]]]]),
            (L.FileShape(["a", "a"], [[(1,)], [()]]), [[5], [6]], [[[[0x71]]], [[]]]),
            (L.FileShape(["a", "a"], [[], [(1,)]]), [[], [12]], [[], [[[SP]]]]),
            (L.FileShape(["a", "b", "a"], [[()], [(1,)], []]), [[2], [3], []], [[[]], [[[0x62]]], []]),
            (L.FileShape(["a", "a", "b"], [[(1,)], [()], [()]]), [[40], [41], [42]], [[[[0x65]]], [[]], [[]]]),
        ]
        specs = [(i, spec_of(sh, opv, argv)) for i, (sh, opv, argv) in enumerate(vecs)]
        nat = self.native(specs)
        bad = []
        for i, (sh, opv, argv) in enumerate(vecs):
            loaded, memory = self.predict(sh, opv, argv)
            w, ld, md = nat[i]
            if w != "OK" or loaded != {ld} or memory != {md}:
                bad.append("vector %s: engine loader %s memory %s; real writer %s loader %s memory %s" % (specs[i][1], sorted(loaded), sorted(memory), w, ld, md))
        self.validation = {"vectors": len(vecs), "mismatches": bad}
        if bad:
            raise Inconclusive("file-structure kernel: engine and real code disagree: " + "; ".join(bad[:3]))

    def confirm(self):
        fs = [f for f in self.cx.findings if "spec" in f]
        if not fs:
            return
        nat = self.native([(i, f["spec"]) for i, f in enumerate(fs)], {i: f.get("old_file") for i, f in enumerate(fs)})
        for i, f in enumerate(fs):
            w, ld, md = nat[i]
            f["native"] = ["writer", str(w), "loader", str(ld), "memory", str(md)]
            f["confirmed"] = (w != "OK") or (ld != md)


_FS = z3.Solver()


def feasible(pc):
    _FS.push()
    _FS.add(*pc)
    r = _FS.check()
    _FS.pop()
    return r == z3.sat
