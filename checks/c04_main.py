#!/usr/bin/env python3
"""C04 / C18 (kernel): instruction arguments survive the bytecode file formats.

C04  binary:   CompiledItem::repr(false)  ->  record pattern of MScriptFile::get_functions (replicated: [op, ' ', args.., NUL])
               ->  split_string.   Must return exactly the argument vector that was written (in-memory packaging passes the
               same vector through unchanged, so this IS agreement of `run` and `compile`+`execute` for that instruction).
C18  text:     CompiledItem::repr(true)  ->  line glue of transpile_file (replicated: up to the first LF, split_once(' '),
               trim_start)  ->  split_string  ->  transpiler Instruction::repr  ->  binary record pattern  ->  split_string.

The real functions are executed symbolically (engine B) on strings whose characters are arbitrary Unicode scalar values
(symbolic 32-bit code points, NUL excluded) and whose lengths are bounded: every argument-length vector within the tier's
bound is explored, each path fixes the shape of all strings, z3 decides equality of the characters.
"""
import sys, os, time, json, argparse, itertools
HERE = os.path.dirname(os.path.abspath(__file__))
sys.path.insert(0, os.path.join(HERE, "..", "lib"))
sys.path.insert(0, os.path.join(HERE, "..", "mirsym"))
import z3
import vcommon as V
from vcommon import log
import native as N
import mir, sym, strmodels, codeckernels as C, opcheck as Q
from sym import Sc
from strmodels import sstr

NUL, SP, LF = 0, 0x20, 0x0A


def shapes(tier, prop):
    """argument-length vectors"""
    if tier == "quick":
        one = [(n,) for n in range(0, 4)]
        if prop == "C18":
            # three codecs are composed per path: keep the quick tier to single arguments <= 3 and pairs <= 1 (+ an empty neighbour)
            return [()] + one + [(a, b) for a in range(0, 2) for b in range(0, 2)] + [(2, 0), (0, 2)]
        two = [(a, b) for a in range(0, 3) for b in range(0, 3)]
        return [()] + one + two
    one = [(n,) for n in range(0, 5)]
    if prop == "C18":
        two = [(a, b) for a in range(0, 3) for b in range(0, 3)]
    else:
        two = [(a, b) for a in range(0, 4) for b in range(0, 4)]
    three = [(a, b, c) for a in range(0, 2) for b in range(0, 2) for c in range(0, 2)]
    return [()] + one + two + three


def valid_char(e):
    # Unicode scalar value, not NUL (the property excludes NUL)
    return z3.And(e != 0, z3.ULT(e, 0x110000), z3.Not(z3.And(z3.UGE(e, 0xD800), z3.ULE(e, 0xDFFF))))


def concrete_char(c):
    v = z3.simplify(c.e)
    return v.as_long() if z3.is_bv_value(v) else None


class Ctx:
    def __init__(self, prop, tier, scratch):
        self.prop, self.tier = prop, tier
        self.qs = Q.QueryStats()
        self.findings = []
        self.paths = 0
        self.timeout_ms = 60000 if tier == "quick" else 120000
        self.w = C.Writer(mir.MirFile(scratch.mir_dump("compiler", True)), scratch.repo, seed=V.seed())
        self.r = C.Reader(mir.MirFile(scratch.mir_dump("bytecode", True)), seed=V.seed())
        self.t = None
        if prop == "C18":
            self.t = C.Transpiler(mir.MirFile(scratch.mir_dump("bytecode_dev_transpiler", True)), seed=V.seed())

    def functions(self):
        d = {"writer CompiledItem::repr": self.w.fn, "reader split_string_v2": self.r.fn}
        if self.t:
            d["transpiler Instruction::repr"] = self.t.fn
        return d

    def solve(self, cond, label):
        self.qs.obligations += 1
        t = time.time()
        c = z3.simplify(cond)
        if z3.is_false(c):
            self.qs.discharged += 1
            return None
        s = z3.Solver()
        s.set("timeout", self.timeout_ms)
        s.set("random_seed", V.seed())
        s.add(c)
        r = s.check()
        self.qs.solver_s += time.time() - t
        if r == z3.unsat:
            self.qs.discharged += 1
            if len(self.qs.samples) < 8:
                self.qs.samples.append({"obligation": label, "result": "unsat"})
            return None
        if r == z3.unknown:
            self.qs.undecided.append(label)
            return None
        self.qs.violated += 1
        return s.model()

    def finding(self, cls, stage, shape, model, chars, op, detail):
        vals = []
        for arg in chars:
            vals.append([model.eval(c.e, model_completion=True).as_long() for c in arg])
        opv = model.eval(op.e, model_completion=True).as_long()
        # prefer printable witnesses is not possible here; keep the solver's values
        f = {"property": self.prop, "fn": stage, "arm": "args=" + ",".join(map(str, shape)), "class": cls, "profile": "any",
             "opcode": opv, "args": vals, "detail": detail}
        self.findings.append(f)


def binary_roundtrip(cx, shape, op, args, enc, pc, stage_prefix=""):
    """enc: SStr record as written; checks the record pattern and the reader; returns nothing (records findings)"""
    base = z3.And(*(pc + [valid_char(c.e) for a in args for c in a.fields]))
    lab = "%s%s shape=%s" % (stage_prefix, cx.prop, shape)
    chars = list(enc.fields)
    # record framing: exactly one NUL, at the end
    if not chars or concrete_char(chars[-1]) != NUL:
        m = cx.solve(base, lab + ":record-terminated")
        if m is not None:
            cx.finding("record-not-terminated", stage_prefix + "writer", shape, m, [a.fields for a in args], op, "the record does not end in NUL")
        return
    inner_nul = z3.Or(*[c.e == 0 for c in chars[1:-1]]) if len(chars) > 2 else z3.BoolVal(False)
    m = cx.solve(z3.And(base, inner_nul), lab + ":no-inner-nul")
    if m is not None:
        cx.finding("record-split-by-nul", stage_prefix + "writer", shape, m, [a.fields for a in args], op, "a NUL inside the record splits it")
    body = chars[:-1]
    if len(args) == 0:
        if len(body) != 1:
            m = cx.solve(base, lab + ":no-arg-record")
            if m is not None:
                cx.finding("record-shape", stage_prefix + "writer", shape, m, [], op, "an argument-less instruction is not written as `<op> NUL`")
        return
    if len(body) < 2 or concrete_char(body[1]) != SP:
        m = cx.solve(base, lab + ":separator")
        if m is not None:
            cx.finding("record-shape", stage_prefix + "writer", shape, m, [a.fields for a in args], op, "the opcode is not followed by a space")
        return
    rest = sstr(body[2:])
    for rpc, kind, val in cx.r.run(rest, True, pc):
        cx.paths += 1
        cond = z3.And(*(rpc + [valid_char(c.e) for a in args for c in a.fields]))
        if kind != "ok":
            m = cx.solve(cond, lab + ":reader-accepts")
            if m is not None:
                cx.finding("reader-rejects", stage_prefix + "reader", shape, m, [a.fields for a in args], op, "the loader fails on what the writer produced (%s)" % kind)
            continue
        if len(val) != len(args):
            m = cx.solve(cond, lab + ":argument-count")
            if m is not None:
                cx.finding("argument-count-differs", stage_prefix + "reader", shape, m, [a.fields for a in args], op,
                           "%d argument(s) written, %d read back" % (len(args), len(val)))
            continue
        diffs = []
        for a, b in zip(args, val):
            if len(a.fields) != len(b.fields):
                diffs.append(z3.BoolVal(True))
            else:
                diffs += [x.e != y.e for x, y in zip(a.fields, b.fields)]
        m = cx.solve(z3.And(cond, z3.Or(*diffs)) if diffs else z3.BoolVal(False), lab + ":argument-value")
        if m is not None:
            cx.finding("argument-differs", stage_prefix + "reader", shape, m, [a.fields for a in args], op, "an argument is read back with different characters")


def run_c04(cx):
    op = Sc("u8", z3.BitVec("op", 8))
    oprange = [z3.UGE(op.e, 1), z3.ULE(op.e, 62)]
    for shape in shapes(cx.tier, "C04"):
        args = [sstr([Sc("char", z3.BitVec("a%d_%d" % (i, j), 32)) for j in range(n)]) for i, n in enumerate(shape)]
        for wpc, kind, enc in cx.w.run(op, args, False, pc=oprange):
            cx.paths += 1
            if kind != "ok":
                m = cx.solve(z3.And(*(wpc + [valid_char(c.e) for a in args for c in a.fields])), "C04 shape=%s:writer-total" % (shape,))
                if m is not None:
                    cx.finding("writer-fails", "writer", shape, m, [a.fields for a in args], op, "the writer fails (%s)" % kind)
                continue
            binary_roundtrip(cx, shape, op, args, enc, wpc)


def run_c18(cx):
    op = Sc("u8", z3.BitVec("op", 8))
    oprange = [z3.UGE(op.e, 1), z3.ULE(op.e, 62)]
    for shape in shapes(cx.tier, "C18"):
        args = [sstr([Sc("char", z3.BitVec("a%d_%d" % (i, j), 32)) for j in range(n)]) for i, n in enumerate(shape)]
        allc = [c for a in args for c in a.fields]
        for wpc, kind, enc in cx.w.run(op, args, True, pc=oprange):
            cx.paths += 1
            base = z3.And(*(wpc + [valid_char(c.e) for c in allc]))
            lab = "C18 shape=%s" % (shape,)
            if kind != "ok":
                m = cx.solve(base, lab + ":text-writer-total")
                if m is not None:
                    cx.finding("writer-fails", "text-writer", shape, m, [a.fields for a in args], op, "the text writer fails")
                continue
            line = list(enc.fields)
            # text form: TAB <name token> [args] LF ; transpile_file reads up to and including the first LF
            if len(line) < 3 or concrete_char(line[0]) != 0x09 or concrete_char(line[-1]) != LF:
                m = cx.solve(base, lab + ":line-shape")
                if m is not None:
                    cx.finding("line-shape", "text-writer", shape, m, [a.fields for a in args], op, "instruction line is not `TAB name args LF`")
                continue
            inner = line[1:-1]
            lf_inside = z3.Or(*[c.e == LF for c in inner]) if inner else z3.BoolVal(False)
            m = cx.solve(z3.And(base, lf_inside), lab + ":one-line")
            if m is not None:
                cx.finding("line-split-by-newline", "text-writer", shape, m, [a.fields for a in args], op,
                           "a line feed inside an argument splits the instruction over two lines of the text form")
            # continue under the assumption that no LF is inside (the other case is the finding above)
            pc2 = wpc + [z3.Not(lf_inside)]
            name = inner[0]
            if len(args) == 0:
                # `split_once(' ')` fails -> argument-less branch; transpiler writes [op NUL]
                for tpc, k2, rec in cx.t.run(op, [], pc2):
                    cx.paths += 1
                    if k2 == "ok":
                        binary_roundtrip(cx, shape, op, [], rec, tpc, "transpiled-")
                continue
            if len(inner) < 2 or concrete_char(inner[1]) != SP:
                m = cx.solve(base, lab + ":name-separator")
                if m is not None:
                    cx.finding("line-shape", "text-writer", shape, m, [a.fields for a in args], op, "the mnemonic is not followed by a space")
                continue
            rest = sstr(inner[2:] + [line[-1]])      # split_once(' ') keeps the remainder of the line including the LF
            for rpc, k1, toks in cx.r.run(rest, True, pc2):
                cx.paths += 1
                cond = z3.And(*(rpc + [valid_char(c.e) for c in allc]))
                if k1 != "ok":
                    m = cx.solve(cond, lab + ":transpiler-tokenizes")
                    if m is not None:
                        cx.finding("transpiler-rejects", "transpiler-reader", shape, m, [a.fields for a in args], op, "the transpiler cannot tokenize the text form the compiler wrote")
                    continue
                # the transpiler re-encodes the tokens it read; the loader must read back the ORIGINAL arguments
                for tpc, k2, rec in cx.t.run(op, toks, rpc):
                    cx.paths += 1
                    if k2 != "ok":
                        continue
                    binary_roundtrip(cx, shape, op, args, rec, tpc, "transpiled-")


def opcode_table_check(cx, scratch):
    """supporting step for C18 (a finite table, evaluated natively and exhaustively - NOT a solver obligation): every opcode's
    mnemonic maps back to the same opcode, and mnemonics are non-empty and free of white space (the text form relies on it)"""
    nat = N.NativeBytecode(scratch)
    res = nat.eval([("t0", "T:opcodes", [("Int", 0)])], False)["t0"]
    bad = []
    entries = res[2].split(",") if len(res) > 2 and res[2] else []
    for e in entries:
        left, back = e.split(">")
        oid, name = left.split("=", 1)
        if back != oid:
            bad.append("opcode %s is written as `%s`, which the transpiler maps to opcode %s" % (oid, name, back))
        if not name or "<SP>" in name or any(ch.isspace() for ch in name):
            bad.append("mnemonic of opcode %s is empty or contains white space" % oid)
    cx.opcode_table = {"entries": len(entries), "mismatches": bad}
    for b in bad:
        cx.findings.append({"property": "C18", "fn": "opcode-table", "arm": b.split(" is ")[0], "class": "mnemonic-roundtrip", "profile": "any",
                            "opcode": 0, "args": [], "detail": b, "native": ["table"], "confirmed": True, "table": True})
    if len(entries) < 10:
        raise V.Inconclusive("opcode table not read")


def main():
    ap = argparse.ArgumentParser()
    ap.add_argument("prop", choices=["C04", "C18"])
    ap.add_argument("--tier", default=os.environ.get("VERIF_TIER", "quick"))
    ap.add_argument("--replay")
    ap.add_argument("--emit-known")
    a = ap.parse_args()
    t0 = time.time()
    try:
        scratch = V.Scratch(a.prop.lower())
        if a.replay:
            return replay(scratch, a.prop, a.replay)
        cx = Ctx(a.prop, a.tier, scratch)
        (run_c04 if a.prop == "C04" else run_c18)(cx)
        cx.structure = None
        if a.prop == "C04":
            import c04_structure as S
            cx.structure = S.Structure(cx, scratch)
            for shape in S.struct_shapes(a.tier):
                cx.structure.check_shape(shape)
            cx.structure.validate()
            cx.structure.confirm()
        confirm(cx, scratch)
        if a.prop == "C18":
            opcode_table_check(cx, scratch)
        return report(a, cx, t0)
    except (V.Inconclusive, sym.Inconclusive, mir.MirError) as e:
        log("INCONCLUSIVE:", e)
        print("INCONCLUSIVE property=%s reason=%s" % (a.prop, str(e)[:400].replace("\n", " ")))
        return V.EXIT_INCONCLUSIVE


def hexargs(args):
    return " ".join("-" if not a else "".join("%06x" % c for c in a) for a in args)


def confirm(cx, scratch):
    """replay every witness on the real writer / transpiler / loader tokenizer (native harness in the compiler crate, which
    depends on bytecode; the transpiler's private re-encoder is compiled in from its source file)"""
    cx.findings = [f for f in cx.findings if not f.get("table")] if hasattr(cx, "findings") else cx.findings
    allf = cx.findings
    codec = [f for f in allf if "spec" not in f]
    if not codec:
        return
    cx.findings = codec
    try:
        _confirm_codec(cx, scratch)
    finally:
        cx.findings = allf


def _confirm_codec(cx, scratch):
    natc = N.NativeCompiler(scratch)
    vec = os.path.join(scratch.dir, "codec_vectors.txt")
    with open(vec, "w") as fh:
        for i, f in enumerate(cx.findings):
            fh.write("%d %s %d %s\n" % (i, "text" if cx.prop == "C18" else "binary", f["opcode"], hexargs(f["args"])))
    res = natc.run(env_extra={"VERIF_CODEC_VECTORS": vec, "VERIF_TRANSPILER_SRC": scratch.path("bytecode_dev_transpiler", "src", "lib.rs")})
    got = {t[1]: t[2:] for t in res if t[0] == "codec"}
    if cx.prop == "C18":
        # second native step: the REAL transpile_file on the text line the REAL writer produced, then the loader's tokenizer
        vecs = []
        for i, f in enumerate(cx.findings):
            r = got.get(str(i))
            if r and r[0] == "TEXT":
                vecs.append((str(i), f["opcode"], bytes.fromhex(r[1])))
        tr = N.NativeTranspiler(scratch).run(vecs) if vecs else {}
        for i, f in enumerate(cx.findings):
            if str(i) in tr:
                got[str(i)] = tr[str(i)]
    for i, f in enumerate(cx.findings):
        r = got.get(str(i))
        f["native"] = r
        want = ["OK", str(len(f["args"]))] + ["-" if not a else "".join("%06x" % c for c in a) for a in f["args"]]
        f["confirmed"] = r is not None and r != want


def report(a, cx, t0):
    prop = cx.prop
    known = V.known_index(prop)
    new, listed, bad = [], [], []
    for f in cx.findings:
        key = (prop, f["fn"], f["arm"], f["class"], "any")
        if not f.get("confirmed"):
            bad.append(f)
        elif key in known:
            listed.append((key, f))
        else:
            new.append(f)
    seen = set()
    for key, f in listed:
        if key in seen:
            continue
        seen.add(key)
        print("KNOWN-FINDING: property=%s %s %s %s: %s" % (prop, f["fn"], f["arm"], f["class"], known[key].get("what", f["detail"])))
    if a.emit_known:
        with open(a.emit_known, "w") as fh:
            json.dump([{"property": prop, "fn": f["fn"], "arm": f["arm"], "class": f["class"], "profile": "any", "what": f["detail"],
                        "example": "opcode %d args %r -> %r" % (f["opcode"], ["".join(map(chr, x)) for x in f["args"]], f.get("native"))} for f in new], fh, indent=1)
    code = V.EXIT_OK
    shown = set()
    for f in new:
        k = (f["fn"], f["arm"], f["class"])
        if k in shown:
            continue
        shown.add(k)
        import re as _re
        p = V.save_replay(prop, _re.sub(r"[^A-Za-z0-9_-]+", "_", ("%s_%s_%s" % k).replace("=", "").replace(",", "-")), f)
        print("VIOLATION property=%s replay=%s" % (prop, p))
        if "spec" in f:
            print("   %s [%s] %s: %s; file %s -> real code: %s" % (f["fn"], f["arm"], f["class"], f["detail"], f["spec"], f.get("native")))
        else:
            print("   %s [%s] %s: %s; opcode %d, arguments %r -> real code: %s" % (f["fn"], f["arm"], f["class"], f["detail"], f["opcode"],
                  ["".join(map(chr, x)) for x in f["args"]], f.get("native")))
        code = V.EXIT_VIOLATION
    if (bad or cx.qs.undecided) and code == V.EXIT_OK:
        for f in bad[:10]:
            log("NON-REPRODUCING:", json.dumps(f, default=str))
        for u in cx.qs.undecided[:10]:
            log("UNDECIDED:", u)
        code = V.EXIT_INCONCLUSIVE
        print("INCONCLUSIVE property=%s non_reproducing=%d undecided=%d" % (prop, len(bad), len(cx.qs.undecided)))
    nknown = cx.qs.violated - len(new) - len(bad)
    sh = shapes(a.tier, prop)
    coverage = {
        "obligations": cx.qs.obligations - nknown, "discharged": cx.qs.discharged, "obligations_violated_by_listed_known_findings": nknown,
        "checker_cmd": "python3-vt checks/c04_main.py %s --tier %s" % (prop, a.tier),
        "trusted_base": ["rustc MIR dumps of compiler, bytecode" + (", bytecode_dev_transpiler" if prop == "C18" else ""),
                         "mirsym interpreter with symbolic-character strings (strmodels.py: String/str/Vec/char models, rustc's packed format! templates); every counterexample is replayed on the real writer, tokenizer" + (" and transpiler re-encoder" if prop == "C18" else ""),
                         "record framing of MScriptFile::get_functions (`[op, ' ', args.., NUL]`, `[op, NUL]`) is replicated in the check" +
                         ("; line framing of transpile_file (read_line up to LF, split_once(' '), trim_start) is replicated; the mnemonic is an opaque white-space-free token" if prop == "C18" else "")],
        "functions_encoded": dict(cx.functions(), **({("file structure: " + k): v for k, v in cx.structure.K.encoded_functions().items()} if getattr(cx, "structure", None) else {})),
        "paths_explored": cx.paths + (cx.structure.paths if getattr(cx, "structure", None) else 0),
        "file_structure_kernel": ({"shapes": cx.structure.shapes_done,
                                   "bounds": "1..3 functions per file with CONCRETE labels (a/b/c, repetition included), 0..2 instructions per function, 0..2 arguments of <= 2 characters; opcodes symbolic in 1..=62, argument characters symbolic ASCII except NUL",
                                   "environment": ["File::open succeeds; the file holds exactly the bytes CompiledItem::repr returned, function after function (what perform_file_io_out writes)",
                                                   "BufReader::read_until(0) returns the bytes up to and including the next NUL, Ok(0) at the end of the file",
                                                   "String::from_utf8 / from_utf8_lossy are the identity on ASCII", "log level: one arbitrary boolean per load",
                                                   "HashMap<String, Function> with concrete keys: insert replaces, entry().or_insert keeps"],
                                   "validation_engine_vs_real_code": cx.structure.validation} if getattr(cx, "structure", None) else None),
        "supporting_step_opcode_table (finite, native, not a solver obligation)": getattr(cx, "opcode_table", None),
        "bounds": "argument-length vectors %s; characters: ANY Unicode scalar value except NUL (symbolic code points, not an alphabet); opcode symbolic in 1..=62" % (sh,),
        "solver_time_s": round(cx.qs.solver_s, 2),
        "samples": cx.qs.samples[:6] + [{k: v for k, v in f.items()} for f in (new + [f for _, f in listed])[:4]],
        "known_findings_reported": len(seen), "new_violations": len(shown),
    }
    V.write_evidence(prop, a.tier, "proof", coverage, ["kernel claim: whole-program equivalence, multi-module mixing and longer strings are outside"], time.time() - t0, len(shown))
    log("%s: %d paths, %d obligations, %d discharged, %d known keys, %d new, %d non-reproducing, %.1fs" % (prop, cx.paths, cx.qs.obligations, cx.qs.discharged, len(seen), len(shown), len(bad), time.time() - t0))
    return code


def replay(scratch, prop, path):
    f = json.load(open(path))

    class X:
        pass
    cx = X()
    cx.prop, cx.findings = prop, [f]
    if "spec" in f:
        import c04_structure as S
        st = S.Structure.__new__(S.Structure)
        st.cx, st.scratch = cx, scratch
        st.confirm()
    else:
        confirm(cx, scratch)
    print("replay:", f.get("native"))
    if f.get("confirmed"):
        print("VIOLATION property=%s replay=%s" % (prop, path))
        return V.EXIT_VIOLATION
    print("not reproduced on the current tree")
    return V.EXIT_OK


if __name__ == "__main__":
    sys.exit(main())
