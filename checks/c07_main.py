#!/usr/bin/env python3
"""C07 (kernel): variables are shared cells - assignment, lookup, capture by reference, write-through.

Engine B executes the real Stack::{register_variable, find_name, extend}, VariableMapping::{update, get}, the real
PrimitiveFlagsPair methods and the `make_function` instruction (MIR of `bytecode`, both overflow profiles) on every call-stack
shape of the state space described in mirsym/scopekernels.py; z3 decides the obligations for all values and flags.
"""
import sys, os, time, json, argparse
HERE = os.path.dirname(os.path.abspath(__file__))
sys.path.insert(0, os.path.join(HERE, "..", "lib"))
sys.path.insert(0, os.path.join(HERE, "..", "mirsym"))
import z3
import vcommon as V
from vcommon import log
import native as N
import mir, sym, opcheck as Q, scopekernels as S


def all_runs(sk, tier):
    runs = []
    for sh in S.shapes(tier):
        runs += [S.run_assign(sk, sh), S.run_find(sk, sh), S.run_extend(sk, sh)]
        for names in ((), ("x",), ("x", "y"), ("y",)):
            runs.append(S.run_mkfn(sk, sh, names))
    for op in ("update", "get"):
        for name in ("x", "y", "z"):
            runs.append(S.run_mapping(sk, op, name, None))
    return runs


def main():
    ap = argparse.ArgumentParser()
    ap.add_argument("--tier", default=os.environ.get("VERIF_TIER", "quick"))
    ap.add_argument("--replay")
    a = ap.parse_args()
    t0 = time.time()
    try:
        scratch = V.Scratch("c07")
        nat = N.NativeBytecode(scratch)
        if a.replay:
            return replay(nat, a.replay)
        return check(scratch, nat, a, t0)
    except (V.Inconclusive, sym.Inconclusive, mir.MirError) as e:
        log("INCONCLUSIVE:", e)
        print("INCONCLUSIVE property=C07 reason=%s" % str(e)[:400].replace("\n", " "))
        return V.EXIT_INCONCLUSIVE


def check(scratch, nat, a, t0):
    qs = Q.QueryStats()
    info = {"functions": {}, "paths": {}, "validation_vectors": {}, "models": {}, "shapes": 0}
    timeout_ms = 60000 if a.tier == "quick" else 180000
    findings, bad_replay = [], []
    for release in (False, True):
        profile = "release" if release else "dev"
        oc = not release
        sk = S.ScopeKernels(mir.MirFile(scratch.mir_dump("bytecode", oc)), oc, scratch.repo, seed=V.seed())
        info["functions"][profile] = sk.encoded_functions()
        runs = all_runs(sk, a.tier)
        info["shapes"] = len(S.shapes(a.tier))
        info["paths"][profile] = sum(len(r.outs) for r in runs)
        info["models"][profile] = sorted(sk.ex.stats["models_used"])
        n, mism = S.validate(sk, runs, nat.eval_raw, release)
        info["validation_vectors"][profile] = n
        if mism:
            for m in mism[:10]:
                log("  TRANSLATOR MISMATCH", m)
            raise V.Inconclusive("engine B disagrees with the real call stack on %d of %d vectors (%s), first: %r" % (len(mism), n, profile, mism[0]))
        log("  [%s] %d runs, %d paths; translator validation: %d vectors agree with the real code" % (profile, len(runs), info["paths"][profile], n))
        # vacuity: the interesting cases are reachable (an assignment that creates a local, one that updates, one that is refused)
        kinds = set()
        for r in runs:
            if r.op == "assign":
                for o in r.outs:
                    if o.kind == "return":
                        kinds.add((S.assign_target(r.shape) is None, o.value.variant))
        if not {(True, "Ok"), (False, "Ok"), (False, "Err")} <= kinds:
            raise V.Inconclusive("vacuity: assignment cases not all reached: %r" % (kinds,))
        cand = []
        for r in runs:
            for cls, detail, model in S.judge(sk, r, profile, qs, timeout_ms, V.seed()):
                cand.append((r, cls, detail, model))
        # replay on the real call stack (mapping operations are exercised natively through the closure built by make_function)
        todo = [(r, cls, detail, model) for r, cls, detail, model in cand if r.op in ("assign", "find", "extend", "mkfn")]
        if todo:
            vecs, meta = [], []
            for i, (r, cls, detail, model) in enumerate(todo):
                vals, flags, v = S.witness_values(r, model)
                vecs.append(("w%d" % i, S.native_spec(r), S.native_args(r, vals, flags, v)))
                meta.append((vals, flags, v))
            res = nat.eval_raw(vecs, release)
            for i, (r, cls, detail, model) in enumerate(todo):
                vals, flags, v = meta[i]
                got = " ".join(res["w%d" % i].split())
                pred = " ".join(S.predict(sk, r, vals, flags, v).split())
                f = {"property": "C07", "fn": "scope." + r.op, "arm": r.arm, "class": cls, "profile": profile, "detail": detail,
                     "native_op": S.native_spec(r), "witness": [[k, hex(x)] for k, x in S.native_args(r, vals, flags, v)],
                     "native": got, "predicted": pred}
                (findings if got == pred else bad_replay).append(f)
        mapping_findings = [(r, cls, detail, model) for r, cls, detail, model in cand if r.op in ("update", "get")]
        if mapping_findings:
            # VariableMapping has no native entry point of its own: replay through a closure that captures the variable
            # (the harness writes through the captured variables with the real VariableMapping::update)
            vecs, meta = [], []
            for i, (r, cls, detail, model) in enumerate(mapping_findings):
                vals, flags, v = S.witness_values(r, model)
                name = r.extra["name"] if r.extra["name"] in ("x", "y") else "y"
                mk = S.run_mkfn(sk, S.Shape("M", (True,)), (name,))
                vals2 = {(0, "x"): vals.get((0, "x"), 10), (0, "y"): vals.get((0, "y"), 13)}
                flags2 = {(0, "x"): flags.get((0, "x"), 0), (0, "y"): flags.get((0, "y"), 0)}
                vecs.append(("u%d" % i, S.native_spec(mk), S.native_args(mk, vals2, flags2)))
                meta.append((mk, vals2, flags2))
            res = nat.eval_raw(vecs, release)
            for i, (r, cls, detail, model) in enumerate(mapping_findings):
                mk, vals2, flags2 = meta[i]
                got = " ".join(res["u%d" % i].split())
                pred = " ".join(S.predict(sk, mk, vals2, flags2).split())
                f = {"property": "C07", "fn": "scope." + r.op, "arm": r.arm, "class": cls, "profile": profile, "detail": detail,
                     "native_op": S.native_spec(mk), "witness": [[k, hex(x)] for k, x in S.native_args(mk, vals2, flags2)],
                     "native": got, "predicted": pred}
                (findings if got == pred else bad_replay).append(f)
        log("  [%s] %d obligations so far, %d candidate findings" % (profile, qs.obligations, len(cand)))
    return report(a, findings, bad_replay, qs, info, t0)


def report(a, findings, bad, qs, info, t0):
    known = V.known_index("C07")
    new, listed = {}, {}
    for f in findings:
        key = (f["property"], f["fn"], f["arm"], f["class"], f["profile"])
        (listed if key in known else new).setdefault(key, f)
    for k, f in listed.items():
        print("KNOWN-FINDING: property=C07 %s[%s] %s (%s profile): %s" % (f["fn"], f["arm"], f["class"], f["profile"], known[k].get("what", f["detail"])))
    code = V.EXIT_OK
    for f in new.values():
        p = V.save_replay("C07", "%s_%s_%s_%s" % (f["fn"], f["arm"].replace(",", "-").replace("=", ""), f["class"], f["profile"]), f)
        print("VIOLATION property=C07 replay=%s" % p)
        print("   %s[%s] %s (%s profile): %s; real call stack: %s" % (f["fn"], f["arm"], f["class"], f["profile"], f["detail"], f["native"]))
        code = V.EXIT_VIOLATION
    if (bad or qs.undecided) and code == V.EXIT_OK:
        for f in bad[:10]:
            log("NON-REPRODUCING / not replayable:", json.dumps(f)[:400])
        code = V.EXIT_INCONCLUSIVE
        print("INCONCLUSIVE property=C07 non_reproducing=%d undecided=%d" % (len(bad), len(qs.undecided)))
    nknown = len([f for f in findings if (f["property"], f["fn"], f["arm"], f["class"], f["profile"]) in known])
    coverage = {
        "obligations": qs.obligations - nknown, "discharged": qs.discharged,
        "obligations_violated_by_listed_known_findings": nknown,
        "checker_cmd": "python3-vt checks/c07_main.py --tier %s" % a.tier,
        "trusted_base": ["rustc MIR dump of `bytecode` (both overflow profiles)",
                         "mirsym interpreter, validated on this run against the REAL call stack (Stack, register_variable, find_name, extend, make_function + VariableMapping::update through the closure) on %s vectors" % info["validation_vectors"],
                         "pointer model of gc::Gc / GcCell (gcmodels.py); HashMap<String, _> with concrete keys as an association list (hashmodels.py); std::mem::replace; integer `const`s of stack::flag_constants read from the source",
                         "Ctx::load_variable inside make_function is the nearest-binding lookup that the find_name obligations decide (composition stated, not re-executed)",
                         "std models used: " + ", ".join(sorted(set(sum(info["models"].values(), []))))],
        "functions_encoded": info["functions"], "paths": info["paths"],
        "bounds": "%d call-stack shapes: 1..3 frames (1..4 in the thorough tier) (module frame + every arrangement of function / <if> / <while> frames), the name x bound or not in each frame, a bystander y in the module frame; every value a full-width symbolic i32, every flag byte symbolic over {0, READ_ONLY} (the flags a real program produces; LOCAL_FRAME_ONLY and LOOP_VARIABLE are never set in the repository); closures capturing none / x / y / x and y; deeper stacks, more names, how the interpreter sequences these operations (Function::run, `call`) outside" % info["shapes"],
        "solver_time_s": round(qs.solver_s, 2),
        "samples": qs.samples[:8] + list(new.values())[:3],
        "known_findings_reported": len(listed), "new_violations": len(new),
    }
    V.write_evidence("C07", a.tier, "proof", coverage,
                     ["a variable is a gc::Gc cell; clones of the handle share it (gc crate semantics, modelled)",
                      "logging configuration is an arbitrary environment value",
                      "values of kind int only (the operations never look at the value)"], time.time() - t0, len(new))
    log("C07: %d obligations, %d discharged, %d known keys, %d new, %d non-reproducing, %d undecided, %.1fs" % (
        qs.obligations, qs.discharged, len(listed), len(new), len(bad), len(qs.undecided), time.time() - t0))
    return code


def replay(nat, path):
    d = json.load(open(path))
    w = [(k, int(v, 16) if isinstance(v, str) else v) for k, v in d["witness"]]
    got = " ".join(nat.eval_raw([("r0", d["native_op"], w)], d["profile"] == "release")["r0"].split())
    print("replay: %s -> %s (recorded: %s)" % (d["native_op"], got, d.get("native")))
    if got == d.get("native"):
        print("VIOLATION property=C07 replay=%s" % path)
        return V.EXIT_VIOLATION
    print("not reproduced on the current tree")
    return V.EXIT_OK


if __name__ == "__main__":
    sys.exit(main())
