#!/usr/bin/env python3
"""C05 / C17 (operator kernels): engine B (mirsym) over both overflow profiles, validated against and replayed on the
real code through the native harness.   usage: opcheck_main.py <C05|C17> --tier quick|thorough  |  --replay PATH"""
import sys, os, time, json, argparse
HERE = os.path.dirname(os.path.abspath(__file__))
sys.path.insert(0, os.path.join(HERE, "..", "lib"))
sys.path.insert(0, os.path.join(HERE, "..", "mirsym"))
import vcommon as V
from vcommon import log
import native as N
import mir, sym, opkernels as K, opcheck as Q


def all_cases():
    """(level, op, kinds).  Level 'instr' = through the interpreter instruction `bin_op <sym>` / equ / neq / neg / not
    (dispatch + kernel); level 'assign' = through `bin_op_assign <sym>= x` (the compound-assignment route: variable cell,
    dispatch on "+=".."%=", by-reference operator impl, result stored back and left on the stack)."""
    cases = []
    for op in K.ARITH:
        for k1 in K.KINDS:
            for k2 in K.KINDS:
                cases.append(("assign", op, (k1, k2)))
    for op in K.BINOPS + ["nequals"]:
        for k1 in K.KINDS:
            for k2 in K.KINDS:
                cases.append(("instr", op, (k1, k2)))
    for k in K.KINDS:
        cases.append(("instr", "negate", (k,)))
    for op in K.BOOLOPS + ["equals", "nequals"]:
        cases.append(("instr", op, ("Bool", "Bool")))
    cases.append(("instr", "not", ("Bool",)))
    return cases


def run_profile(scratch, nat, release, prop, tier, qs, info):
    profile = "release" if release else "dev"
    oc = not release
    path = scratch.mir_dump("bytecode", oc)
    mf = mir.MirFile(path)
    ker = K.Kernels(mf, oc, scratch.repo, seed=V.seed())
    info["functions"][profile] = ker.encoded_functions()
    t = time.time()
    summaries = []
    for level, op, kinds in all_cases():
        if level == "instr":
            summaries.append(ker.summarize_instr(op, list(kinds)))
        elif level == "assign":
            summaries.append(ker.summarize_assign(op, list(kinds)))
        else:
            summaries.append(ker.summarize(op, list(kinds)))
    info["summaries_s"][profile] = round(time.time() - t, 2)
    info["paths"][profile] = sum(len(s.paths) for s in summaries)
    info["executor"][profile] = {k: v for k, v in ker.ex.stats.items() if k != "inlined"}
    info["inlined"][profile] = sorted(ker.ex.stats["inlined"])
    info["models"][profile] = sorted(ker.ex.stats["models_used"])
    log("  [%s] %d summaries, %d paths, %.1fs" % (profile, len(summaries), info["paths"][profile], time.time() - t))
    # translator validation on the boundary grid
    n, mism = Q.validate(summaries, nat.eval, release)
    info["validation_vectors"][profile] = n
    if mism:
        for m in mism[:10]:
            log("  TRANSLATOR MISMATCH", m)
        raise V.Inconclusive("engine B disagrees with the real code on %d of %d validation vectors (%s), first: %r"
                             % (len(mism), n, profile, mism[0]))
    log("  [%s] translator validation: %d vectors agree with the real code" % (profile, n))
    # property queries
    t = time.time()
    timeout_ms = 60000 if tier == "quick" else 180000
    findings = []
    for s in summaries:
        findings += Q.check_summary(s, profile, qs, timeout_ms=timeout_ms, seed=V.seed(),
                                    want_c05=(prop == "C05"), want_c17=(prop == "C17"))
    if prop == "C17":
        findings += builtin_and_optional_panics(mf, oc, scratch, profile, qs, timeout_ms, info, nat, release, tier)
    findings = [f for f in findings if f.prop == prop]
    log("  [%s] %d obligations so far, %d candidate findings, %.1fs" % (profile, qs.obligations, len(findings), time.time() - t))
    # native replay of every witness
    todo = [f for f in findings if not getattr(f, "preconfirmed", False)]
    if todo:
        vecs = [("w%d" % i, f.native_op, f.witness) for i, f in enumerate(todo)]
        res = nat.eval(vecs, release)
        for i, f in enumerate(todo):
            f.native = list(res["w%d" % i])
            f.confirmed = confirms(f)
    return findings, summaries


def builtin_and_optional_panics(mf, oc, scratch, profile, qs, timeout_ms, info, nat, release, tier):
    """C17 also covers the kernels of C14 (numeric built-ins) and C12 (optional instructions): no feasible path panics"""
    import builtinkernels as B
    sys.path.insert(0, HERE)
    import c14_main, c12_main
    out = []
    bk = B.BuiltinKernels(mf, oc, scratch.repo, seed=V.seed())
    info["functions"][profile].update({"built-in:" + k: v for k, v in bk.encoded_functions().items()})
    for m, k, e in c14_main.cases("quick"):
        s = bk.summarize(m, k, e)
        arm = s.kinds[0] + ("" if s.exponent is None else ",exp=%d" % s.exponent) + (",exp<0" if s.pre is not None else "")
        fs = Q.check_summary(s, profile, qs, timeout_ms=timeout_ms, seed=V.seed(), want_c05=False, want_c17=True, orc={"supported": False}, arm=arm)
        out += fs
    # string -> number parsers on an arbitrary string (and arbitrary radix)
    nat_tables = N.NativeBytecode(scratch)
    disp, _ = c14_main.read_tables(scratch, nat_tables) if False else ({}, {})
    for m, (extra, inner) in B.PARSERS.items():
        variant = B.PARSER_VARIANTS[m]
        inputs, kinds, res = bk.summarize_parser(m, variant)
        ps = K.Summary(m, tuple(kinds), inputs, [], bk.fn, 0)
        ps.via = "built-in"
        panics = [pc for pc, kind, x in res if kind == "panic"]
        if not panics:
            qs.obligations += 1
            qs.discharged += 1
            continue
        import z3
        r, vals = Q.decide(z3.Or(*panics), ps, qs, timeout_ms, V.seed(), "%s[Str]/%s:C17-no-panic" % (m, profile))
        if r == "sat":
            msg = [x for pc, kind, x in res if kind == "panic"][0]
            f = Q.Finding("C17", m, "Str", "panic:" + Q.panic_class(msg), profile, [("Str", 0x31)] + ([("Int", vals[1])] if len(vals) > 1 else []),
                          "Rust panic `%s` in built-in %s" % (msg, m))
            f.native_op = "B:" + m
            f.predicted = ["PANIC"]
            out.append(f)
    # string methods with index arithmetic (len/substring/delete/insert/split/reverse) on bounded ASCII strings
    import strkernels as S
    sk = S.StrKernels(mf, oc, scratch.repo, seed=V.seed())
    info["functions"][profile].update(sk.encoded_functions())
    ssum = c14_main.string_summaries(sk, tier)
    n, mism = S.validate(ssum, nat.eval, release)
    info["validation_vectors"][profile + ":string-methods"] = n
    if mism:
        raise V.Inconclusive("engine B disagrees with the real string built-ins on %d of %d vectors (%s), first: %r" % (len(mism), n, profile, mism[0]))
    for s_ in ssum:
        out += S.check_summary(s_, profile, qs, timeout_ms, V.seed(), "C17")
    # the byte-indexed string methods on MULTI-BYTE text (all UTF-8 width classes, 1..2 characters): no panic
    sk2 = S.StrKernels(mf, oc, scratch.repo, seed=V.seed())
    for m_, variant_, ws_, iw_ in S.multibyte_shapes(tier):
        out += S.check_multibyte_panics(S.summarize_multibyte(sk2, m_, variant_, ws_, iw_), profile, qs, timeout_ms, V.seed())
    # string indexing by character (vec_op `[k]`), every UTF-8 width class
    import strindexkernels as X
    xk = X.StrIndexKernels(mf, oc, scratch.repo, seed=V.seed())
    info["functions"][profile].update(xk.encoded_functions())
    xsum = [xk.summarize(ws, k) for ws, k in X.shapes(tier)]
    n, mism = X.validate(xsum, nat.eval, release)
    info["validation_vectors"][profile + ":string-indexing"] = n
    if mism:
        raise V.Inconclusive("engine B disagrees with the real string indexing on %d of %d vectors (%s), first: %r" % (len(mism), n, profile, mism[0]))
    for s_ in xsum:
        out += X.check_summary(s_, profile, qs, timeout_ms, V.seed(), "C17")
    vsum = [X.summarize_var(xk, ws, kind) for ws, kind in X.var_shapes(tier)]
    n, mism = X.var_validate(vsum, nat.eval, release)
    info["validation_vectors"][profile + ":string-indexing-by-variable"] = n
    if mism:
        raise V.Inconclusive("engine B disagrees with the real string indexing (variable index) on %d of %d vectors (%s), first: %r" % (len(mism), n, profile, mism[0]))
    for s_ in vsum:
        out += X.check_var_summary(s_, profile, qs, timeout_ms, V.seed(), "C17")
    import strrepeatkernels as R
    rk = R.RepeatKernels(mf, oc, scratch.repo, seed=V.seed())
    rsum = [rk.summarize(sh, n_) for sh, n_ in R.shapes(tier)]
    n, mism = R.validate(rsum, nat.eval, release)
    info["validation_vectors"][profile + ":string-repetition"] = n
    if mism:
        raise V.Inconclusive("engine B disagrees with the real string repetition on %d of %d vectors (%s), first: %r" % (len(mism), n, profile, mism[0]))
    for s_ in rsum:
        out += R.check_summary(s_, profile, qs, timeout_ms, V.seed(), "C17")
    # list built-ins on a shared list (len/push/remove/reverse/clear/clone/index_of/join incl. the receiver joined with itself)
    import listkernels as L, c13_main
    lk = L.ListKernels(mf, oc, scratch.repo, seed=V.seed())
    info["functions"][profile].update(lk.encoded_functions())
    lsum = c13_main.list_summaries(lk, tier)
    n, mism = L.validate(lsum, nat.eval_raw, release)
    info["validation_vectors"][profile + ":list-methods"] = n
    if mism:
        raise V.Inconclusive("engine B disagrees with the real list built-ins on %d of %d vectors (%s), first: %r" % (len(mism), n, profile, mism[0]))
    lf = []
    for s_ in lsum:
        lf += L.check_summary(s_, profile, qs, timeout_ms, V.seed(), "C17")
    import bridgekernels as BR
    bk2 = BR.BridgeKernels(mf, oc, scratch.repo, seed=V.seed())
    info["functions"][profile].update(bk2.encoded_functions())
    bsum = c13_main.bridge_summaries(bk2, tier)
    n, mism = BR.validate(bsum, nat.eval_raw, release)
    info["validation_vectors"][profile + ":map-filter"] = n
    if mism:
        raise V.Inconclusive("engine B disagrees with the real map/filter bridge on %d of %d vectors (%s), first: %r" % (len(mism), n, profile, mism[0]))
    for s_ in bsum:
        lf += BR.check_summary(s_, profile, qs, timeout_ms, V.seed(), "C17")
    ik = L.ListIndexKernels(lk)
    isum = c13_main.index_summaries(ik, tier)
    n, mism = L.index_validate(isum, nat.eval_raw, release)
    info["validation_vectors"][profile + ":list-index-read"] = n
    if mism:
        raise V.Inconclusive("engine B disagrees with the real list indexing on %d of %d vectors (%s), first: %r" % (len(mism), n, profile, mism[0]))
    for s_ in isum:
        lf += L.index_check(s_, profile, qs, timeout_ms, V.seed(), "C17")
    # these witnesses are replayed here (their result is more than one value); run_profile skips findings already confirmed
    c13_main.confirm(lf, nat, release)
    for f in lf:
        f.native = [f.native]
        f.preconfirmed = True
    out += lf
    # call trace: rendering of the call stack, and the frame discipline of a native call that fails
    import tracekernels as T
    tk = T.TraceKernels(mf, oc, scratch.repo, seed=V.seed())
    info["functions"][profile].update(tk.encoded_functions())
    rsum = [tk.render(l) for l in T.render_shapes(tier)]
    csum = [T.summarize_call(tk, n_) for n_ in range(3)]
    n1, m1 = T.render_validate(rsum, nat.eval_raw, release)
    n2, m2 = T.call_validate(csum, nat.eval_raw, release)
    info["validation_vectors"][profile + ":trace"] = n1 + n2
    if m1 or m2:
        raise V.Inconclusive("engine B disagrees with the real trace rendering / native call on %d vectors (%s), first: %r" % (len(m1) + len(m2), profile, (m1 + m2)[0]))
    tf = []
    for s_ in rsum:
        tf += T.render_check(s_, profile, qs, timeout_ms, V.seed())
    for s_ in csum:
        tf += T.call_check(s_, profile, qs, timeout_ms, V.seed())
    if tf:
        res = nat.eval_raw([("t%d" % i, f.native_op, f.witness) for i, f in enumerate(tf)], release)
        for i, f in enumerate(tf):
            got = " ".join(res["t%d" % i].split())
            f.native = [got]
            f.confirmed = got == f.predicted_text and got != getattr(f, "expected_text", None)
            f.preconfirmed = True
    out += tf
    ker = K.Kernels(mf, oc, scratch.repo, seed=V.seed())
    ok_ = c12_main.OptKernels(ker, mf)
    for ins, iargs, kinds in c12_main.all_instances():
        inputs, outs = ok_.run(ins, iargs, kinds)
        panics = [o for o in outs if o.kind == "panic"]
        qs.obligations += 1
        if not panics:
            qs.discharged += 1
            continue
        ps = K.Summary(ins, tuple(kinds), inputs, [], "c12", 0)
        import z3
        cond = z3.Or(*[z3.And(*o.pc) if o.pc else z3.BoolVal(True) for o in panics])
        qs.obligations -= 1
        r, vals = Q.decide(cond, ps, qs, timeout_ms, V.seed(), "%s%r/%s:C17-no-panic" % (ins, kinds, profile))
        if r == "sat":
            f = Q.Finding("C17", ins, ",".join(kinds), "panic:" + Q.panic_class(panics[0].value.msg), profile, [(kinds[i], vals[i]) for i in range(len(kinds))],
                          "Rust panic `%s` in instruction %s" % (panics[0].value.msg, ins))
            f.native_op = "O:%s%s" % (ins, (":" + iargs[0]) if iargs else "")
            f.predicted = ["PANIC"]
            out.append(f)
    return out


def confirms(f):
    """does the real code show the violation the solver predicted on this witness?"""
    n = f.native
    if f.predicted and f.predicted[0] != "?" and list(f.predicted) != list(n):
        return False
    if f.prop == "C17":
        return n[0] == "PANIC"
    cls = f.cls.split(":")[0]
    if cls in ("ok-on-undefined", "ok-on-unsupported-kinds", "wrong-kind", "wrong-value"):
        return n[0] == "OK"
    if cls == "spurious-failure":
        return n[0] in ("ERR", "PANIC")
    return False


def main():
    ap = argparse.ArgumentParser()
    ap.add_argument("prop", choices=["C05", "C17"])
    ap.add_argument("--tier", default=os.environ.get("VERIF_TIER", "quick"))
    ap.add_argument("--replay")
    ap.add_argument("--emit-known", help="(maintenance only) write the confirmed, not yet listed findings in known_findings format to this file")
    a = ap.parse_args()
    global EMIT_KNOWN
    EMIT_KNOWN = a.emit_known
    if a.replay:
        return replay(a.prop, a.replay)
    t0 = time.time()
    prop = a.prop
    qs = Q.QueryStats()
    info = {k: {} for k in ("functions", "summaries_s", "paths", "executor", "inlined", "models", "validation_vectors")}
    try:
        scratch = V.Scratch(prop.lower())
        nat = N.NativeBytecode(scratch)
        allf = []
        for release in (False, True):
            f, _ = run_profile(scratch, nat, release, prop, a.tier, qs, info)
            allf += f
    except (V.Inconclusive, sym.Inconclusive, mir.MirError) as e:
        log("INCONCLUSIVE:", e)
        print("INCONCLUSIVE property=%s reason=%s" % (prop, str(e)[:400].replace("\n", " ")))
        return V.EXIT_INCONCLUSIVE
    if prop == "C05" and a.tier == "thorough":
        import kani_crosscheck
        try:
            info["kani"] = kani_crosscheck.run(scratch)
        except Exception as e:   # noqa - the cross-check must never mask engine B's verdict
            info["kani"] = {"error": str(e)[:300]}
    return report(prop, a.tier, allf, qs, info, t0)


EMIT_KNOWN = None


def report(prop, tier, findings, qs, info, t0):
    known = V.known_index(prop)
    bad_replay = [f for f in findings if not f.confirmed]
    new, listed = [], []
    for f in findings:
        if not f.confirmed:
            continue
        (listed if f.key() in known else new).append(f)
    seen = set()
    for f in listed:
        if f.key() in seen:
            continue
        seen.add(f.key())
        print("KNOWN-FINDING: property=%s %s[%s] %s (%s profile): %s; witness %s -> %s" % (
            prop, K.SYMBOL.get(f.op, f.op), f.arm, f.cls, f.profile, known[f.key()].get("what", f.detail),
            " ".join("%s:%s" % (k, hex(v)) for k, v in f.witness), " ".join(map(str, f.native))))
    exit_code = V.EXIT_OK
    if EMIT_KNOWN:
        ents = []
        for f in new:
            ents.append({"property": f.prop, "fn": f.op, "arm": f.arm, "class": f.cls, "profile": f.profile, "what": f.detail,
                         "example": " ".join("%s:%s" % (k, hex(v)) for k, v in f.witness) + " -> " + " ".join(map(str, f.native))})
        with open(EMIT_KNOWN, "w") as fh:
            json.dump(ents, fh, indent=1)
    for f in new:
        p = V.save_replay(prop, "%s_%s_%s_%s" % (f.op, f.arm.replace(",", "-"), f.cls.replace(":", "-"), f.profile), f.as_dict())
        print("VIOLATION property=%s replay=%s" % (prop, p))
        print("   %s[%s] %s (%s profile): %s; witness %s -> real code returns %s" % (
            K.SYMBOL.get(f.op, f.op), f.arm, f.cls, f.profile, f.detail, " ".join("%s:%s" % (k, hex(v)) for k, v in f.witness), " ".join(map(str, f.native))))
        exit_code = V.EXIT_VIOLATION
    kani_disagrees = [h for h, r in (info.get("kani") or {}).items() if isinstance(r, dict) and r.get("c05_assertion_failed")]
    if kani_disagrees and exit_code == V.EXIT_OK:
        exit_code = V.EXIT_INCONCLUSIVE
        print("INCONCLUSIVE property=%s kani_disagrees=%s" % (prop, ",".join(kani_disagrees)))
    if bad_replay or qs.undecided:
        for f in bad_replay[:10]:
            log("NON-REPRODUCING counterexample (engine or model wrong):", json.dumps(f.as_dict()))
        for u in qs.undecided[:10]:
            log("UNDECIDED obligation:", u)
        if exit_code == V.EXIT_OK:
            exit_code = V.EXIT_INCONCLUSIVE
            print("INCONCLUSIVE property=%s non_reproducing=%d undecided=%d" % (prop, len(bad_replay), len(qs.undecided)))
    stale = [k for k in known if k not in {f.key() for f in listed}]
    for k in stale:
        log("note: listed known finding no longer observed:", k)
    wall = time.time() - t0
    nfn = sum(v["mir_lines"] for v in info["functions"].get("dev", {}).values())
    coverage = {
        "obligations": qs.obligations - (qs.violated - len(new) - len(bad_replay)),
        "discharged": qs.discharged,
        "obligations_total_including_known_findings": qs.obligations,
        "obligations_violated_by_listed_known_findings": qs.violated - len(new) - len(bad_replay),
        "undecided": len(qs.undecided),
        "checker_cmd": "python3-vt checks/opcheck_main.py %s --tier %s  (z3 %s via z3-solver; rustc +nightly -Zunpretty=mir)" % (prop, tier, V_z3()),
        "trusted_base": [
            "rustc's MIR dump is the semantics of the crate (both -C overflow-checks settings dumped on this run)",
            "mirsym MIR interpreter (/verif/mirsym/sym.py) - validated on this run against the real functions on %s boundary vectors per profile" % info["validation_vectors"],
            "std models: " + ", ".join(sorted(set(sum(info["models"].values(), [])))),
            "z3 bit-vector and floating-point theories; float `%` encoded from fp.rem (exact construction)",
            "reference semantics of the property: /verif/mirsym/opkernels.py oracle()",
        ],
        "functions_encoded": info["functions"],
        "crate_functions_inlined": info["inlined"],
        "mir_lines_encoded": nfn,
        "paths": info["paths"],
        "bounds": "none beyond machine widths: operands are full-width symbolic i32/i128/f64/u8; all targets loop-free; 18 operators x 16 kind pairs + 4 negations, 2 overflow profiles",
        "solver_time_s": round(qs.solver_s, 2),
        "engine_time_s": info["summaries_s"],
        "executor_stats": info["executor"],
        "witnesses_by_candidate_evaluation": qs.by_candidate,
        "second_engine_kani (thorough tier only; compiled code, CBMC)": info.get("kani"),
        "samples": qs.samples + [f.as_dict() for f in (new + listed)[:6]],
        "known_findings_reported": len(seen),
        "new_violations": len(new),
    }
    V.write_evidence(prop, tier, "proof", coverage,
                     ["every discharged obligation is an unsat answer for ALL operand values of the machine types (no sampling); obligations violated by a listed known finding are excluded from `obligations` and counted separately",
                      "logging configuration (log::max_level) is an arbitrary environment value",
                      "error values are opaque (texts are not checked)"],
                     wall, len(new))
    log("%s: %d obligations, %d unsat, %d known-finding keys, %d new violations, %d undecided, %.1fs" % (
        prop, qs.obligations, qs.discharged, len(seen), len(new), len(qs.undecided), wall))
    return exit_code


def V_z3():
    import z3
    return z3.get_version_string()


def replay(prop, path):
    with open(path) as f:
        d = json.load(f)
    scratch = V.Scratch("replay")
    nat = N.NativeBytecode(scratch)
    w = [(k, int(v, 16) if isinstance(v, str) else v) for k, v in d["witness"]]
    res = nat.eval([("r0", d.get("native_op", d["fn"]), w)], d["profile"] == "release")["r0"]
    print("replay %s %s[%s] witness=%s -> %s (recorded: %s)" % (prop, d["fn"], d["arm"], d["witness"], list(res), d["native"]))
    f = Q.Finding(d["property"], d["fn"], d["arm"], d["class"], d["profile"], w, d["detail"], None)
    f.native = list(res)
    if confirms(f):
        print("VIOLATION property=%s replay=%s" % (prop, path))
        return V.EXIT_VIOLATION
    print("not reproduced on the current tree")
    return V.EXIT_OK


if __name__ == "__main__":
    sys.exit(main())
