#!/usr/bin/env python3
"""C14 (numeric half): built-in number methods compute their documented function.

The real `BuiltInFunction::run` is executed symbolically from its entry point (engine B, MIR of the bytecode crate) on a Ctx
whose operand stack holds the receiver (and argument); receiver payloads are full-width symbolic.  `pow` is instantiated for
exponents 0..8 (exact) and for all negative exponents; `powf`/float `pow` are uninterpreted (only the operand conversion
feeding them is checked).  Oracle: the meaning of each method (builtinkernels.oracle).
"""
import sys, os, time, json, argparse
HERE = os.path.dirname(os.path.abspath(__file__))
sys.path.insert(0, os.path.join(HERE, "..", "lib"))
sys.path.insert(0, os.path.join(HERE, "..", "mirsym"))
import z3
import vcommon as V
from vcommon import log
import native as N
import mir, sym, opkernels as K, opcheck as Q, builtinkernels as B, strkernels as S, strindexkernels as X, strrepeatkernels as R


def string_summaries(sk, tier, disp=None):
    """one summary per (method, receiver length[, inserted length]) within the stated bounds"""
    out = []
    for m, (variant, argk) in S.METHODS.items():
        if disp is not None:
            variant = disp.get(("Str", m)) or variant
        for n in range(S.LMAX.get(tier, 3) + 1):
            for k in (range(S.IMAX.get(tier, 2) + 1) if m == "insert" else [0]):
                out.append(sk.summarize(m, variant, n, k))
    return out


STR_DECLARED = {"len": "int", "substring": "str", "delete": "str", "insert": "str", "reverse": "str", "split": "[str,str]"}


def cases(tier):
    out = []
    for method, (variant, recvs, extra) in B.NUMERIC.items():
        for k in recvs:
            if method == "pow":
                if k == "Float":
                    out.append((method, k, None))
                else:
                    out.append((method, k, None))           # all negative exponents
                    for e in B.POW_EXPONENTS:
                        out.append((method, k, e))
            else:
                out.append((method, k, None))
    return out


def main():
    ap = argparse.ArgumentParser()
    ap.add_argument("--tier", default=os.environ.get("VERIF_TIER", "quick"))
    ap.add_argument("--replay")
    ap.add_argument("--emit-known")
    a = ap.parse_args()
    t0 = time.time()
    try:
        scratch = V.Scratch("c14")
        nat = N.NativeBytecode(scratch)
        if a.replay:
            return replay(nat, a.replay)
        return check(scratch, nat, a, t0)
    except (V.Inconclusive, sym.Inconclusive, mir.MirError) as e:
        log("INCONCLUSIVE:", e)
        print("INCONCLUSIVE property=C14 reason=%s" % str(e)[:400].replace("\n", " "))
        return V.EXIT_INCONCLUSIVE


def read_tables(scratch, nat):
    """finite tables read out of the real code natively: which built-in each method name dispatches to (Primitive::lookup) and
    the declared result type (TypeLayout::get_property_type)"""
    disp = {}
    recv_vals = {"Int": 1, "BigInt": 1, "Float": 0x3FF0000000000000, "Byte": 1, "Str": 0x61}
    res = nat.eval([("t_" + k, "T:lookup", [(k, v)]) for k, v in recv_vals.items()], False)
    for k in recv_vals:
        r = res["t_" + k]
        for ent in (r[2].split(",") if len(r) > 2 else []):
            name, var = ent.split("=")
            disp[(k, name)] = None if var == "None" else var
    decl = {}
    for t in N.NativeCompiler(scratch).run():
        if t[0] == "builtin":
            k = "Str" if t[1].startswith("Str") else t[1]
            decl[(k, t[2])] = None if t[3] == "None" else t[3]
    if len(disp) < 100 or len(decl) < 100:
        raise V.Inconclusive("built-in tables not read (%d, %d)" % (len(disp), len(decl)))
    return disp, decl


def check(scratch, nat, a, t0):
    qs = Q.QueryStats()
    info = {"functions": {}, "paths": {}, "validation_vectors": {}, "models": {}}
    timeout_ms = 60000 if a.tier == "quick" else 180000
    findings = []
    disp, decl = read_tables(scratch, nat)
    info["tables"] = {"dispatch_entries": len(disp), "declared_entries": len(decl)}
    for release in (False, True):
        profile = "release" if release else "dev"
        oc = not release
        bk = B.BuiltinKernels(mir.MirFile(scratch.mir_dump("bytecode", oc)), oc, scratch.repo, seed=V.seed())
        info["functions"][profile] = bk.encoded_functions()
        summaries = []
        table_findings = []
        for m, k, e in cases(a.tier):
            variant = disp.get((k, m))
            d = decl.get((k, m))
            if variant is None:
                if d is not None and e is None:
                    table_findings.append(table_finding(m, k, "declared-but-not-dispatched", profile, "the type checker knows `%s.%s` (-> %s) but Primitive::lookup does not resolve it" % (k, m, d)))
                continue
            s_ = bk.summarize(m, k, e, variant=variant)
            s_.declared = d
            summaries.append(s_)
        info["paths"][profile] = sum(len(s.paths) for s in summaries)
        info["models"][profile] = sorted(bk.ex.stats["models_used"])
        concrete = [s for s in summaries if not s.uninterpreted]
        n, mism = Q.validate(concrete, nat.eval, release)
        info["validation_vectors"][profile] = n
        if mism:
            for m in mism[:10]:
                log("  TRANSLATOR MISMATCH", m)
            raise V.Inconclusive("engine B disagrees with the real built-ins on %d of %d vectors (%s), first: %r" % (len(mism), n, profile, mism[0]))
        log("  [%s] %d summaries, %d paths; translator validation: %d vectors agree with the real code" % (profile, len(summaries), info["paths"][profile], n))
        pf = list(table_findings)
        # declared result kind = the kind the method's meaning gives (finite table, native) - per (receiver, method)
        seen_decl = set()
        for s in summaries:
            orc0 = B.oracle(s.op, s.kinds, s.inputs, s.exponent)
            key = (s.op, s.kinds[0])
            if key in seen_decl or not orc0.get("supported"):
                continue
            seen_decl.add(key)
            want = orc0["kind"]
            got = B.DECLARED.get(s.declared or "", s.declared)
            if got != want:
                pf.append(table_finding(s.op, s.kinds[0], "declared-kind-differs", profile, "declared result type `%s`, the method yields %s" % (s.declared, want)))
        # string -> number parsers on an ARBITRARY string: every result is nil or a present value of the declared kind
        for m, (extra, inner) in B.PARSERS.items():
            variant = disp.get(("Str", m))
            d = decl.get(("Str", m))
            if variant is None:
                if d is not None:
                    pf.append(table_finding(m, "Str", "declared-but-not-dispatched", profile, "`str.%s` is declared (-> %s) but not resolved at run time" % (m, d)))
                continue
            inputs, kinds, res = bk.summarize_parser(m, variant)
            ps = K.Summary(m, tuple(kinds), inputs, [], bk.fn, 0)
            ps.via = "built-in"
            want_decl = (B.DECLARED.get((d or "").rstrip("?"), None), (d or "").endswith("?"))
            for i, (pc, kind, x) in enumerate(res):
                lab = "%s[Str]/%s:path%d" % (m, profile, i)
                if kind == "panic":
                    continue      # C17's business (reported there)
                if kind != "ok":
                    continue
                okk = (x == "Nil" and want_decl[1]) or (x == "Some" + str(want_decl[0]))
                if not okk:
                    r, vals = Q.decide(pc, ps, qs, timeout_ms, V.seed(), lab + ":declared-kind")
                    if r == "sat":
                        f = Q.Finding("C14", m, "Str", "declared-kind-differs", profile, [("Str", 0x31)] + ([("Int", vals[1])] if len(vals) > 1 else []),
                                      "declared `%s`, a run-time result has shape %s" % (d, x))
                        f.native_op = "B:" + m
                        f.predicted = None
                        f.parser_shape = x
                        pf.append(f)
                else:
                    qs.obligations += 1
                    qs.discharged += 1
        for s in summaries:
            orc = B.oracle(s.op, s.kinds, s.inputs, s.exponent)
            arm = s.kinds[0] + ("" if s.exponent is None else ",exp=%d" % s.exponent) + (",exp<0" if s.pre is not None else "")
            pf += Q.check_summary(s, profile, qs, timeout_ms=timeout_ms, seed=V.seed(), want_c05=True, want_c17=False, orc=orc, prop="C14", arm=arm)
            for f in pf:
                if not hasattr(f, "uf"):
                    f.uf = False
            for f in pf[-len(pf):]:
                pass
        for f in pf:
            f.summ_uninterpreted = False
        # mark findings of uninterpreted methods
        un = {(s.op, s.kinds[0]) for s in summaries if s.uninterpreted}
        for f in pf:
            f.summ_uninterpreted = (f.op, f.arm.split(",")[0]) in un
        # string methods with index arithmetic: bounded ASCII receivers, full-width symbolic indices
        sk = S.StrKernels(bk.mf, oc, scratch.repo, seed=V.seed())
        info["functions"][profile].update(sk.encoded_functions())
        for m, want in STR_DECLARED.items():
            d = decl.get(("Str", m))
            if disp.get(("Str", m)) is None:
                pf.append(table_finding("str." + m, "Str", "declared-but-not-dispatched", profile, "`str.%s` is not resolved by Primitive::lookup" % m))
            elif (d or "").replace(" ", "") != want:
                pf.append(table_finding("str." + m, "Str", "declared-kind-differs", profile, "declared result type `%s`, the method yields %s" % (d, want)))
            else:
                qs.obligations += 1
                qs.discharged += 1
        ssum = string_summaries(sk, a.tier, disp)
        n2, mism2 = S.validate(ssum, nat.eval, release)
        info["validation_vectors"][profile + ":string-methods"] = n2
        if mism2:
            for m in mism2[:10]:
                log("  TRANSLATOR MISMATCH", m)
            raise V.Inconclusive("engine B disagrees with the real string built-ins on %d of %d vectors (%s), first: %r" % (len(mism2), n2, profile, mism2[0]))
        info["paths"][profile] += sum(len(s_.paths) for s_ in ssum)
        for s_ in ssum:
            pf += S.check_summary(s_, profile, qs, timeout_ms, V.seed(), "C14")
        for f in pf:
            if not hasattr(f, "summ_uninterpreted"):
                f.summ_uninterpreted = False
        log("  [%s] string methods: %d summaries, %d validation vectors agree" % (profile, len(ssum), n2))
        # string indexing by character (`s[k]`, instruction vec_op) on text of every UTF-8 width class
        xk = X.StrIndexKernels(bk.mf, oc, scratch.repo, seed=V.seed())
        info["functions"][profile].update(xk.encoded_functions())
        xsum = [xk.summarize(ws, k) for ws, k in X.shapes(a.tier)]
        n3, mism3 = X.validate(xsum, nat.eval, release)
        info["validation_vectors"][profile + ":string-indexing"] = n3
        if mism3:
            for m in mism3[:10]:
                log("  TRANSLATOR MISMATCH", m)
            raise V.Inconclusive("engine B disagrees with the real string indexing on %d of %d vectors (%s), first: %r" % (len(mism3), n3, profile, mism3[0]))
        info["paths"][profile] += sum(len(s_.paths) for s_ in xsum)
        for s_ in xsum:
            pf += X.check_summary(s_, profile, qs, timeout_ms, V.seed(), "C14")
        # the same with the index taken from a local variable of kind int / bigint / byte (full-width symbolic value)
        vsum = [X.summarize_var(xk, ws, kind) for ws, kind in X.var_shapes(a.tier)]
        n4, mism4 = X.var_validate(vsum, nat.eval, release)
        info["validation_vectors"][profile + ":string-indexing-by-variable"] = n4
        if mism4:
            for m in mism4[:10]:
                log("  TRANSLATOR MISMATCH", m)
            raise V.Inconclusive("engine B disagrees with the real string indexing (variable index) on %d of %d vectors (%s), first: %r" % (len(mism4), n4, profile, mism4[0]))
        info["paths"][profile] += sum(len(s_.paths) for s_ in vsum)
        for s_ in vsum:
            pf += X.check_var_summary(s_, profile, qs, timeout_ms, V.seed(), "C14")
        log("  [%s] string indexing: %d + %d summaries, %d + %d validation vectors agree" % (profile, len(xsum), len(vsum), n3, n4))
        # string repetition s * n / n * s with n an int or bigint holding any value
        rk = R.RepeatKernels(bk.mf, oc, scratch.repo, seed=V.seed())
        info["functions"][profile].update(rk.encoded_functions())
        rsum = [rk.summarize(sh, n_) for sh, n_ in R.shapes(a.tier)]
        n5, mism5 = R.validate(rsum, nat.eval, release)
        info["validation_vectors"][profile + ":string-repetition"] = n5
        if mism5:
            for m in mism5[:10]:
                log("  TRANSLATOR MISMATCH", m)
            raise V.Inconclusive("engine B disagrees with the real string repetition on %d of %d vectors (%s), first: %r" % (len(mism5), n5, profile, mism5[0]))
        info["paths"][profile] += sum(len(s_.paths) for s_ in rsum)
        for s_ in rsum:
            pf += R.check_summary(s_, profile, qs, timeout_ms, V.seed(), "C14")
        confirm(pf, nat, release)
        findings += pf
        log("  [%s] %d obligations so far, %d candidate findings" % (profile, qs.obligations, len(pf)))
    return report(a, findings, qs, info, t0)


def table_finding(method, kind, cls, profile, detail):
    f = Q.Finding("C14", method, kind, cls, profile, [], detail)
    f.native_op = None
    f.table = True
    return f


def exact_float_bits(kind, bits):
    """bit pattern of the double nearest to the integer value (Python's int -> float conversion is correctly rounded)"""
    import struct
    if kind == "Float":
        return bits
    w = {"Int": 32, "BigInt": 128, "Byte": 8}[kind]
    v = bits
    if kind != "Byte" and v >= 1 << (w - 1):
        v -= 1 << w
    return struct.unpack("<Q", struct.pack("<d", float(v)))[0]


def confirm(findings, nat, release):
    if not findings:
        return
    for f in findings:
        if getattr(f, "table", False):
            f.native = ["(finite table read from the real code)"]
            f.confirmed = True
    findings = [f for f in findings if not getattr(f, "table", False)]
    if not findings:
        return
    vecs = []
    for i, f in enumerate(findings):
        if f.summ_uninterpreted and f.op == "powf":
            # powf is uninterpreted in the encoding: replay with exponent 1.0, for which powf(x, 1) = x shows the receiver conversion
            f.witness = [f.witness[0], ("Float", 0x3FF0000000000000)]
        vecs.append(("w%d" % i, f.native_op, f.witness))
        if f.summ_uninterpreted:
            k, b = f.witness[0]
            vecs.append(("x%d" % i, f.native_op, [("Float", exact_float_bits(k, b))] + list(f.witness[1:])))
    res = nat.eval(vecs, release)
    for i, f in enumerate(findings):
        f.native = list(res["w%d" % i])
        if getattr(f, "parser_shape", None):
            # the real parser, on a string that parses ("1"), must show the same shape the engine derived
            f.confirmed = f.native[0] == "OK" and f.native[1] == f.parser_shape or f.parser_shape == "Nil"
            continue
        if f.summ_uninterpreted:
            ref = list(res["x%d" % i])
            f.native = {"got": f.native, "same method on the exactly converted float receiver": ref}
            f.confirmed = f.native["got"] != ref
            continue
        if f.predicted and f.predicted[0] != "?" and list(f.predicted) != f.native:
            f.confirmed = False
            continue
        cls = f.cls.split(":")[0]
        f.confirmed = (f.native[0] == "OK") if cls in ("ok-on-undefined", "wrong-kind", "wrong-value", "ok-on-unsupported-kinds") else (f.native[0] in ("ERR", "PANIC"))


def report(a, findings, qs, info, t0):
    known = V.known_index("C14")
    new, listed, bad = [], [], []
    for f in findings:
        if not f.confirmed:
            bad.append(f)
        elif f.key() in known:
            listed.append(f)
        else:
            new.append(f)
    seen = set()
    for f in listed:
        if f.key() in seen:
            continue
        seen.add(f.key())
        print("KNOWN-FINDING: property=C14 %s[%s] %s (%s profile): %s" % (f.op, f.arm, f.cls, f.profile, known[f.key()].get("what", f.detail)))
    if a.emit_known:
        with open(a.emit_known, "w") as fh:
            json.dump([{"property": "C14", "fn": f.op, "arm": f.arm, "class": f.cls, "profile": f.profile, "what": f.detail,
                        "example": " ".join("%s:%s" % (k, hex(v)) for k, v in f.witness) + " -> " + json.dumps(f.native)} for f in new], fh, indent=1)
    code = V.EXIT_OK
    uniq = {}
    for f in new:
        uniq.setdefault(f.key(), f)
    new = list(uniq.values())
    for f in new:
        p = V.save_replay("C14", "%s_%s_%s_%s" % (f.op, f.arm.replace(",", "-").replace("<", "lt").replace("=", ""), f.cls.replace(":", "-"), f.profile), f.as_dict())
        print("VIOLATION property=C14 replay=%s" % p)
        print("   %s[%s] %s (%s profile): %s; operands %s -> real code returns %s" % (f.op, f.arm, f.cls, f.profile, f.detail,
              " ".join("%s:%s" % (k, hex(v)) for k, v in f.witness), json.dumps(f.native)))
        code = V.EXIT_VIOLATION
    if (bad or qs.undecided) and code == V.EXIT_OK:
        for f in bad[:10]:
            log("NON-REPRODUCING:", json.dumps(f.as_dict(), default=str))
        for u in qs.undecided[:10]:
            log("UNDECIDED:", u)
        code = V.EXIT_INCONCLUSIVE
        print("INCONCLUSIVE property=C14 non_reproducing=%d undecided=%d" % (len(bad), len(qs.undecided)))
    nknown = qs.violated - len(new) - len(bad)
    coverage = {
        "obligations": qs.obligations - nknown, "discharged": qs.discharged,
        "obligations_violated_by_listed_known_findings": nknown,
        "checker_cmd": "python3-vt checks/c14_main.py --tier %s" % a.tier,
        "trusted_base": ["rustc MIR dump of `bytecode` (both overflow profiles)",
                         "mirsym interpreter, validated on this run against the real BuiltInFunction::run on %s boundary vectors" % info["validation_vectors"],
                         "std models: " + ", ".join(sorted(set(sum(info["models"].values(), [])))),
                         "f64::powi / f64::powf are uninterpreted functions", "oracle: /verif/mirsym/builtinkernels.py oracle(), /verif/mirsym/strkernels.py oracle(), /verif/mirsym/strindexkernels.py (k-th character)"],
        "functions_encoded": info["functions"], "paths": info["paths"],
        "bounds": "numeric methods to_int,to_bigint,to_byte,to_float,abs,sqrt,pow,powf,fpart,ipart,round,floor,ceil: every numeric receiver kind, full-width symbolic payload; pow: exponents 0..8 and 63, 64, 126, 127, %d exact (the large ones through the exact table of representable bases) + all negative exponents, other exponents outside the claim. String methods len,substring,delete,insert,split,reverse: receiver length 0..%d, inserted text length 0..%d, every character symbolic in 0x20..0x7E (multi-byte text outside the claim), every index a full-width symbolic i32. String indexing s[k] (instruction vec_op with a literal index): strings of 0..%d characters, every character symbolic over its whole UTF-8 width class, all 4^n class combinations, every k in 0..n+1; and s[i] with i a local variable of kind int / bigint / byte holding ANY value of its kind (strings of 0..%d characters); String repetition s * n and n * s: strings of 0..%d ASCII characters, n an int or bigint holding ANY value (repetitions beyond 3 kept as an opaque term with its count). contains/index_of/replace/chars/concatenation outside" % (B.POW_EXPONENTS[-1], S.LMAX.get(a.tier, 3), S.IMAX.get(a.tier, 2), X.NMAX.get(a.tier, 3), X.VAR_NMAX.get(a.tier, 2), R.LMAX.get(a.tier, 2)),
        "solver_time_s": round(qs.solver_s, 2),
        "samples": qs.samples[:8] + [f.as_dict() for f in (new + listed)[:6]],
        "known_findings_reported": len(seen), "new_violations": len(new),
    }
    V.write_evidence("C14", a.tier, "proof", coverage,
                     ["numeric methods, the index-arithmetic string methods (ASCII text) and string indexing by a literal index (all of Unicode); the remaining string methods (pattern search, chars, repetition, concatenation) and multi-byte text for the index-arithmetic methods are outside this claim (see DESIGN.md)"], time.time() - t0, len(new))
    log("C14: %d obligations, %d discharged, %d known keys, %d new, %d non-reproducing, %.1fs" % (qs.obligations, qs.discharged, len(seen), len(new), len(bad), time.time() - t0))
    return code


def replay(nat, path):
    d = json.load(open(path))
    w = [(k, int(v, 16) if isinstance(v, str) else v) for k, v in d["witness"]]
    f = Q.Finding("C14", d["fn"], d["arm"], d["class"], d["profile"], w, d["detail"])
    f.native_op = d["native_op"]
    f.summ_uninterpreted = d["fn"] == "powf" or (d["fn"] == "pow" and d["arm"].startswith("Float"))
    confirm([f], nat, d["profile"] == "release")
    print("replay:", json.dumps(f.native))
    if f.confirmed:
        print("VIOLATION property=C14 replay=%s" % path)
        return V.EXIT_VIOLATION
    print("not reproduced on the current tree")
    return V.EXIT_OK


if __name__ == "__main__":
    sys.exit(main())
