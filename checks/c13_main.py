#!/usr/bin/env python3
"""C13 (list kernel): one step of every list built-in, from an arbitrary shared list state, matches the sequence model.

Engine B executes the real `BuiltInFunction::run` (MIR of the bytecode crate, both overflow profiles) for len, push, remove,
reverse, clear, clone, index_of, join (with another list and with the receiver itself) on a receiver that lives in a shared
`Gc` cell (mirsym/gcmodels.py) - see mirsym/listkernels.py for the state space, the meaning and the obligations.
Maps, index read/assignment (`vec_op`), `map`/`filter` (callbacks into the interpreter) and `==` are outside.
"""
import sys, os, time, json, argparse
HERE = os.path.dirname(os.path.abspath(__file__))
sys.path.insert(0, os.path.join(HERE, "..", "lib"))
sys.path.insert(0, os.path.join(HERE, "..", "mirsym"))
import z3
import vcommon as V
from vcommon import log
import native as N
import mir, sym, opcheck as Q, listkernels as L, bridgekernels as BR


def index_summaries(ik, tier):
    return [ik.summarize(n, k) for n in range(L.NMAX.get(tier, 3) + 1) for k in L.IDX_KINDS]


def bridge_summaries(bk, tier):
    return [bk.summarize(m, n) for m in ("map", "filter") for n in range(BR.NMAX.get(tier, 3) + 1)]


def list_summaries(lk, tier):
    out = []
    for m in L.METHODS:
        for n in range(L.NMAX.get(tier, 3) + 1):
            for k in (range(L.MMAX.get(tier, 2) + 1) if m == "join" else [0]):
                out.append(lk.summarize(m, n, k))
    return out


def confirm(findings, nat, release):
    """replay every witness on the real built-in: the engine's prediction must be what the real code does, and that outcome
    must itself violate the clause"""
    if not findings:
        return
    res = nat.eval_raw([("w%d" % i, f.native_op, f.witness) for i, f in enumerate(findings)], release)
    for i, f in enumerate(findings):
        got = L.norm_native(res["w%d" % i])
        f.native = got
        if got != f.predicted_text:
            f.confirmed = False
            continue
        cls = f.cls.split(":")[0]
        if f.prop == "C17" or cls == "panic":
            f.confirmed = got.startswith("PANIC")
        elif cls == "spurious-failure":
            f.confirmed = got.startswith("PANIC") or got.startswith("ERR")
        else:
            f.confirmed = got.startswith("OK") or cls == "failure-changes-list"


def main():
    ap = argparse.ArgumentParser()
    ap.add_argument("--tier", default=os.environ.get("VERIF_TIER", "quick"))
    ap.add_argument("--replay")
    ap.add_argument("--emit-known")
    a = ap.parse_args()
    t0 = time.time()
    try:
        scratch = V.Scratch("c13")
        nat = N.NativeBytecode(scratch)
        if a.replay:
            return replay(nat, a.replay)
        return check(scratch, nat, a, t0)
    except (V.Inconclusive, sym.Inconclusive, mir.MirError) as e:
        log("INCONCLUSIVE:", e)
        print("INCONCLUSIVE property=C13 reason=%s" % str(e)[:400].replace("\n", " "))
        return V.EXIT_INCONCLUSIVE


def check(scratch, nat, a, t0):
    qs = Q.QueryStats()
    info = {"functions": {}, "paths": {}, "validation_vectors": {}, "models": {}, "witnesses": {}}
    timeout_ms = 60000 if a.tier == "quick" else 180000
    findings = []
    for release in (False, True):
        profile = "release" if release else "dev"
        oc = not release
        lk = L.ListKernels(mir.MirFile(scratch.mir_dump("bytecode", oc)), oc, scratch.repo, seed=V.seed())
        info["functions"][profile] = lk.encoded_functions()
        summ = list_summaries(lk, a.tier)
        info["paths"][profile] = sum(len(s.paths) for s in summ)
        info["models"][profile] = sorted(lk.ex.stats["models_used"])
        n, mism = L.validate(summ, nat.eval_raw, release)
        info["validation_vectors"][profile] = n
        if mism:
            for m in mism[:10]:
                log("  TRANSLATOR MISMATCH", m)
            raise V.Inconclusive("engine B disagrees with the real list built-ins on %d of %d vectors (%s), first: %r" % (len(mism), n, profile, mism[0]))
        log("  [%s] %d summaries, %d paths; translator validation: %d vectors agree with the real code" % (profile, len(summ), info["paths"][profile], n))
        # vacuity: every mutating method has a path on which the shared cell really changes length as the model says
        wit = 0
        vacuous = []
        expect = {"push": lambda s: s.n + 1, "clear": lambda s: 0 if s.n else None, "remove": lambda s: s.n - 1 if s.n else None,
                  "join": lambda s: s.n + s.m if s.m else None}
        for s in summ:
            want = expect.get(s.method, lambda s: None)(s)
            if want is None:
                continue
            if not any(p[1] == "ok" and len(p[3]) == want for p in s.paths):
                vacuous.append("vacuity: list.%s[%s] has no path that changes the shared list" % (s.method, s.arm))
                continue
            wit += 1
        info["witnesses"][profile] = wit
        pf = []
        for s in summ:
            pf += L.check_summary(s, profile, qs, timeout_ms, V.seed(), "C13")
        # a missing witness is an encoding problem only if the obligations of that run found nothing: when the real code no longer
        # changes the list (a defect), the obligations say so and their counterexample is replayed below
        if vacuous and not pf:
            raise V.Inconclusive(vacuous[0])
        # map / filter: the built-in together with its callback bridge, callback results arbitrary
        bk = BR.BridgeKernels(lk.mf, oc, scratch.repo, seed=V.seed())
        info["functions"][profile].update(bk.encoded_functions())
        bsum = bridge_summaries(bk, a.tier)
        nb, mismb = BR.validate(bsum, nat.eval_raw, release)
        info["validation_vectors"][profile + ":map-filter"] = nb
        if mismb:
            for m in mismb[:10]:
                log("  TRANSLATOR MISMATCH", m)
            raise V.Inconclusive("engine B disagrees with the real map/filter bridge on %d of %d vectors (%s), first: %r" % (len(mismb), nb, profile, mismb[0]))
        info["paths"][profile] += sum(len(s.paths) for s in bsum)
        for s in bsum:
            pf += BR.check_summary(s, profile, qs, timeout_ms, V.seed(), "C13")
        # index read a[i] (instruction vec_op, index in a local variable of kind int / bigint / byte, any value)
        ik = L.ListIndexKernels(lk)
        info["functions"][profile].update(ik.encoded_functions())
        isum = index_summaries(ik, a.tier)
        ni, mismi = L.index_validate(isum, nat.eval_raw, release)
        info["validation_vectors"][profile + ":index-read"] = ni
        if mismi:
            for m in mismi[:10]:
                log("  TRANSLATOR MISMATCH", m)
            raise V.Inconclusive("engine B disagrees with the real list indexing on %d of %d vectors (%s), first: %r" % (len(mismi), ni, profile, mismi[0]))
        info["paths"][profile] += sum(len(s.paths) for s in isum)
        for s in isum:
            pf += L.index_check(s, profile, qs, timeout_ms, V.seed(), "C13")
        # a[k] op= v through an element pointer (bin_op_assign without a name + HeapPrimitive::update)
        ak = L.ElemAssignKernels(lk)
        info["functions"][profile].update(ak.encoded_functions())
        asum = [ak.summarize(*sh) for sh in L.assign_shapes(a.tier)]
        na, misma = L.assign_validate(asum, nat.eval_raw, release)
        info["validation_vectors"][profile + ":element-assignment"] = na
        if misma:
            for m in misma[:10]:
                log("  TRANSLATOR MISMATCH", m)
            raise V.Inconclusive("engine B disagrees with the real element assignment on %d of %d vectors (%s), first: %r" % (len(misma), na, profile, misma[0]))
        info["paths"][profile] += sum(len(s.paths) for s in asum)
        for s in asum:
            pf += L.assign_check(s, profile, qs, timeout_ms, V.seed())
        # the same on string elements: `a[k] += s` must APPEND (concatenation does not commute)
        ssum = [L.summarize_str_assign(ak, n_, k_) for n_ in range(1, 3) for k_ in range(n_)]
        ns, misms = L.str_assign_validate(ssum, nat.eval_raw, release)
        info["validation_vectors"][profile + ":element-assignment-str"] = ns
        if misms:
            raise V.Inconclusive("engine B disagrees with the real string element assignment on %d of %d vectors (%s), first: %r" % (len(misms), ns, profile, misms[0]))
        for s in ssum:
            pf += L.str_assign_check(s, profile, qs, timeout_ms, V.seed())
        # `a == b` on lists (Primitive::equals, vector arm): equal iff same length and equal elements
        esum = [L.summarize_list_eq(lk, n_, m_, nested=nst) for nst in (False, True) for n_ in range(3) for m_ in range(3)]
        ne, misme = L.list_eq_validate(esum, nat.eval_raw, release)
        info["validation_vectors"][profile + ":list-equality"] = ne
        if misme:
            raise V.Inconclusive("engine B disagrees with the real list equality on %d of %d vectors (%s), first: %r" % (len(misme), ne, profile, misme[0]))
        for s in esum:
            pf += L.list_eq_check(s, profile, qs, timeout_ms, V.seed())
        confirm(pf, nat, release)
        findings += pf
        log("  [%s] %d obligations so far, %d candidate findings" % (profile, qs.obligations, len(pf)))
    return report(a, findings, qs, info, t0)


def fdict(f):
    d = f.as_dict()
    d["human"] = getattr(f, "human", "")
    d["predicted_text"] = getattr(f, "predicted_text", None)
    return d


def report(a, findings, qs, info, t0):
    known = V.known_index("C13")
    new, listed, bad = {}, {}, []
    for f in findings:
        if not f.confirmed:
            bad.append(f)
        elif f.key() in known:
            listed.setdefault(f.key(), f)
        else:
            new.setdefault(f.key(), f)
    for k, f in listed.items():
        print("KNOWN-FINDING: property=C13 %s[%s] %s (%s profile): %s" % (f.op, f.arm, f.cls, f.profile, known[k].get("what", f.detail)))
    if a.emit_known:
        with open(a.emit_known, "w") as fh:
            json.dump([{"property": "C13", "fn": f.op, "arm": f.arm, "class": f.cls, "profile": f.profile, "what": f.detail,
                        "example": f.human + " -> " + str(f.native)} for f in new.values()], fh, indent=1)
    code = V.EXIT_OK
    for f in new.values():
        p = V.save_replay("C13", "%s_%s_%s_%s" % (f.op, f.arm.replace(",", "-").replace("=", ""), f.cls.replace(":", "-"), f.profile), fdict(f))
        print("VIOLATION property=C13 replay=%s" % p)
        print("   %s[%s] %s (%s profile): %s; %s -> real code: %s" % (f.op, f.arm, f.cls, f.profile, f.detail, f.human, f.native))
        code = V.EXIT_VIOLATION
    if (bad or qs.undecided) and code == V.EXIT_OK:
        for f in bad[:10]:
            log("NON-REPRODUCING:", json.dumps(fdict(f), default=str)[:500])
        for u in qs.undecided[:10]:
            log("UNDECIDED:", u)
        code = V.EXIT_INCONCLUSIVE
        print("INCONCLUSIVE property=C13 non_reproducing=%d undecided=%d" % (len(bad), len(qs.undecided)))
    nknown = len([f for f in findings if f.confirmed and f.key() in known])
    coverage = {
        "obligations": qs.obligations - nknown, "discharged": qs.discharged,
        "obligations_violated_by_listed_known_findings": nknown,
        "checker_cmd": "python3-vt checks/c13_main.py --tier %s" % a.tier,
        "trusted_base": ["rustc MIR dump of `bytecode` (both overflow profiles)",
                         "mirsym interpreter, validated on this run against the real BuiltInFunction::run on %s vectors (result, receiver contents and argument contents compared)" % info["validation_vectors"],
                         "pointer model of gc::Gc / GcCell with borrow flags (mirsym/gcmodels.py); contract models of Vec::{push,remove,clear,reverse,append,extend,len}, slice::to_vec, Iterator::{enumerate,find}",
                         "std models used: " + ", ".join(sorted(set(sum(info["models"].values(), [])))),
                         "sequence model: /verif/mirsym/listkernels.py oracle(), /verif/mirsym/bridgekernels.py expected_result()",
                         "the callback-bridge driver loop of Function::run (6 lines) is replicated in bridgekernels._drive and in the native harness"],
        "functions_encoded": info["functions"], "paths": info["paths"],
        "bounds": "list methods len, push, remove, reverse, clear, clone, index_of, join (other list / the receiver itself): receiver of 0..%d elements, argument list of 0..%d elements, every element and every index/value argument a full-width symbolic i32 (elements of kind int only); one operation from an arbitrary state (inductive step). map / filter: receiver of 0..%d elements, the built-in plus the three bridge methods from their MIR, the driver loop of Function::run replicated, callback results arbitrary (int / bool). Index read a[i] (vec_op with the index in a local variable of kind int / bigint / byte, any value): the result is a reference to element i of the same list iff 0 <= i < len, else the instruction fails. Compound element assignment a[k] op= v (bin_op_assign through an element pointer, op in += -= *= /= %%=, int elements and value): position k holds e[k] op v with the operands in this order, other elements untouched, the value of the assignment is the new element, a failing assignment changes nothing (which operand values make the arithmetic fail is C05/C17). The same on string elements for `+=` (append, not prepend). List equality `a == b` (Primitive::equals, lists of 0..2 ints each, and one level of nesting [[..]] == [[..]]): equal iff same length and equal elements. Maps, plain index assignment (`mut`), nested lists, longer lists, other element kinds, callbacks that fail or mutate the list outside" % (L.NMAX.get(a.tier, 3), L.MMAX.get(a.tier, 2), BR.NMAX.get(a.tier, 3)),
        "vacuity_witnesses": info["witnesses"],
        "solver_time_s": round(qs.solver_s, 2),
        "samples": qs.samples[:8] + [fdict(f) for f in list(new.values())[:4]],
        "known_findings_reported": len(listed), "new_violations": len(new),
    }
    V.write_evidence("C13", a.tier, "proof", coverage,
                     ["aliases of a list are clones of one Gc pointer: what the operation leaves in the shared cell is what every alias observes (gc crate semantics, modelled)",
                      "the interpreter hands the built-in clones of the operands (BuiltInFunction::run's own argument loop is executed)",
                      "element kind int only: Primitive::clone / equals of other kinds are not exercised here"], time.time() - t0, len(new))
    log("C13: %d obligations, %d discharged, %d known keys, %d new, %d non-reproducing, %d undecided, %.1fs" % (
        qs.obligations, qs.discharged, len(listed), len(new), len(bad), len(qs.undecided), time.time() - t0))
    return code


def replay(nat, path):
    d = json.load(open(path))
    w = [(k, int(v, 16) if isinstance(v, str) else v) for k, v in d["witness"]]
    got = L.norm_native(nat.eval_raw([("r0", d["native_op"], w)], d["profile"] == "release")["r0"])
    print("replay: %s -> %s (recorded: %s)" % (d.get("human"), got, d.get("native")))
    if got == d.get("native"):
        print("VIOLATION property=C13 replay=%s" % path)
        return V.EXIT_VIOLATION
    print("not reproduced on the current tree")
    return V.EXIT_OK


if __name__ == "__main__":
    sys.exit(main())
