"""Models of std / anyhow / log callees, each a direct transcription of the documented contract.

A model is `h(ex, st, callee, args) -> [(cond | None, value | Panic)]`; more than one entry forks.
Every model that is used is listed in the evidence (`Executor.stats['models_used']`).
"""
import re
import z3
from sym import (Sc, Adt, Ref, Opaque, Panic, Inconclusive, UNIT, INT_TYPES, F64, RNE, bv, boolv, overflowing,
                 int_to_int, int_to_f64, f64_to_int_sat, fmod, int_min, int_max, is_int_ty)

NUM = r"(?:i8|i16|i32|i64|i128|isize|u8|u16|u32|u64|u128|usize|f64)"
INT = r"(?:i8|i16|i32|i64|i128|isize|u8|u16|u32|u64|u128|usize)"


class Models:
    def __init__(self):
        self.table = []
        self.cache = {}

    def add(self, pattern, handler):
        self.table.append((re.compile(pattern), handler))

    def lookup(self, callee):
        if callee in self.cache:
            return self.cache[callee]
        for r, h in self.table:
            if r.search(callee):
                self.cache[callee] = h
                return h
        self.cache[callee] = None
        return None


def some(v):
    return Adt("Option", "Some", [v])


NONE = Adt("Option", "None", [])


def ok(v):
    return Adt("Result", "Ok", [v])


def err(e):
    return Adt("Result", "Err", [e])


def scalar(ex, st, v):
    v = ex.deref(st, v)
    if not isinstance(v, Sc):
        raise Inconclusive("expected scalar, got %r" % (v,))
    return v


# ------------------------------------------------------------------ operator trait impls on primitives
_arith_re = re.compile(r"^<(&?)(%s) as (?:std::ops::|core::ops::)?(Add|Sub|Mul|Div|Rem|BitAnd|BitOr|BitXor|Shl|Shr)(?:<(&?)(%s)>)?>::\w+$" % (NUM, NUM))


def m_arith(ex, st, callee, args):
    """`<&T as Op<U>>::op` forwarding impls and `<T as Op>::op`: `#[rustc_inherit_overflow_checks]`, i.e. the
    arithmetic behaves as in the calling crate's profile; division checks are unconditional."""
    m = _arith_re.match(callee)
    op = m.group(3)
    a = scalar(ex, st, args[0])
    b = scalar(ex, st, args[1])
    return arith(ex, op, a, b)


def arith(ex, op, a, b):
    if a.ty == "f64":
        return [(None, ex.fbinop(op, a, b))]
    bits, signed = INT_TYPES[a.ty]
    if op in ("Add", "Sub", "Mul"):
        res, ovf = overflowing(op, a.ty, a.e, b.e)
        if ex.oc:
            return [(z3.Not(ovf), Sc(a.ty, res)),
                    (ovf, Panic("attempt to %s with overflow" % {"Add": "add", "Sub": "subtract", "Mul": "multiply"}[op]))]
        return [(None, Sc(a.ty, res))]
    if op in ("Div", "Rem"):
        zero = b.e == z3.BitVecVal(0, bits)
        outs = [(zero, Panic("attempt to %s by zero" % ("divide" if op == "Div" else "calculate the remainder with a divisor of zero")))]
        if signed:
            ov = z3.And(a.e == z3.BitVecVal(int_min(a.ty), bits), b.e == z3.BitVecVal(-1, bits))
            outs.append((z3.And(z3.Not(zero), ov), Panic("attempt to %s with overflow" % ("divide" if op == "Div" else "calculate the remainder"))))
            outs.append((z3.And(z3.Not(zero), z3.Not(ov)), ex.binop(op, a, b)))
        else:
            outs.append((z3.Not(zero), ex.binop(op, a, b)))
        return outs
    if op in ("BitAnd", "BitOr", "BitXor"):
        return [(None, ex.binop(op, a, b))]
    if op in ("Shl", "Shr"):
        yb = INT_TYPES[b.ty][0]
        inrange = z3.ULT(b.e, z3.BitVecVal(bits, yb)) if yb >= 8 else z3.BoolVal(True)
        if ex.oc:
            return [(inrange, ex.binop(op, a, b)), (z3.Not(inrange), Panic("attempt to shift with overflow"))]
        return [(None, ex.binop(op, a, b))]
    raise Inconclusive("arith op " + op)


_neg_re = re.compile(r"^<(&?)(%s) as (?:std::ops::|core::ops::)?(Neg|Not)>::\w+$" % NUM)


def m_neg(ex, st, callee, args):
    m = _neg_re.match(callee)
    a = scalar(ex, st, args[0])
    if m.group(3) == "Not":
        return [(None, ex.unop("Not", a))]
    if a.ty == "f64":
        return [(None, ex.unop("Neg", a))]
    bits, signed = INT_TYPES[a.ty]
    ovf = a.e == z3.BitVecVal(int_min(a.ty), bits)
    if ex.oc:
        return [(z3.Not(ovf), ex.unop("Neg", a)), (ovf, Panic("attempt to negate with overflow"))]
    return [(None, ex.unop("Neg", a))]


_cmp_re = re.compile(r"^<(&*)(%s|bool) as (PartialEq|PartialOrd)(?:<(&*)(%s|bool)>)?>::(eq|ne|lt|le|gt|ge)$" % (NUM, NUM))


def m_cmp(ex, st, callee, args):
    m = _cmp_re.match(callee)
    a = scalar(ex, st, args[0])
    b = scalar(ex, st, args[1])
    op = {"eq": "Eq", "ne": "Ne", "lt": "Lt", "le": "Le", "gt": "Gt", "ge": "Ge"}[m.group(6)]
    return [(None, ex.binop(op, a, b))]


# ------------------------------------------------------------------ checked_* / wrapping_* / abs / pow ...
_checked_re = re.compile(r"^core::num::<impl (%s)>::(checked|wrapping|overflowing|saturating)_(add|sub|mul|div|rem|shl|shr|neg|abs)$" % INT)


def m_checked(ex, st, callee, args):
    m = _checked_re.match(callee)
    ty, mode, op = m.group(1), m.group(2), m.group(3)
    bits, signed = INT_TYPES[ty]
    a = scalar(ex, st, args[0])
    if op in ("neg", "abs"):
        isneg = (a.e < 0) if signed else z3.BoolVal(False)
        ovf = (a.e == z3.BitVecVal(int_min(ty), bits)) if signed else (a.e != 0 if op == "neg" else z3.BoolVal(False))
        val = Sc(ty, -a.e) if op == "neg" else Sc(ty, z3.If(isneg, -a.e, a.e))
        if mode == "checked":
            return [(z3.Not(ovf), some(val)), (ovf, NONE)]
        if mode == "wrapping":
            return [(None, val)]
        raise Inconclusive(callee)
    b = scalar(ex, st, args[1])
    if op in ("add", "sub", "mul"):
        res, ovf = overflowing(op.capitalize(), ty, a.e, b.e)
        if mode == "checked":
            return [(z3.Not(ovf), some(Sc(ty, res))), (ovf, NONE)]
        if mode == "wrapping":
            return [(None, Sc(ty, res))]
        if mode == "overflowing":
            return [(None, Adt("()", None, [Sc(ty, res), Sc("bool", ovf)]))]
        if mode == "saturating":
            # clamp to the bound the exact result runs past: for add/sub the sign of b decides, for mul the sign of the exact product
            lo, hi = z3.BitVecVal(int_min(ty), bits), z3.BitVecVal(int_max(ty), bits)
            if not signed:
                bound = hi if op in ("add", "mul") else lo
            elif op == "add":
                bound = z3.If(b.e < 0, lo, hi)
            elif op == "sub":
                bound = z3.If(b.e < 0, hi, lo)
            else:
                bound = z3.If((a.e < 0) != (b.e < 0), lo, hi)
            return [(None, Sc(ty, z3.If(ovf, bound, res)))]
        raise Inconclusive(callee)
    if op in ("div", "rem"):
        zero = b.e == 0
        bad = zero
        if signed:
            bad = z3.Or(zero, z3.And(a.e == z3.BitVecVal(int_min(ty), bits), b.e == z3.BitVecVal(-1, bits)))
        val = ex.binop("Div" if op == "div" else "Rem", a, b)
        if mode == "checked":
            return [(z3.Not(bad), some(val)), (bad, NONE)]
        raise Inconclusive(callee)
    if op in ("shl", "shr"):
        # rhs is u32; None iff rhs >= BITS, otherwise the plain (bit-dropping) shift
        inrange = z3.ULT(b.e, z3.BitVecVal(bits, 32))
        val = ex.binop("Shl" if op == "shl" else "Shr", a, b)
        if mode == "checked":
            return [(inrange, some(val)), (z3.Not(inrange), NONE)]
        if mode == "wrapping":
            return [(None, val)]
    raise Inconclusive(callee)


_minmax_re = re.compile(r"^(?:std|core)::cmp::(min|max)::<(%s)>$|^<(%s) as Ord>::(min|max)$" % (INT, INT))


def m_minmax(ex, st, callee, args):
    m = _minmax_re.match(callee)
    fn = m.group(1) or m.group(4)
    ty = m.group(2) or m.group(3)
    _, signed = INT_TYPES[ty]
    a, b = scalar(ex, st, args[0]), scalar(ex, st, args[1])
    lt = (a.e < b.e) if signed else z3.ULT(a.e, b.e)
    return [(None, Sc(ty, z3.If(lt, a.e, b.e) if fn == "min" else z3.If(lt, b.e, a.e)))]


_euclid_re = re.compile(r"^core::num::<impl (%s)>::(checked_)?(rem|div)_euclid$" % INT)


def m_euclid(ex, st, callee, args):
    m = _euclid_re.match(callee)
    ty, checked, which = m.group(1), bool(m.group(2)), m.group(3)
    bits, signed = INT_TYPES[ty]
    a = scalar(ex, st, args[0])
    b = scalar(ex, st, args[1])
    zero = b.e == 0
    bad = zero
    if signed:
        bad = z3.Or(zero, z3.And(a.e == z3.BitVecVal(int_min(ty), bits), b.e == z3.BitVecVal(-1, bits)))
        r = z3.SRem(a.e, b.e)
        q = a.e / b.e
        absb = z3.If(b.e < 0, -b.e, b.e)
        rem = z3.If(r < 0, r + absb, r)
        div = z3.If(r < 0, z3.If(b.e > 0, q - 1, q + 1), q)
    else:
        rem = z3.URem(a.e, b.e)
        div = z3.UDiv(a.e, b.e)
    val = Sc(ty, rem if which == "rem" else div)
    if checked:
        return [(z3.Not(bad), some(val)), (bad, NONE)]
    return [(z3.Not(bad), val), (bad, Panic("attempt to %s with overflow or by zero" % which))]


_abs_re = re.compile(r"^core::num::<impl (%s)>::(abs|unsigned_abs|signum|is_negative|is_positive)$" % INT)


def m_abs(ex, st, callee, args):
    m = _abs_re.match(callee)
    ty, fn = m.group(1), m.group(2)
    bits, signed = INT_TYPES[ty]
    a = scalar(ex, st, args[0])
    if fn == "abs":
        # `abs` is `#[rustc_inherit_overflow_checks]`: MIN.abs() panics with overflow checks, wraps to MIN without
        ovf = a.e == z3.BitVecVal(int_min(ty), bits)
        val = Sc(ty, z3.If(a.e < 0, -a.e, a.e))
        if ex.oc:
            return [(z3.Not(ovf), val), (ovf, Panic("attempt to negate with overflow"))]
        return [(None, val)]
    if fn == "is_negative":
        return [(None, Sc("bool", a.e < 0))]
    if fn == "is_positive":
        return [(None, Sc("bool", a.e > 0))]
    raise Inconclusive(callee)


_bits_re = re.compile(r"^core::num::<impl (%s)>::(trailing_zeros|leading_zeros|count_ones|count_zeros|is_power_of_two)$" % INT)


def m_bits(ex, st, callee, args):
    """bit-counting methods of the integer types (contract: std documentation), as If-chains over the bits"""
    m = _bits_re.match(callee)
    ty, fn = m.group(1), m.group(2)
    bits, signed = INT_TYPES[ty]
    a = scalar(ex, st, args[0])
    bit = lambda i: z3.Extract(i, i, a.e) == z3.BitVecVal(1, 1)
    u32 = lambda n: z3.BitVecVal(n, 32)
    if fn == "trailing_zeros":
        r = u32(bits)
        for i in range(bits - 1, -1, -1):
            r = z3.If(bit(i), u32(i), r)
        return [(None, Sc("u32", r))]
    if fn == "leading_zeros":
        r = u32(bits)
        for i in range(bits):
            r = z3.If(bit(i), u32(bits - 1 - i), r)
        return [(None, Sc("u32", r))]
    if fn in ("count_ones", "count_zeros"):
        r = u32(0)
        for i in range(bits):
            r = r + z3.If(bit(i) if fn == "count_ones" else z3.Not(bit(i)), u32(1), u32(0))
        return [(None, Sc("u32", r))]
    if fn == "is_power_of_two" and not signed:
        return [(None, Sc("bool", z3.And(a.e != 0, (a.e & (a.e - 1)) == 0)))]
    raise Inconclusive(callee)


_range_new_re = re.compile(r"^(?:std|core)::ops::(?:range::)?RangeInclusive::<(\w+)>::new$")
_range_contains_re = re.compile(r"^(?:std|core)::ops::(?:range::)?RangeInclusive::<(\w+)>::contains::<(\w+)>$")


def m_range_new(ex, st, callee, args):
    """RangeInclusive::new(a, b): the pair of its bounds"""
    return [(None, Adt("RangeInclusive", None, [scalar(ex, st, args[0]), scalar(ex, st, args[1])]))]


def m_range_contains(ex, st, callee, args):
    """(a..=b).contains(&x)  ==  a <= x && x <= b   (PartialOrd of the element type: IEEE comparison for floats)"""
    r = ex.deref(st, args[0]) if isinstance(args[0], Ref) else args[0]
    if not (isinstance(r, Adt) and r.ty == "RangeInclusive"):
        raise Inconclusive("contains on %r" % (r,))
    a, b = r.fields
    x = scalar(ex, st, args[1])
    if a.ty == "f64":
        c = z3.And(z3.fpLEQ(a.e, x.e), z3.fpLEQ(x.e, b.e))
    elif a.ty in INT_TYPES:
        signed = INT_TYPES[a.ty][1]
        c = z3.And(a.e <= x.e, x.e <= b.e) if signed else z3.And(z3.ULE(a.e, x.e), z3.ULE(x.e, b.e))
    else:
        raise Inconclusive("RangeInclusive<%s>::contains" % a.ty)
    return [(None, Sc("bool", c))]


# ------------------------------------------------------------------ conversions
_tryinto_re = re.compile(r"^<(%s) as (TryInto|TryFrom)<(%s)>>::(try_into|try_from)$" % (INT, INT))


def m_tryinto(ex, st, callee, args):
    m = _tryinto_re.match(callee)
    if m.group(2) == "TryInto":
        src, dst = m.group(1), m.group(3)
    else:
        dst, src = m.group(1), m.group(3)
    a = scalar(ex, st, args[0])
    if a.ty != src:
        raise Inconclusive("try_into operand type %s != %s" % (a.ty, src))
    fits = int_fits(a, dst)
    return [(fits, ok(Sc(dst, int_to_int(src, a.e, dst)))), (z3.Not(fits), err(Opaque("TryFromIntError")))]


def int_fits(a, dst):
    sb, ss = INT_TYPES[a.ty]
    db, ds = INT_TYPES[dst]
    conv = int_to_int(a.ty, a.e, dst)
    back = int_to_int(dst, conv, a.ty) if db != sb else conv
    same = back == a.e
    # sign interpretation must agree as well
    if ss and not ds:
        return z3.And(same, a.e >= 0) if db >= sb else z3.And(same, a.e >= 0)
    if not ss and ds:
        if db > sb:
            return z3.BoolVal(True)
        return z3.And(same, conv >= 0)
    return same


_from_re = re.compile(r"^<(%s) as (From|Into)<(%s)>>::(from|into)$" % (NUM, NUM))


def m_from(ex, st, callee, args):
    m = _from_re.match(callee)
    if m.group(2) == "Into":
        src, dst = m.group(1), m.group(3)
    else:
        dst, src = m.group(1), m.group(3)
    a = scalar(ex, st, args[0])
    if dst == "f64":
        if src == "f64":
            return [(None, a)]
        return [(None, Sc("f64", int_to_f64(src, a.e)))]
    return [(None, Sc(dst, int_to_int(src, a.e, dst)))]


# ------------------------------------------------------------------ Option / Result plumbing
def m_try_branch(ex, st, callee, args):
    v = ex.deref(st, args[0])
    if not isinstance(v, Adt):
        raise Inconclusive("Try::branch on %r" % (v,))
    if v.ty == "Result":
        if v.variant == "Ok":
            return [(None, Adt("ControlFlow", "Continue", [v.fields[0]]))]
        return [(None, Adt("ControlFlow", "Break", [Adt("Result", "Err", [v.fields[0]])]))]
    if v.ty == "Option":
        if v.variant == "Some":
            return [(None, Adt("ControlFlow", "Continue", [v.fields[0]]))]
        return [(None, Adt("ControlFlow", "Break", [NONE]))]
    raise Inconclusive("Try::branch on %r" % (v,))


def m_from_residual(ex, st, callee, args):
    v = ex.deref(st, args[0])
    if isinstance(v, Adt) and v.ty == "Result" and v.variant == "Err":
        if callee.startswith("<std::result::Result<") or callee.startswith("<Result<"):
            return [(None, err(Opaque("anyhow", ("from", v.fields[0]))))]
    if isinstance(v, Adt) and v.ty == "Option" and v.variant == "None":
        return [(None, NONE)]
    raise Inconclusive("from_residual on %r" % (v,))


def m_context(ex, st, callee, args):
    v = ex.deref(st, args[0])
    if isinstance(v, Adt) and v.ty == "Option":
        if v.variant == "Some":
            return [(None, ok(v.fields[0]))]
        return [(None, err(Opaque("anyhow", ("context", args[1]))))]
    if isinstance(v, Adt) and v.ty == "Result":
        if v.variant == "Ok":
            return [(None, v)]
        return [(None, err(Opaque("anyhow", ("context", args[1], v.fields[0]))))]
    raise Inconclusive("context on %r" % (v,))


def m_opt_pred(ex, st, callee, args):
    v = ex.deref(st, args[0])
    if not isinstance(v, Adt):
        raise Inconclusive("%s on %r" % (callee, v))
    name = callee.rsplit("::", 1)[1]
    table = {"is_none": ("Option", "None"), "is_some": ("Option", "Some"), "is_ok": ("Result", "Ok"), "is_err": ("Result", "Err")}
    ty, var = table[name]
    if v.ty != ty:
        raise Inconclusive("%s on %r" % (callee, v))
    return [(None, boolv(v.variant == var))]


def m_unwrap(ex, st, callee, args):
    v = ex.deref(st, args[0])
    name = callee.rsplit("::", 1)[1].split("::<")[0]
    if isinstance(v, Adt) and v.ty == "Option":
        if v.variant == "Some":
            return [(None, v.fields[0])]
        return [(None, Panic("called `Option::%s()` on a `None` value" % name))]
    if isinstance(v, Adt) and v.ty == "Result":
        if v.variant == "Ok":
            return [(None, v.fields[0])]
        return [(None, Panic("called `Result::%s()` on an `Err` value" % name))]
    raise Inconclusive("%s on %r" % (callee, v))


def m_opt_take(ex, st, callee, args):
    """Option::take(&mut self): returns the value, leaves None behind"""
    r = args[0]
    if not isinstance(r, Ref):
        raise Inconclusive("Option::take on non-reference")
    v = ex.read(st, r.cell, r.path)
    while isinstance(v, Ref):
        r = v
        v = ex.read(st, r.cell, r.path)
    if not (isinstance(v, Adt) and v.ty == "Option"):
        raise Inconclusive("Option::take on %r" % (v,))
    ex.write(st, r.cell, r.path, NONE)
    return [(None, v)]


def m_unwrap_or(ex, st, callee, args):
    v = ex.deref(st, args[0]) if isinstance(args[0], Ref) else args[0]
    if isinstance(v, Adt) and v.ty == "Option":
        return [(None, v.fields[0] if v.variant == "Some" else args[1])]
    if isinstance(v, Adt) and v.ty == "Result":
        return [(None, v.fields[0] if v.variant == "Ok" else args[1])]
    raise Inconclusive("unwrap_or on %r" % (v,))


def m_result_ok(ex, st, callee, args):
    v = ex.deref(st, args[0])
    if isinstance(v, Adt) and v.ty == "Result":
        return [(None, some(v.fields[0]) if v.variant == "Ok" else NONE)]
    raise Inconclusive("%s on %r" % (callee, v))


# ------------------------------------------------------------------ error construction / formatting / logging: opaque
def m_opaque_error(ex, st, callee, args):
    return [(None, Opaque("anyhow", (callee.split("::")[-1], tuple(args))))]


def m_opaque_fmt(ex, st, callee, args):
    return [(None, Opaque("fmt", (callee, tuple(args))))]


def m_unit(ex, st, callee, args):
    return [(None, UNIT)]


def m_log_enabled(ex, st, callee, args):
    """`Level <= LevelFilter` / `max_level()`: logging configuration is environment -> arbitrary"""
    return [(None, ex.fresh("bool", "log_enabled"))]


def m_identity(ex, st, callee, args):
    return [(None, args[0])]


def m_deref(ex, st, callee, args):
    v = args[0]
    if isinstance(v, Ref):
        inner = ex.read(st, v.cell, v.path)
        if isinstance(inner, Ref):
            return [(None, inner)]
        if isinstance(inner, Adt) and inner.ty == "Box":
            return [(None, Ref(v.cell, v.path + (0,)))]
    raise Inconclusive("Deref::deref on %r" % (v,))


# ------------------------------------------------------------------ f64 methods
_f64_re = re.compile(r"^(?:(?:std|core)::)?f64::<impl f64>::(abs|sqrt|floor|ceil|trunc|round|fract|is_nan|is_infinite|is_finite|to_bits|from_bits|powi|powf|is_sign_negative|copysign)$")


def f64_round_half_away(x):
    """f64::round: nearest integer, ties away from zero"""
    return z3.fpRoundToIntegral(z3.RNA(), x)


def m_f64(ex, st, callee, args):
    fn = _f64_re.match(callee).group(1)
    a = scalar(ex, st, args[0])
    x = a.e
    if fn == "abs":
        return [(None, Sc("f64", z3.fpAbs(x)))]
    if fn == "sqrt":
        return [(None, Sc("f64", z3.fpSqrt(RNE, x)))]
    if fn == "floor":
        return [(None, Sc("f64", z3.fpRoundToIntegral(z3.RTN(), x)))]
    if fn == "ceil":
        return [(None, Sc("f64", z3.fpRoundToIntegral(z3.RTP(), x)))]
    if fn == "trunc":
        return [(None, Sc("f64", z3.fpRoundToIntegral(z3.RTZ(), x)))]
    if fn == "round":
        return [(None, Sc("f64", f64_round_half_away(x)))]
    if fn == "fract":
        return [(None, Sc("f64", z3.fpSub(RNE, x, z3.fpRoundToIntegral(z3.RTZ(), x))))]
    if fn == "is_nan":
        return [(None, Sc("bool", z3.fpIsNaN(x)))]
    if fn == "is_infinite":
        return [(None, Sc("bool", z3.fpIsInf(x)))]
    if fn == "is_finite":
        return [(None, Sc("bool", z3.Not(z3.Or(z3.fpIsInf(x), z3.fpIsNaN(x)))))]
    if fn == "to_bits":
        return [(None, Sc("u64", z3.fpToIEEEBV(x)))]
    if fn in ("powi", "powf"):
        b = scalar(ex, st, args[1])
        f = UF_POWI if fn == "powi" else UF_POWF
        return [(None, Sc("f64", f(x, b.e)))]
    raise Inconclusive(callee)


UF_POWI = z3.Function("f64_powi", F64, z3.BitVecSort(32), F64)
UF_POWF = z3.Function("f64_powf", F64, F64, F64)


def m_panic_fmt(ex, st, callee, args):
    return [(None, Panic("explicit panic (%s)" % callee.split("::")[-1]))]


def m_abs_string(ex, st, callee, args):
    """abstract String: only its provenance is kept (kind-level reasoning; contents are not modelled here)"""
    return [(None, Opaque("String", (callee.split("::")[-1], tuple(repr(a)[:40] for a in args))))]


def m_abs_string_eq(ex, st, callee, args):
    """equality of two abstract strings: an arbitrary boolean"""
    a, b = _strlit(ex, st, args[0]), _strlit(ex, st, args[1])
    if a is not None and b is not None:
        return [(None, boolv((a.data == b.data) != callee.endswith("::ne")))]
    return [(None, ex.fresh("bool", "streq"))]


def m_str_repeat(ex, st, callee, args):
    return [(None, Opaque("String", ("repeat",)))]


# ------------------------------------------------------------------ Vec<T> / [T] with concrete length, str literals
def _vec_at(ex, st, ref):
    if not isinstance(ref, Ref):
        raise Inconclusive("Vec method on non-reference %r" % (ref,))
    v = ex.read(st, ref.cell, ref.path)
    n = 0
    while isinstance(v, Ref):          # &mut &mut Vec ..
        ref = v
        v = ex.read(st, ref.cell, ref.path)
        n += 1
        if n > 4:
            raise Inconclusive("reference chain")
    if not (isinstance(v, Adt) and v.ty in ("Vec", "[]")):
        raise Inconclusive("expected a Vec/slice, got %r" % (v,))
    return ref, v


def m_vec_pop(ex, st, callee, args):
    ref, v = _vec_at(ex, st, args[0])
    if not v.fields:
        return [(None, NONE)]
    ex.write(st, ref.cell, ref.path, Adt(v.ty, None, v.fields[:-1]))
    return [(None, some(v.fields[-1]))]


def m_vec_push(ex, st, callee, args):
    ref, v = _vec_at(ex, st, args[0])
    ex.write(st, ref.cell, ref.path, Adt(v.ty, None, v.fields + (args[1],)))
    return [(None, UNIT)]


def m_vec_clear(ex, st, callee, args):
    ref, v = _vec_at(ex, st, args[0])
    ex.write(st, ref.cell, ref.path, Adt(v.ty, None, ()))
    return [(None, UNIT)]


def m_vec_len(ex, st, callee, args):
    ref, v = _vec_at(ex, st, args[0])
    return [(None, bv("usize", len(v.fields)))]


def m_vec_is_empty(ex, st, callee, args):
    ref, v = _vec_at(ex, st, args[0])
    return [(None, boolv(len(v.fields) == 0))]


def m_slice_ref(ex, st, callee, args):
    """Deref/DerefMut/as_slice of a Vec: the slice is the same element sequence -> same reference"""
    ref, v = _vec_at(ex, st, args[0])
    return [(None, ref)]


def _concrete_index(ex, st, v):
    v = ex.deref(st, v)
    c = z3.simplify(v.e)
    if not z3.is_bv_value(c):
        raise Inconclusive("symbolic slice index")
    return c.as_long()


def m_slice_get(ex, st, callee, args):
    ref, v = _vec_at(ex, st, args[0])
    i = _concrete_index(ex, st, args[1])
    if i < len(v.fields):
        return [(None, some(Ref(ref.cell, ref.path + (i,))))]
    return [(None, NONE)]


def m_slice_first(ex, st, callee, args):
    ref, v = _vec_at(ex, st, args[0])
    if v.fields:
        return [(None, some(Ref(ref.cell, ref.path + (0,))))]
    return [(None, NONE)]


def m_slice_last(ex, st, callee, args):
    ref, v = _vec_at(ex, st, args[0])
    if v.fields:
        return [(None, some(Ref(ref.cell, ref.path + (len(v.fields) - 1,))))]
    return [(None, NONE)]


def _strlit(ex, st, v):
    v = ex.deref(st, v)
    if isinstance(v, Opaque) and v.tag == "strlit":
        return v
    return None


def m_vec_with_capacity(ex, st, callee, args):
    return [(None, Adt("Vec", None, ()))]


def m_vec_append(ex, st, callee, args):
    """Vec::append(&mut self, other: &mut Vec): moves all elements of other to the end of self, leaving other empty"""
    r1, v1 = _vec_at(ex, st, args[0])
    r2, v2 = _vec_at(ex, st, args[1])
    ex.write(st, r1.cell, r1.path, Adt(v1.ty, None, v1.fields + v2.fields))
    ex.write(st, r2.cell, r2.path, Adt(v2.ty, None, ()))
    return [(None, UNIT)]


def m_iter_mut(ex, st, callee, args):
    """[T]::iter / iter_mut: an iterator = (reference to the sequence, next index)"""
    ref, v = _vec_at(ex, st, args[0])
    return [(None, Adt("SliceIter", None, [ref, bv("usize", 0)]))]


def m_iter_next(ex, st, callee, args):
    r = args[0]
    it = ex.read(st, r.cell, r.path)
    if not (isinstance(it, Adt) and it.ty == "SliceIter"):
        raise Inconclusive("Iterator::next on %r" % (it,))
    seq_ref, idx = it.fields
    i = z3.simplify(idx.e).as_long()
    ref, v = _vec_at(ex, st, seq_ref)
    if i >= len(v.fields):
        return [(None, NONE)]
    ex.write(st, r.cell, r.path, Adt("SliceIter", None, [seq_ref, bv("usize", i + 1)]))
    return [(None, some(Ref(ref.cell, ref.path + (i,))))]


def pow_stepwise(ty, x, n):
    """x**n on machine type ty as n multiplications, each checked in double width: (wrapped result, overflowed).
    Exact: for |x| >= 2 magnitudes grow monotonically, so an intermediate overflow implies overflow of the final power;
    for x in {-1, 0, 1} no step overflows."""
    bits, signed = INT_TYPES[ty]
    acc = z3.BitVecVal(1, bits)
    ovf = z3.BoolVal(False)
    for _ in range(n):
        acc, o = overflowing("Mul", ty, acc, x)
        ovf = z3.Or(ovf, o)
    return acc, ovf


POW_TABLE_MIN_EXP = 43


def pow_table(ty, x, n):
    """x**n for a LARGE concrete exponent n >= 43 on a type of at most 128 bits: exact without any multiplication, because only
    the bases -7..7 can have a representable power (|x| >= 8 gives |x|**n >= 2**129); (wrapped result, overflowed)"""
    bits, signed = INT_TYPES[ty]
    assert n >= POW_TABLE_MIN_EXP and bits <= 128
    lo = -(1 << (bits - 1)) if signed else 0
    hi = (1 << (bits - 1)) - 1 if signed else (1 << bits) - 1
    # beyond the table: overflow; the wrapped value is not modelled there (kept as a fresh unconstrained term by the caller's guard)
    res = z3.BitVec("pow_wrapped_%d_%d" % (bits, n), bits)
    ovf = z3.BoolVal(True)
    for b in range(-7 if signed else 0, 8):
        p = b ** n
        fits = lo <= p <= hi
        hit = x == z3.BitVecVal(b, bits)
        res = z3.If(hit, z3.BitVecVal(p & ((1 << bits) - 1), bits), res)
        ovf = z3.If(hit, z3.BoolVal(not fits), ovf)
    return res, ovf


_pow_re = re.compile(r"^core::num::<impl (%s)>::(pow|checked_pow|wrapping_pow)$" % INT)
POW_MAX_EXP = 8


def m_int_pow(ex, st, callee, args):
    """self.pow(exp: u32): exact power; `pow` is #[rustc_inherit_overflow_checks] (panics on overflow with checks on, wraps
    without).  The exponent must be concrete and <= POW_MAX_EXP (stated bound of the claim)."""
    m = _pow_re.match(callee)
    ty, fn = m.group(1), m.group(2)
    bits, signed = INT_TYPES[ty]
    a = scalar(ex, st, args[0])
    e = z3.simplify(scalar(ex, st, args[1]).e)
    if not z3.is_bv_value(e):
        raise Inconclusive("pow with a symbolic exponent (the check instantiates exponents 0..%d)" % POW_MAX_EXP)
    n = e.as_long()
    if n > POW_MAX_EXP and n < POW_TABLE_MIN_EXP:
        raise Inconclusive("pow exponent %d beyond the stated bound" % n)
    res, ovf = pow_stepwise(ty, a.e, n) if n <= POW_MAX_EXP else pow_table(ty, a.e, n)
    val = Sc(ty, res)
    if fn == "checked_pow":
        return [(z3.Not(ovf), some(val)), (ovf, NONE)]
    if fn == "wrapping_pow" or not ex.oc:
        return [(None, val)]
    return [(z3.Not(ovf), val), (ovf, Panic("attempt to multiply with overflow"))]


def m_str_view(ex, st, callee, args):
    """String::as_str / Deref on a *concrete* string keeps the literal; abstract strings stay abstract"""
    lit = _strlit(ex, st, args[0])
    if lit is not None:
        return [(None, lit)]
    return m_abs_string(ex, st, callee, args)


def m_str_eq(ex, st, callee, args):
    a, b = _strlit(ex, st, args[0]), _strlit(ex, st, args[1])
    if a is None or b is None:
        raise Inconclusive("comparison of abstract strings")
    r = (a.data == b.data)
    if callee.endswith("::ne"):
        r = not r
    return [(None, boolv(r))]


def m_map_ctor(ex, st, callee, args):
    """Option::map / Result::map whose function is an enum-variant constructor (fn item)"""
    v = ex.deref(st, args[0]) if isinstance(args[0], Ref) else args[0]
    f = args[1]
    import sym as _s
    if isinstance(f, Opaque) and f.tag == "const" and f.data.strip() in ("String::as_str", "<String as Deref>::deref"):
        if isinstance(v, Adt) and v.ty == "Option":
            if v.variant == "None":
                return [(None, NONE)]
            return [(None, some(m_str_view(ex, st, "String::as_str", [v.fields[0]])[0][1]))]
        raise Inconclusive("map(String::as_str) on %r" % (v,))
    if isinstance(f, Adt) and f.ty in _s.ENUMS and not f.fields:
        segs = [f.ty, f.variant]      # a tuple-variant constructor used as a function item
    elif isinstance(f, Opaque) and f.tag == "const":
        segs = _s.path_segments(f.data)
    else:
        raise Inconclusive("map with a non-constructor function %r" % (f,))
    if not (len(segs) >= 2 and segs[-2] in _s.ENUMS and segs[-1] in _s.ENUMS[segs[-2]]):
        # a std function item with a single-result model (e.g. `<i128 as From<i32>>::from`): apply the model to the payload
        h = ex.models.lookup(f.data.strip()) if isinstance(f, Opaque) and f.tag == "const" else None
        if h is not None and isinstance(v, Adt) and v.ty in ("Option", "Result"):
            if v.variant in ("None", "Err"):
                return [(None, v)]
            res = h(ex, st, f.data.strip(), [v.fields[0]])
            if len(res) == 1 and res[0][0] is None:
                return [(None, Adt(v.ty, v.variant, [res[0][1]]))]
        raise Inconclusive("map with function %s" % f.data)
    wrap = lambda x: Adt(segs[-2], segs[-1], [x])
    if isinstance(v, Adt) and v.ty == "Option":
        return [(None, some(wrap(v.fields[0])) if v.variant == "Some" else NONE)]
    if isinstance(v, Adt) and v.ty == "Result":
        return [(None, ok(wrap(v.fields[0])) if v.variant == "Ok" else v)]
    raise Inconclusive("map on %r" % (v,))


def m_opt_as_ref(ex, st, callee, args):
    """Option::<T>::as_ref / as_mut (&Option<T> -> Option<&T>) and as_deref (additionally through Cow / Box / String)"""
    r = args[0]
    if not isinstance(r, Ref):
        raise Inconclusive("%s on non-reference" % callee)
    o = ex.read(st, r.cell, r.path)
    while isinstance(o, Ref):
        r = o
        o = ex.read(st, r.cell, r.path)
    if not (isinstance(o, Adt) and o.ty == "Option"):
        raise Inconclusive("%s on %r" % (callee, o))
    if o.variant == "None":
        return [(None, NONE)]
    inner_ref = Ref(r.cell, r.path + (0,))
    if "as_deref" in callee:
        inner = o.fields[0]
        if isinstance(inner, Adt) and inner.ty == "Cow":
            return [(None, some(inner.fields[0] if inner.variant == "Borrowed" else Ref(r.cell, r.path + (0, 0))))]
        if isinstance(inner, Opaque):
            return [(None, some(inner))]
        raise Inconclusive("as_deref through %r" % (inner,))
    return [(None, some(inner_ref))]


# ------------------------------------------------------------------ Box<T>: Box(Unique(NonNull = reference to a heap cell))
def _box_target(ex, st, v):
    """reference to the heap cell a Box value (or a reference to a Box) points to"""
    n = 0
    while isinstance(v, Ref) and n < 6:
        inner = ex.read(st, v.cell, v.path)
        if isinstance(inner, Adt) and inner.ty == "Box":
            v = inner
            break
        if isinstance(inner, Ref):
            v = inner
            n += 1
            continue
        raise Inconclusive("expected a Box, got %r" % (inner,))
    if not (isinstance(v, Adt) and v.ty == "Box"):
        raise Inconclusive("expected a Box, got %r" % (v,))
    u = v.fields[0]
    while isinstance(u, Adt) and u.ty in ("Unique", "NonNull"):
        u = u.fields[0]
    if not isinstance(u, Ref):
        raise Inconclusive("malformed Box %r" % (v,))
    return u


def new_box(st, value):
    st.nframe += 1
    key = ("box", st.nframe)
    st.cells[key] = value
    return Adt("Box", None, [Adt("Unique", None, [Ref(key)]), Adt("Global", None, [])])


def m_box_as_ref(ex, st, callee, args):
    return [(None, _box_target(ex, st, args[0]))]


def m_box_new(ex, st, callee, args):
    return [(None, new_box(st, args[0]))]


def m_box_clone(ex, st, callee, args):
    """<Box<T> as Clone>::clone: a new allocation holding a clone of the (immutable) value tree"""
    t = _box_target(ex, st, args[0])
    return [(None, new_box(st, ex.read(st, t.cell, t.path)))]


def m_clone_value(ex, st, callee, args):
    """clone / to_owned of a value tree without shared interior: the same (immutable) value"""
    return [(None, ex.deref(st, args[0]))]


# ------------------------------------------------------------------ interpreter variables (named cells), for `bin_op_assign`
def m_load_variable(ex, st, callee, args):
    """Ctx::load_variable(name) -> Option<PrimitiveFlagsPair>: the variable cell set up by the kernel driver under ("var", name)"""
    lit = _strlit(ex, st, args[1])
    if lit is None:
        raise Inconclusive("load_variable with a non-literal name")
    key = ("var", lit.data.strip('"'))
    if key not in st.cells:
        return [(None, NONE)]
    return [(None, some(Adt("PrimitiveFlagsPair", None, [Ref(key)])))]


def _pair_ref(ex, st, v):
    v = ex.deref(st, v) if isinstance(v, Ref) else v
    if isinstance(v, Adt) and v.ty == "PrimitiveFlagsPair":
        return v.fields[0]
    raise Inconclusive("expected a variable cell, got %r" % (v,))


def m_pair_primitive(ex, st, callee, args):
    """PrimitiveFlagsPair::primitive() -> GcCellRef<Primitive>: a borrow of the cell's value"""
    return [(None, Adt("GcCellRef", None, [_pair_ref(ex, st, args[0])]))]


def m_gccellref_deref(ex, st, callee, args):
    v = ex.deref(st, args[0]) if isinstance(args[0], Ref) else args[0]
    if isinstance(v, Adt) and v.ty == "GcCellRef":
        return [(None, v.fields[0])]
    raise Inconclusive("GcCellRef::deref on %r" % (v,))


def m_pair_set_primitive(ex, st, callee, args):
    r = _pair_ref(ex, st, args[0])
    old = ex.read(st, r.cell, r.path)
    ex.write(st, r.cell, r.path, args[1])
    return [(None, old)]


def m_effect_ok(ex, st, callee, args):
    """interpreter side effect outside the kernel (variable registration): recorded, returns Ok(())"""
    st.effects.append((callee.split("::")[-1], tuple(ex.deref(st, a) if isinstance(a, Ref) and i > 0 else a for i, a in enumerate(args[1:], 1))))
    return [(None, ok(UNIT))]


def m_effect_unit(ex, st, callee, args):
    st.effects.append((callee.split("::")[-1], tuple(args[1:])))
    return [(None, UNIT)]


def m_parse_literal(ex, st, callee, args):
    """str::parse::<int> of a concrete string literal"""
    lit = _strlit(ex, st, args[0])
    if lit is None:
        raise Inconclusive("parse of a non-literal string")
    ty = re.search(r"parse::<(\w+)>$", callee).group(1)
    text = lit.data.strip('"')
    try:
        v = int(text, 10)
    except ValueError:
        return [(None, err(Opaque("ParseIntError")))]
    if re.fullmatch(r"[+-]?\d+", text) is None or not (int_min(ty) <= v <= int_max(ty)):
        return [(None, err(Opaque("ParseIntError")))]
    return [(None, ok(bv(ty, v)))]


# ------------------------------------------------------------------ Cow
def m_cow_as_ref(ex, st, callee, args):
    r = args[0]
    if not isinstance(r, Ref):
        raise Inconclusive("Cow::as_ref on %r" % (r,))
    c = ex.read(st, r.cell, r.path)
    while isinstance(c, Ref):
        r = c
        c = ex.read(st, r.cell, r.path)
    if isinstance(c, Adt) and c.ty == "Cow":
        if c.variant == "Borrowed":
            return [(None, c.fields[0])]
        return [(None, Ref(r.cell, r.path + (0,)))]
    raise Inconclusive("Cow::as_ref on %r" % (c,))


def m_cow_into_owned(ex, st, callee, args):
    c = ex.deref(st, args[0]) if isinstance(args[0], Ref) else args[0]
    if isinstance(c, Adt) and c.ty == "Cow":
        if c.variant == "Borrowed":
            return [(None, ex.deref(st, c.fields[0]))]   # clone of an immutable value tree
        return [(None, c.fields[0])]
    raise Inconclusive("Cow::into_owned on %r" % (c,))


def ordering_name(v):
    """'Less' | 'Equal' | 'Greater' of a std::cmp::Ordering value in any of the forms the executor produces"""
    if isinstance(v, Adt):
        return v.variant or v.ty
    if isinstance(v, Opaque) and v.tag == "const":
        return str(v.data).strip().split("::")[-1]
    if isinstance(v, Sc):
        c = z3.simplify(v.e)
        if z3.is_bv_value(c):
            return {0: "Equal", 1: "Greater"}.get(c.as_long(), "Less")
    raise Inconclusive("Ordering value %r" % (v,))


def m_default_partial_ord(ex, st, callee, args):
    """`<T as PartialOrd>::{lt,le,gt,ge}` of a crate type that does not override them: core's default, derived from the crate's
    own partial_cmp (`matches!(self.partial_cmp(other), Some(Less | Equal))` ...)"""
    from sym import Invoke
    own = ex.resolver(callee, 2)
    if own is not None:
        return [(None, Invoke(own, list(args), lambda st2, val: val))]
    op = callee.rsplit("::", 1)[1]
    pc_fn = ex.resolver(callee.rsplit("::", 1)[0] + "::partial_cmp", 2)
    if pc_fn is None:
        raise Inconclusive("unknown callee: " + callee)
    want = {"lt": ("Less",), "le": ("Less", "Equal"), "gt": ("Greater",), "ge": ("Greater", "Equal")}[op]

    def conv(st2, val):
        if not (isinstance(val, Adt) and val.ty == "Option"):
            raise Inconclusive("partial_cmp returned %r" % (val,))
        return boolv(val.variant == "Some" and ordering_name(val.fields[0]) in want)
    return [(None, Invoke(pc_fn, list(args), conv))]


def base_models():
    m = Models()
    m.add(r"^<(std::borrow::)?Cow<.*> as (AsRef<.*>|Deref|Borrow<.*>)>::(as_ref|deref|borrow)$", m_cow_as_ref)
    m.add(r"^(std::borrow::)?Cow::<.*>::into_owned$", m_cow_into_owned)
    m.add(r"^<variables::primitive::Primitive as ToOwned>::to_owned$", m_clone_value)
    m.add(r"^context::Ctx::<'_>::register_variable_local$", m_effect_ok)
    m.add(r"^context::Ctx::<'_>::register_variable$", m_effect_ok)
    m.add(r"^context::Ctx::<'_>::load_variable$", m_load_variable)
    m.add(r"^PrimitiveFlagsPair::primitive$", m_pair_primitive)
    m.add(r"^<GcCellRef<'_, .*> as Deref>::deref$", m_gccellref_deref)
    m.add(r"^PrimitiveFlagsPair::set_primitive$", m_pair_set_primitive)
    m.add(r"^<variables::primitive::Primitive as Clone>::clone$", m_clone_value)
    m.add(r"^context::Ctx::<'_>::signal$", m_effect_unit)
    m.add(r"^core::str::<impl str>::parse::<(isize|usize|i32|i64|u32|u64)>$", m_parse_literal)
    m.add(r"^<Box<.*> as (AsRef<.*>|Deref|DerefMut|Borrow<.*>|AsMut<.*>)>::(as_ref|deref|deref_mut|borrow|as_mut)$", m_box_as_ref)
    m.add(r"^Box::<.*>::new$", m_box_new)
    m.add(r"^<Box<.*> as Clone>::clone$", m_box_clone)
    m.add(r"^(Option|std::option::Option)::<.*>::(as_ref|as_mut|as_deref|as_deref_mut)$", m_opt_as_ref)
    m.add(r"^(Option|Result|std::result::Result|std::option::Option)::<.*>::map::<.*, (for<.*> )?fn\(.*\) -> .* \{.*\}>$", m_map_ctor)
    m.add(r"^<Box<.*> as Drop>::drop$", m_unit)
    m.add(r"^Vec::<.*>::pop$", m_vec_pop)
    m.add(r"^Vec::<.*>::push$", m_vec_push)
    m.add(r"^Vec::<.*>::clear$", m_vec_clear)
    m.add(r"^Vec::<.*>::with_capacity$|^Vec::<.*>::new$", m_vec_with_capacity)
    m.add(r"^Vec::<.*>::append$", m_vec_append)
    m.add(r"^core::slice::<impl \[.*\]>::iter(_mut)?$", m_iter_mut)
    m.add(r"^<std::slice::Iter(Mut)?<.*> as IntoIterator>::into_iter$", m_identity)
    m.add(r"^<std::slice::Iter(Mut)?<.*> as Iterator>::next$", m_iter_next)
    m.add(_pow_re.pattern, m_int_pow)
    m.add(r"^Vec::<.*>::len$|^core::slice::<impl \[.*\]>::len$", m_vec_len)
    m.add(r"^Vec::<.*>::is_empty$|^core::slice::<impl \[.*\]>::is_empty$", m_vec_is_empty)
    m.add(r"^<Vec<.*> as (Deref|DerefMut)>::deref(_mut)?$|^Vec::<.*>::as_(mut_)?slice$", m_slice_ref)
    m.add(r"^core::slice::<impl \[.*\]>::get(_mut)?::<usize>$", m_slice_get)
    m.add(r"^core::slice::<impl \[.*\]>::first(_mut)?$", m_slice_first)
    m.add(r"^core::slice::<impl \[.*\]>::last(_mut)?$", m_slice_last)
    m.add(r"^<str as PartialEq>::(eq|ne)$", m_str_eq)
    m.add(r"^<String as PartialEq>::(eq|ne)$", m_abs_string_eq)
    m.add(r"^String::as_str$|^<String as Deref>::deref$", m_str_view)
    m.add(r"^std::rt::panic_fmt$|^core::panicking::panic(_fmt|_display|_explicit)?(::<.*>)?$|^std::rt::begin_panic", m_panic_fmt)
    m.add(r"^<(String|str) as ToOwned>::to_owned$", m_str_view)
    m.add(r"^<.* as ToString>::to_string$", m_abs_string)
    m.add(r"^<String as Add<&str>>::add$", m_abs_string)
    m.add(r"^<String as Deref>::deref$", m_abs_string)
    m.add(r"^<String as Clone>::clone$", m_str_view)
    m.add(r"^String::as_str$", m_abs_string)
    m.add(r"^((std|alloc|core)::)?str::<impl str>::repeat$", m_str_repeat)
    m.add(_arith_re.pattern, m_arith)
    m.add(_neg_re.pattern, m_neg)
    m.add(_cmp_re.pattern, m_cmp)
    m.add(_checked_re.pattern, m_checked)
    m.add(_abs_re.pattern, m_abs)
    m.add(_bits_re.pattern, m_bits)
    m.add(_range_new_re.pattern, m_range_new)
    m.add(_range_contains_re.pattern, m_range_contains)
    m.add(_euclid_re.pattern, m_euclid)
    m.add(_minmax_re.pattern, m_minmax)
    m.add(_tryinto_re.pattern, m_tryinto)
    m.add(_from_re.pattern, m_from)
    m.add(_f64_re.pattern, m_f64)
    m.add(r" as Try>::branch$", m_try_branch)
    m.add(r" as FromResidual<.*>>::from_residual$", m_from_residual)
    m.add(r" as anyhow::Context<.*>>::(context|with_context)::<", m_context)
    m.add(r"^(Option|std::option::Option|std::result::Result|Result)::<.*>::(is_none|is_some|is_ok|is_err)$", m_opt_pred)
    m.add(r"^(Option|std::option::Option|std::result::Result|Result)::<.*>::(unwrap|expect)$", m_unwrap)
    m.add(r"^(std::result::Result|Result)::<.*>::ok$", m_result_ok)
    m.add(r"^(Option|std::option::Option|std::result::Result|Result)::<.*>::unwrap_or$", m_unwrap_or)
    m.add(r"^(Option|std::option::Option)::<.*>::take$", m_opt_take)
    m.add(r"^anyhow::__private::format_err$", m_opaque_error)
    m.add(r"^anyhow::Error::msg::<", m_opaque_error)
    m.add(r"^anyhow::error::<impl anyhow::Error>::msg::<", m_opaque_error)
    m.add(r"^anyhow::Error::(new|from)", m_opaque_error)
    m.add(r"^Arguments::<'_>::(from_str|new|new_const|new_v1)", m_opaque_fmt)
    m.add(r"^core::fmt::rt::Argument::<'_>::new_", m_opaque_fmt)
    m.add(r"^(std|alloc)::fmt::format$", m_opaque_fmt)
    m.add(r"^format$", m_opaque_fmt)
    m.add(r"^must_use::<", m_identity)
    m.add(r"^(std|core)::hint::must_use::<", m_identity)
    m.add(r"^log::__private_api::log::<", m_unit)
    m.add(r"^log::__private_api::loc$", m_opaque_fmt)
    m.add(r"^max_level$|^log::max_level$", m_opaque_fmt)
    m.add(r"^<Level as PartialOrd<LevelFilter>>::le$", m_log_enabled)
    m.add(r"^<(variables|stack|function)::.* as PartialOrd(<.*>)?>::(lt|le|gt|ge)$", m_default_partial_ord)
    return m
