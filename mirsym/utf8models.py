"""Byte-accurate view of symbolic strings (installed on top of stridx.py).

An SStr is a sequence of code points.  Byte-level operations of `str`/`String` (len, slicing, get, is_char_boundary, insert_str,
split_at, as_bytes) need the UTF-8 width of every character.  Kernels that allow non-ASCII text fix the width CLASS of every
input character per run (1: < 0x80, 2: < 0x800, 3: < 0x10000 without surrogates, 4: <= 0x10FFFF) by a path-condition constraint
and register it here; a string then has a concrete byte layout although its characters stay symbolic.  Characters that are not
registered inputs must be concrete - otherwise the run is inconclusive (never guessed).
"""
import re
import z3
from sym import Sc, Adt, Ref, Opaque, Panic, Inconclusive, UNIT, bv, boolv
from models import some, NONE, scalar
from strmodels import sstr, need, _string_cell, is_sstr, to_sstr

WIDTHS = {}


def register_width(e, w):
    WIDTHS[e.get_id()] = (e, w)


def class_constraint(e, w):
    if w == 1:
        return z3.ULT(e, 0x80)
    if w == 2:
        return z3.And(z3.UGE(e, 0x80), z3.ULT(e, 0x800))
    if w == 3:
        return z3.And(z3.UGE(e, 0x800), z3.ULT(e, 0x10000), z3.Not(z3.And(z3.UGE(e, 0xD800), z3.ULE(e, 0xDFFF))))
    return z3.And(z3.UGE(e, 0x10000), z3.ULE(e, 0x10FFFF))


def width_of(c):
    e = z3.simplify(c.e)
    if z3.is_bv_value(e):
        v = e.as_long()
        return 1 if v < 0x80 else 2 if v < 0x800 else 3 if v < 0x10000 else 4
    hit = WIDTHS.get(c.e.get_id())
    if hit is not None:
        return hit[1]
    raise Inconclusive("UTF-8 width of a symbolic character that is not a registered kernel input")


def offsets(chars):
    out, o = [0], 0
    for c in chars:
        o += width_of(c)
        out.append(o)
    return out


def utf8_bytes(c):
    """the bytes of one character as 8-bit terms (standard UTF-8 encoding of a scalar value of the registered width)"""
    e, w = c.e, width_of(c)
    x = lambda hi, lo: z3.ZeroExt(8 - (hi - lo + 1), z3.Extract(hi, lo, e))
    k = lambda v: z3.BitVecVal(v, 8)
    if w == 1:
        return [z3.Extract(7, 0, e)]
    if w == 2:
        return [k(0xC0) | x(10, 6), k(0x80) | x(5, 0)]
    if w == 3:
        return [k(0xE0) | x(15, 12), k(0x80) | x(11, 6), k(0x80) | x(5, 0)]
    return [k(0xF0) | x(20, 18), k(0x80) | x(17, 12), k(0x80) | x(11, 6), k(0x80) | x(5, 0)]


def _range(ex, st, v):
    v = ex.deref(st, v) if isinstance(v, Ref) else v
    if isinstance(v, Adt) and v.ty in ("Range", "RangeTo", "RangeFrom", "RangeFull"):
        return v
    raise Inconclusive("expected a range, got %r" % (v,))


def _slice_forks(s_, r, panic_msg):
    """[(cond, chars | None)] - None where the byte range is not a valid character range"""
    cs = list(s_.fields)
    off = offsets(cs)
    n = len(cs)
    out, ok_conds = [], []
    if r.ty == "Range":
        a, b = r.fields[0].e, r.fields[1].e
        for i in range(n + 1):
            for j in range(i, n + 1):
                c = z3.And(a == off[i], b == off[j])
                ok_conds.append(c)
                out.append((c, cs[i:j]))
    elif r.ty == "RangeTo":
        b = r.fields[0].e
        for j in range(n + 1):
            c = b == off[j]
            ok_conds.append(c)
            out.append((c, cs[:j]))
    elif r.ty == "RangeFrom":
        a = r.fields[0].e
        for i in range(n + 1):
            c = a == off[i]
            ok_conds.append(c)
            out.append((c, cs[i:]))
    else:
        return [(None, cs)]
    out.append((z3.Not(z3.Or(*ok_conds)), None))
    return out


def m_str_index(ex, st, callee, args):
    s_ = need(ex, st, args[0], callee)
    forks = _slice_forks(s_, _range(ex, st, args[1]), None)
    return [(c, sstr(v) if v is not None else Panic("byte index is out of range or not a char boundary (str slicing)")) for c, v in forks]


def m_str_get_range(ex, st, callee, args):
    s_ = need(ex, st, args[0], callee)
    forks = _slice_forks(s_, _range(ex, st, args[1]), None)
    return [(c, some(sstr(v)) if v is not None else NONE) for c, v in forks]


def m_len(ex, st, callee, args):
    return [(None, bv("usize", offsets(need(ex, st, args[0], callee).fields)[-1]))]


def m_is_char_boundary(ex, st, callee, args):
    s_ = need(ex, st, args[0], callee)
    idx = scalar(ex, st, args[1])
    return [(None, Sc("bool", z3.Or(*[idx.e == o for o in offsets(s_.fields)])))]


def m_insert_str(ex, st, callee, args):
    ref, v = _string_cell(ex, st, args[0])
    s_ = need(ex, st, v, callee)
    idx = scalar(ex, st, args[1])
    new = need(ex, st, args[2], callee)
    off = offsets(s_.fields)
    out = [(idx.e == off[k], ("write", ref, sstr(s_.fields[:k] + new.fields + s_.fields[k:]))) for k in range(len(s_.fields) + 1)]
    out.append((z3.Not(z3.Or(*[idx.e == o for o in off])), Panic("assertion failed: self.is_char_boundary(idx) (String::insert_str)")))
    return out


def m_split_at(ex, st, callee, args):
    s_ = need(ex, st, args[0], callee)
    mid = scalar(ex, st, args[1])
    off = offsets(s_.fields)
    out = [(mid.e == off[k], Adt("()", None, [sstr(s_.fields[:k]), sstr(s_.fields[k:])])) for k in range(len(s_.fields) + 1)]
    out.append((z3.Not(z3.Or(*[mid.e == o for o in off])), Panic("failed to slice string (split_at)")))
    return out


def _park(st, value):
    st.nframe += 1
    key = ("tmp", st.nframe)
    st.cells[key] = value
    return Ref(key)


def m_as_bytes(ex, st, callee, args):
    s_ = to_sstr(ex, st, args[0])
    if s_ is None:
        raise Inconclusive("as_bytes of %r" % (args[0],))
    bs = []
    for c in s_.fields:
        bs += [Sc("u8", z3.simplify(b)) for b in utf8_bytes(c)]
    return [(None, _park(st, Adt("[]", None, bs)))]


def m_from_utf8(ex, st, callee, args):
    """std::str::from_utf8 on bytes that are all concrete ASCII (the only use in the kernels: instruction arguments)"""
    v = args[0]
    n = 0
    while isinstance(v, Ref) and n < 6:
        v = ex.read(st, v.cell, v.path)
        n += 1
    if not (isinstance(v, Adt) and v.ty == "[]"):
        raise Inconclusive("from_utf8 of %r" % (v,))
    cs = []
    for b in v.fields:
        e = z3.simplify(b.e)
        if not (z3.is_bv_value(e) and e.as_long() < 0x80):
            raise Inconclusive("from_utf8 of non-ASCII / symbolic bytes")
        cs.append(Sc("char", z3.BitVecVal(e.as_long(), 32)))
    from models import ok
    return [(None, ok(sstr(cs)))]


def m_slice_get(ex, st, callee, args):
    """<[u8]>::get(idx) -> Option<&u8>"""
    from models import _vec_at
    ref, v = _vec_at(ex, st, args[0])
    idx = scalar(ex, st, args[1])
    n = len(v.fields)
    out = [(idx.e == k, some(Ref(ref.cell, ref.path + (k,)))) for k in range(n)]
    out.append((z3.UGE(idx.e, n), NONE))
    return out


def m_u8_pred(ex, st, callee, args):
    v = args[0]
    n = 0
    while isinstance(v, Ref) and n < 6:
        v = ex.read(st, v.cell, v.path)
        n += 1
    name = callee.split("::")[-1]
    e = v.e
    if name == "is_ascii":
        r = z3.ULT(e, 0x80)
    elif name == "is_ascii_digit":
        r = z3.And(z3.UGE(e, 0x30), z3.ULE(e, 0x39))
    else:
        raise Inconclusive(callee)
    return [(None, Sc("bool", z3.simplify(r)))]


def _chars_iter(ex, st, v):
    ref = None
    n = 0
    while isinstance(v, Ref) and n < 6:
        ref = v
        v = ex.read(st, v.cell, v.path)
        n += 1
    if not (isinstance(v, Adt) and v.ty == "CharsIter"):
        raise Inconclusive("expected a Chars iterator, got %r" % (v,))
    return ref, v


def m_chars_nth(ex, st, callee, args):
    ref, it = _chars_iter(ex, st, args[0])
    s_, pos = it.fields
    p = z3.simplify(pos.e).as_long()
    rest = list(s_.fields[p:])
    idx = scalar(ex, st, args[1])
    out = []
    for k in range(len(rest)):
        res = some(rest[k])
        if ref is not None:
            out.append((idx.e == k, ("write+", ref, Adt("CharsIter", None, [s_, bv("usize", p + k + 1)]), res)))
        else:
            out.append((idx.e == k, res))
    out.append((z3.UGE(idx.e, len(rest)), NONE))
    return out


def m_chars_count(ex, st, callee, args):
    _, it = _chars_iter(ex, st, args[0])
    s_, pos = it.fields
    return [(None, bv("usize", len(s_.fields) - z3.simplify(pos.e).as_long()))]


def m_char_to_string(ex, st, callee, args):
    v = args[0]
    n = 0
    while isinstance(v, Ref) and n < 6:
        v = ex.read(st, v.cell, v.path)
        n += 1
    if not (isinstance(v, Sc) and v.ty == "char"):
        raise Inconclusive("char::to_string of %r" % (v,))
    return [(None, sstr([v]))]


def m_load_local(ex, st, callee, args):
    """Ctx::load_local(name) -> Result<PrimitiveFlagsPair> for a name whose characters are concrete: the variable cell set up by
    the kernel driver under ("var", name)"""
    s_ = to_sstr(ex, st, args[1])
    if s_ is None:
        raise Inconclusive("load_local of %r" % (args[1],))
    name = ""
    for c in s_.fields:
        e = z3.simplify(c.e)
        if not z3.is_bv_value(e):
            raise Inconclusive("load_local with a symbolic name")
        name += chr(e.as_long())
    key = ("var", name)
    from models import ok, err
    if key not in st.cells:
        return [(None, err(Opaque("anyhow", "name not found")))]
    return [(None, ok(Adt("PrimitiveFlagsPair", None, [Ref(key)])))]


def m_str_eq(ex, st, callee, args):
    """<str as PartialEq>::eq / ne on symbolic-character strings and literals"""
    a, b = to_sstr(ex, st, args[0]), to_sstr(ex, st, args[1])
    if a is None or b is None:
        raise Inconclusive("string comparison of %r and %r" % (args[0], args[1]))
    if len(a.fields) != len(b.fields):
        r = z3.BoolVal(False)
    else:
        r = z3.And(*[x.e == y.e for x, y in zip(a.fields, b.fields)]) if a.fields else z3.BoolVal(True)
    if callee.endswith("::ne"):
        r = z3.Not(r)
    return [(None, Sc("bool", z3.simplify(r)))]


def m_char_from_u8(ex, st, callee, args):
    b = scalar(ex, st, args[0])
    return [(None, Sc("char", z3.ZeroExt(24, b.e)))]


def m_unwrap_or_default_str(ex, st, callee, args):
    v = ex.deref(st, args[0]) if isinstance(args[0], Ref) else args[0]
    if isinstance(v, Adt) and v.ty == "Option":
        return [(None, v.fields[0] if v.variant == "Some" else sstr([]))]
    raise Inconclusive("unwrap_or_default on %r" % (v,))


def install(m):
    pre = [
        (r"^Option::<&str>::unwrap_or_default$|^Option::<String>::unwrap_or_default$", m_unwrap_or_default_str),
        (r"^<(String|str) as Index<(std::ops::)?Range(To|From|Full)?(<usize>)?>>::index$", m_str_index),
        (r"^(core::)?str::<impl str>::get::<(std::ops::)?Range(To|From)?<usize>>$", m_str_get_range),
        (r"^String::len$|^(core::)?str::<impl str>::len$", m_len),
        (r"^(core::)?str::<impl str>::is_char_boundary$|^String::is_char_boundary$", m_is_char_boundary),
        (r"^String::insert_str$", m_insert_str),
        (r"^(core::)?str::<impl str>::split_at$", m_split_at),
        (r"^String::as_bytes$|^(core::)?str::<impl str>::as_bytes$", m_as_bytes),
        (r"^((std|core)::str::)?from_utf8$", m_from_utf8),
        (r"^(core::)?slice::<impl \[u8\]>::get::<usize>$", m_slice_get),
        (r"^(core::)?(char::methods|num)::<impl u8>::(is_ascii|is_ascii_digit)$", m_u8_pred),
        (r"^<Chars<'_> as Iterator>::nth$", m_chars_nth),
        (r"^<Chars<'_> as Iterator>::count$", m_chars_count),
        (r"^<char as ToString>::to_string$", m_char_to_string),
        (r"^<char as From<u8>>::from$", m_char_from_u8),
        (r"^context::Ctx::<'_>::load_local$", m_load_local),
        (r"^<&?(str|String) as PartialEq(<&?(str|String)>)?>::(eq|ne)$", m_str_eq),
    ]
    m.table = [(re.compile(p), h) for p, h in pre] + m.table
    m.cache.clear()
    return m
