"""Numeric built-in methods (`BuiltInFunction::run`), executed from the real entry point on a Ctx whose operand stack holds
the receiver and arguments (engine B), plus the reference meaning of each method (oracle of C14)."""
import os, time
import z3
import sym, models, targets
from sym import Sc, Adt, Ref, Opaque, Inconclusive, INT_TYPES, F64, RNE, int_to_int, int_to_f64, int_min, int_max
from opkernels import Path, Summary, sym_payload, prim, KTY, KINDS, CRATE_PREFIXES, _o
from models import UF_POWI, UF_POWF

NUMERIC = {  # method -> (BuiltInFunction variant, receiver kinds, extra argument kind)
    "to_int": ("GenericToInt", KINDS, None), "to_bigint": ("GenericToBigint", KINDS, None), "to_byte": ("GenericToByte", KINDS, None),
    "to_float": ("GenericToFloat", KINDS, None), "abs": ("GenericAbs", KINDS, None), "sqrt": ("GenericSqrt", KINDS, None),
    "pow": ("GenericPow", KINDS, "Int"), "powf": ("GenericPowf", KINDS, "Float"),
    "fpart": ("FloatFPart", ["Float"], None), "ipart": ("FloatIPart", ["Float"], None), "round": ("FloatRound", ["Float"], None),
    "floor": ("FloatFloor", ["Float"], None), "ceil": ("FloatCeil", ["Float"], None),
}
# 0..8 by stepwise multiplication; 63 .. 128 by the exact table of the few bases whose power is representable (models.pow_table)
POW_EXPONENTS = list(range(0, models.POW_MAX_EXP + 1)) + [63, 64, 126, 127, 128]


PARSERS = {  # string -> number parsers: method -> (extra argument kind, kind of the present result)
    "parse_int": (None, "Int"), "parse_bigint": (None, "BigInt"), "parse_float": (None, "Float"), "parse_bool": (None, "Bool"),
    "parse_byte": (None, "Byte"), "parse_int_radix": ("Int", "Int"), "parse_bigint_radix": ("Int", "BigInt"),
}
PARSER_VARIANTS = {"parse_int": "StrParseInt", "parse_bigint": "StrParseBigint", "parse_float": "StrParseFloat", "parse_bool": "StrParseBool",
                   "parse_byte": "StrParseByte", "parse_int_radix": "StrParseIntRadix", "parse_bigint_radix": "StrParseBigintRadix"}
DECLARED = {"int": "Int", "bigint": "BigInt", "float": "Float", "byte": "Byte", "bool": "Bool", "str": "Str"}


def _abstract(v):
    return isinstance(v, Opaque) and v.tag == "String"


def m_abs_starts_with(ex, st, callee, args):
    if not _abstract(ex.deref(st, args[0])):
        raise Inconclusive("starts_with on a non-abstract string")
    return [(None, ex.fresh("bool", "starts_with"))]


def m_abs_str_get(ex, st, callee, args):
    s = ex.deref(st, args[0])
    if not _abstract(s):
        raise Inconclusive("str::get on a non-abstract string")
    c = ex.fresh("bool", "in_range").e
    return [(c, models.some(Opaque("String", ("slice", s.data)))), (z3.Not(c), models.NONE)]


def m_abs_unwrap_or_default(ex, st, callee, args):
    v = ex.deref(st, args[0]) if isinstance(args[0], Ref) else args[0]
    if isinstance(v, Adt) and v.ty == "Option":
        return [(None, v.fields[0] if v.variant == "Some" else Opaque("String", "empty"))]
    raise Inconclusive("unwrap_or_default on %r" % (v,))


_abs_parse_re = __import__("re").compile(r"^core::str::<impl str>::parse::<(\w+)>$|^core::num::<impl (\w+)>::from_str_radix$")


def m_abs_parse(ex, st, callee, args):
    """parsing an ARBITRARY string: either fails or yields an arbitrary value of the target type (kind-level reasoning);
    `from_str_radix` panics unless 2 <= radix <= 36 (documented)"""
    m = _abs_parse_re.match(callee)
    ty = m.group(1) or m.group(2)
    if not _abstract(ex.deref(st, args[0])):
        raise Inconclusive("parse of a non-abstract string")
    okc = ex.fresh("bool", "parses").e
    if ty == "bool":
        val = ex.fresh("bool", "parsed")
    elif ty == "f64":
        val = ex.fresh("f64", "parsed")
    else:
        val = ex.fresh(ty, "parsed")
    outs = []
    guard = z3.BoolVal(True)
    if "from_str_radix" in callee:
        r = models.scalar(ex, st, args[1])
        valid = z3.And(z3.UGE(r.e, 2), z3.ULE(r.e, 36))
        outs.append((z3.Not(valid), sym.Panic("from_str_radix: radix must lie in the range 2..=36")))
        guard = valid
    outs.append((z3.And(guard, okc), models.ok(val)))
    outs.append((z3.And(guard, z3.Not(okc)), models.err(Opaque("ParseError", ty))))
    return outs


class BuiltinKernels:
    def __init__(self, mf, overflow_checks, repo, seed=0):
        self.mf = mf
        targets.register_primitive_enum(repo)
        targets.register_enum_from_source(os.path.join(repo, "bytecode/src/function.rs"), "BuiltInFunction")
        m = models.base_models()
        import re as _re
        pre = [(r"^core::str::<impl str>::starts_with::<&str>$", m_abs_starts_with),
               (r"^core::str::<impl str>::get::<std::ops::RangeFrom<usize>>$", m_abs_str_get),
               (r"^Option::<&str>::unwrap_or_default$", m_abs_unwrap_or_default),
               (_abs_parse_re.pattern, m_abs_parse)]
        m.table = [(_re.compile(p), h) for p, h in pre] + m.table
        self.ex = sym.Executor(mf, overflow_checks, m, targets.generic_resolver(mf, CRATE_PREFIXES), seed=seed)
        self.fn = targets.find_one(mf, r"function\.rs.*>::run$", lambda f: f.locals[1].strip() == "&function::BuiltInFunction")

    def encoded_functions(self):
        return {"BuiltInFunction::run": {"mir_item": self.fn, "mir_lines": self.mf.func(self.fn).nlines}}

    def summarize_parser(self, method, variant):
        """string -> number parser on an ARBITRARY string (abstract): result kinds per path"""
        extra, _ = PARSERS[method]
        operands = [Adt("Primitive", "Str", [Opaque("String", "recv")])]
        inputs = [Sc("u8", z3.BitVecVal(0, 8))]
        kinds = ["Str"]
        if extra == "Int":
            b = sym_payload("Int", "b")
            inputs.append(b)
            kinds.append("Int")
            operands.append(prim("Int", b))
        ctx = Adt("Ctx", None, [Adt("Vec", None, operands)] + [Opaque("ctx-field", i) for i in range(1, 6)])
        cells = {("ctx",): ctx, ("self",): Adt("BuiltInFunction", variant, [])}
        outs = self.ex.run(self.fn, [Ref(("self",)), Ref(("ctx",))], cells=cells)
        res = []
        from opkernels import decode_prim
        for o in outs:
            pc = z3.And(*o.pc) if o.pc else z3.BoolVal(True)
            if o.kind == "panic":
                res.append((pc, "panic", o.value.msg))
            elif o.value.variant == "Err":
                res.append((pc, "err", None))
            else:
                r = o.value.fields[0].fields[0]
                kind, _ = decode_prim(o.cells, r.fields[0])
                res.append((pc, "ok", kind))
        return inputs, kinds, res

    def summarize(self, method, recv_kind, exponent=None, variant=None):
        t = time.time()
        variant0, _, extra = NUMERIC[method]
        variant = variant or variant0
        inputs = [sym_payload(recv_kind, "a")]
        kinds = [recv_kind]
        operands = [prim(recv_kind, inputs[0])]
        if extra == "Int":
            if exponent is None:
                # negative exponents: symbolic over the negative range (the only class that does not need pow itself)
                b = sym_payload("Int", "b")
                inputs.append(b)
                operands.append(prim("Int", b))
            else:
                operands.append(prim("Int", sym.bv("i32", exponent)))
                kinds_extra = None
            kinds.append("Int")
        elif extra == "Float":
            b = sym_payload("Float", "b")
            inputs.append(b)
            operands.append(prim("Float", b))
            kinds.append("Float")
        ctx = Adt("Ctx", None, [Adt("Vec", None, operands)] + [Opaque("ctx-field", i) for i in range(1, 6)])
        cells = {("ctx",): ctx, ("self",): Adt("BuiltInFunction", variant, [])}
        pc = []
        if extra == "Int" and exponent is None:
            if recv_kind != "Float":
                pc = [inputs[1].e < 0]
        outs = self.ex.run(self.fn, [Ref(("self",)), Ref(("ctx",))], cells=cells, pc=pc)
        paths = []
        for o in outs:
            if o.kind == "panic":
                paths.append(Path(o.pc, "panic", site=o.value.site, msg=o.value.msg))
                continue
            v = o.value
            if not (isinstance(v, Adt) and v.ty == "Result"):
                raise Inconclusive("built-in %s returned %r" % (method, v))
            if v.variant == "Err":
                paths.append(Path(o.pc, "err", msg=repr(v.fields[0])[:100]))
                continue
            tup = v.fields[0]
            res = tup.fields[0]
            if not (isinstance(res, Adt) and res.ty == "Option" and res.variant == "Some"):
                raise Inconclusive("built-in %s returned %r" % (method, tup))
            p = res.fields[0]
            paths.append(Path(o.pc, "ok", p.variant, p.fields[0]))
        s = Summary(method, tuple(kinds), inputs, paths, self.fn, time.time() - t)
        s.exponent = exponent
        s.via = "built-in"
        s.pre = z3.And(*pc) if pc else None
        s.uninterpreted = method == "powf" or (method == "pow" and recv_kind == "Float")
        return s


# ---------------------------------------------------------------- meaning of the methods
def exact_float_of(kind, a):
    return a.e if kind == "Float" else int_to_f64(KTY[kind], a.e)


def float_to_int_exact(x, ty):
    """(representable, value): truncation toward zero of a finite double, representable iff it lies in ty's range"""
    bits, signed = INT_TYPES[ty]
    lo_f = z3.FPVal(float(int_min(ty)), F64)
    hi1_f = z3.FPVal(float(int_max(ty) + 1), F64)
    t = z3.fpRoundToIntegral(z3.RTZ(), x)
    finite = z3.Not(z3.Or(z3.fpIsNaN(x), z3.fpIsInf(x)))
    inrange = z3.And(finite, z3.fpGEQ(t, lo_f), z3.fpLT(t, hi1_f))
    val = z3.fpToSBV(z3.RTZ(), x, z3.BitVecSort(bits)) if signed else z3.fpToUBV(z3.RTZ(), x, z3.BitVecSort(bits))
    return inrange, val


def oracle(method, kinds, inputs, exponent=None):
    k = kinds[0]
    a = inputs[0]
    T = z3.BoolVal(True)
    if method in ("to_int", "to_bigint", "to_byte"):
        target = {"to_int": "Int", "to_bigint": "BigInt", "to_byte": "Byte"}[method]
        tty = KTY[target]
        if k == "Float":
            rep, val = float_to_int_exact(a.e, tty)
            return _o(target, {"unrepresentable": z3.Not(rep)}, val)
        sty = KTY[k]
        wide = 136
        _, ss = INT_TYPES[sty]
        w = z3.SignExt(wide - INT_TYPES[sty][0], a.e) if ss else z3.ZeroExt(wide - INT_TYPES[sty][0], a.e)
        fits = z3.And(w >= z3.BitVecVal(int_min(tty), wide), w <= z3.BitVecVal(int_max(tty), wide))
        return _o(target, {"unrepresentable": z3.Not(fits)}, z3.Extract(INT_TYPES[tty][0] - 1, 0, w))
    if method == "to_float":
        return _o("Float", {}, exact_float_of(k, a))
    if method == "abs":
        if k == "Float":
            return _o("Float", {}, z3.fpAbs(a.e))
        if k == "Byte":
            return _o("Byte", {}, a.e)
        ty = KTY[k]
        bits = INT_TYPES[ty][0]
        return _o(k, {"overflow": a.e == z3.BitVecVal(int_min(ty), bits)}, z3.If(a.e < 0, -a.e, a.e))
    if method == "sqrt":
        return _o("Float", {}, z3.fpSqrt(RNE, exact_float_of(k, a)))
    if method == "powf":
        return _o("Float", {}, UF_POWF(exact_float_of(k, a), inputs[1].e))
    if method == "pow":
        if k == "Float":
            e = inputs[1].e if exponent is None else z3.BitVecVal(exponent, 32)
            return _o("Float", {}, UF_POWI(a.e, e))
        if exponent is None:
            return _o("BigInt", {"negative-exponent": T}, z3.BitVecVal(0, 128))
        # exact power in the declared result kind (bigint): widen the receiver first, then multiply step by step
        x = int_to_int(KTY[k], a.e, "i128")
        res, ovf = models.pow_stepwise("i128", x, exponent) if exponent <= models.POW_MAX_EXP else models.pow_table("i128", x, exponent)
        return _o("BigInt", {"overflow": ovf}, res)
    x = a.e
    if method == "fpart":
        return _o("Float", {}, z3.fpSub(RNE, x, z3.fpRoundToIntegral(z3.RTZ(), x)))
    if method == "ipart":
        return _o("Float", {}, z3.fpRoundToIntegral(z3.RTZ(), x))
    if method == "round":
        return _o("Float", {}, z3.fpRoundToIntegral(z3.RNA(), x))
    if method == "floor":
        return _o("Float", {}, z3.fpRoundToIntegral(z3.RTN(), x))
    if method == "ceil":
        return _o("Float", {}, z3.fpRoundToIntegral(z3.RTP(), x))
    raise ValueError(method)
