"""C07 (kernel): variables are cells shared by reference; assignment, lookup, capture and write-through.

Real code executed from its MIR (crate `bytecode`):
  Stack::register_variable      what `store name` does (assignment `x = v`)
  Stack::find_name              what `load name` / capture lookup does
  Stack::extend                 a call / block pushes a frame
  VariableMapping::update       what `modify x = v` inside a closure does to the captured variable
  VariableMapping::get          what `load_callback` reads
  instruction make_function     builds the closure value with its captured variables
together with the real `PrimitiveFlagsPair::{new, primitive, flags, set_primitive, clone}` on the pointer model of `Gc`
(gcmodels.py: clones share the cell) and a `HashMap<String, _>` with concrete keys (hashmodels.py).

State space: call stacks of 1..3 frames (module frame, then function frames `m#f` and block frames `<if>` / `<while>` in every
arrangement), the name `x` bound or not in each frame, a bystander `y` in the module frame; every value a symbolic int, every flag
byte symbolic over the values a real program can produce (0, READ_ONLY).

Meaning (property C07): a variable is ONE cell per binding; a closure captures the cell, not its value.
  x = v      updates the nearest binding of x within the current function (top frame down to and including the function's own
             frame); if there is none, creates a NEW local binding in the top frame - bindings of outer functions / the module are
             never touched; assigning to a read-only binding fails and changes nothing.
  load x     yields the nearest binding over ALL frames (the cell itself), or nothing.
  capture    `make_function path a b` stores, under each name, the very cell the lookup yields; without names it is no closure.
  modify     `VariableMapping::update` writes into the captured cell (so the owner and every other capturer see it); unknown or
             read-only names fail and change nothing.
  new frame  starts with no variables.
"""
import itertools, os, re, time
import z3
import sym, models, strmodels, stridx, gcmodels, utf8models as U, hashmodels as H, targets
import opcheck as Q
from sym import Sc, Adt, Ref, Opaque, Inconclusive
from opkernels import CRATE_PREFIXES, prim

READ_ONLY = 1
LABELS = {"M": "m#__module__", "F": "m#f", "I": "<if>", "W": "<while>"}


def _lab(t):
    return Adt("Cow", "Borrowed", [strmodels.sstr([Sc("char", z3.BitVecVal(ord(c), 32)) for c in t])])


def _name(t, owned=False):
    s = strmodels.sstr([Sc("char", z3.BitVecVal(ord(c), 32)) for c in t])
    return Adt("Cow", "Owned", [s]) if owned else s


class Shape:
    """frames: string over M/F/I/W (frame 0 first), binds: per frame whether `x` is bound"""

    def __init__(self, frames, binds):
        self.frames, self.binds = frames, tuple(binds)

    @property
    def arm(self):
        return "frames=%s,x-bound=%s" % (self.frames, "".join("1" if b else "0" for b in self.binds))


def shapes(tier):
    out = []
    for k in ((1, 2, 3, 4) if tier == "thorough" else (1, 2, 3)):
        for rest in itertools.product("FIW", repeat=k - 1):
            for binds in itertools.product((False, True), repeat=k):
                out.append(Shape("M" + "".join(rest), binds))
    return out


class ScopeKernels:
    def __init__(self, mf, overflow_checks, repo, seed=0):
        self.mf = mf
        targets.register_primitive_enum(repo)
        m = H.install(U.install(stridx.install(strmodels.install(models.base_models()))))
        # the real PrimitiveFlagsPair methods are executed here, not the variable-cell models of the operator kernels
        m.table = [(r, h) for r, h in m.table if h.__name__ not in ("m_pair_primitive", "m_pair_set_primitive", "m_load_variable")]
        m.table = [(re.compile(r"^std::mem::replace::<.*>$"), m_mem_replace),
                   (re.compile(r"^context::Ctx::<'_>::load_variable$"), self._m_load_variable),
                   (re.compile(r"^context::Ctx::<'_>::load_local$"), self._m_load_local),
                   (re.compile(r"^context::Ctx::<'_>::register_export$"), models.m_effect_ok),
                   (re.compile(r"^context::Ctx::<'_>::load_callback_variable$"), self._m_load_callback_variable)] + m.table
        m.cache.clear()
        pre = CRATE_PREFIXES + ["GcVector", "Stack", "SpecialScope", "PrimitiveFlagsPair", "VariableMapping", "VariableFlags", "StackFrame", "PrimitiveFunction", "TupleWithGcOpt"]
        self.ex = gcmodels.install_drop_hooks(sym.Executor(mf, overflow_checks, m, targets.generic_resolver(mf, pre), seed=seed))
        # `pub const NAME: u8 = 0b...;` of stack::flag_constants (integer consts are not items of the MIR dump)
        self.ex.const_values = {}
        src = open(os.path.join(repo, "bytecode/src/stack.rs")).read()
        for nm, val in re.findall(r"pub const (\w+): u8 = (0b[01_]+|\d+);", src):
            self.ex.const_values["stack::flag_constants::" + nm] = Sc("u8", z3.BitVecVal(int(val.replace("_", ""), 0), 8))
        if "stack::flag_constants::READ_ONLY" not in self.ex.const_values:
            raise Inconclusive("flag constants not found in stack.rs")
        global READ_ONLY
        READ_ONLY = z3.simplify(self.ex.const_values["stack::flag_constants::READ_ONLY"].e).as_long()
        f = lambda pat, pred=None: targets.find_one(mf, pat, pred)
        self.fn = {
            "register_variable": f(r"stack\.rs.*>::register_variable$"),
            "find_name": f(r"stack\.rs.*>::find_name$"),
            "extend": f(r"stack\.rs.*>::extend$"),
            "update": f(r"stack\.rs.*>::update$", lambda fn_: fn_.locals[1].strip() == "&stack::VariableMapping"),
            "get": f(r"stack\.rs.*>::get$", lambda fn_: fn_.locals[1].strip() == "&stack::VariableMapping"),
            "make_function": f(r"^(implementations::)?make_function$"),
            "export_name": f(r"^(implementations::)?export_name$"),
        }
        self._lookup = {}

    def encoded_functions(self):
        out = {k: {"mir_item": n, "mir_lines": self.mf.func(n).nlines} for k, n in self.fn.items()}
        return out

    # ------------------------------------------------------------ state
    def build(self, shape):
        """-> (cells, vars) ; vars: {(frame index, name): (cell key, value expr, flags expr)}"""
        cells, vs, pc = {}, {}, []
        frames = []
        for i, (kind, bound) in enumerate(zip(shape.frames, shape.binds)):
            ents = []
            names = (["x"] if bound else []) + (["y"] if i == 0 else [])
            for nm in names:
                key = ("gc", "f%d.%s" % (i, nm))
                val = z3.BitVec("v%d%s" % (i, nm), 32)
                fl = z3.BitVec("fl%d%s" % (i, nm), 8)
                pc.append(z3.Or(fl == 0, fl == READ_ONLY))
                cells[key] = gcmodels.gccell(Adt("TupleWithGcOpt", None, [prim("Int", Sc("i32", val)), Adt("VariableFlags", None, [Sc("u8", fl)])]))
                ents.append((nm, Adt("PrimitiveFlagsPair", None, [Adt("Gc", None, [Ref(key)])])))
                vs[(i, nm)] = (key, val, fl)
            frames.append(Adt("StackFrame", None, [_lab(LABELS[kind]), Adt("VariableMapping", None, [H.hashmap(ents)])]))
        cells[("stack",)] = Adt("Stack", None, [Adt("Vec", None, frames)])
        return cells, vs, pc

    # ------------------------------------------------------------ observation of a final state
    @staticmethod
    def snapshot(o, key=("stack",)):
        """-> [ {name: cell key} per frame ], {cell key: (value expr, flags expr)}"""
        st = o.cells[key]
        frames = []
        for fr in st.fields[0].fields:
            mp = fr.fields[1].fields[0]
            d = {}
            for k, v in H.entries(mp):
                d[k] = v.fields[0].fields[0].cell
            frames.append(d)
        cellvals = {}
        for k, c in o.cells.items():
            if isinstance(k, tuple) and k and k[0] == "gc" and isinstance(c, Adt) and c.ty == "GcCell" and isinstance(c.fields[0], Adt) and c.fields[0].ty == "TupleWithGcOpt":
                t = c.fields[0]
                p = t.fields[0]
                cellvals[k] = (p.fields[0].e if p.variant == "Int" else None, t.fields[1].fields[0].e)
        return frames, cellvals

    def _m_load_variable(self, ex, st, callee, args):
        """Ctx::load_variable(name) = self.call_stack.borrow().find_name(name): the REAL find_name is run on the stack cell"""
        from sym import Invoke
        return [(None, Invoke(self.fn["find_name"], [Ref(("stack",)), args[1]], lambda st2, val: val))]

    def _m_load_local(self, ex, st, callee, args):
        """Ctx::load_local(name) = self.call_stack.borrow().find_name_in_function(name).context(..): the REAL function on the stack cell"""
        from sym import Invoke
        from models import ok, err
        fn = targets.find_one(self.mf, r"stack\.rs.*>::find_name_in_function$")
        return [(None, Invoke(fn, [Ref(("stack",)), args[1]],
                              lambda st2, val: ok(val.fields[0]) if val.variant == "Some" else err(Opaque("anyhow", "name not found"))))]

    def update_writes_read_only(self):
        """does the real VariableMapping::update write a read-only variable?  (read off the engine's own summary of it)"""
        if not hasattr(self, "_uwro"):
            run = run_mapping(self, "update", "x", None)
            fl = run.vs[(0, "x")][2]
            self._uwro = False
            for o in run.outs:
                if o.kind == "return" and o.value.variant == "Ok":
                    r, _ = Q.solve(z3.And(*(list(o.pc) + [fl == READ_ONLY])), 20000, 0)
                    if r == z3.sat:
                        self._uwro = True
        return self._uwro

    def _m_load_callback_variable(self, ex, st, callee, args):
        from models import err
        return [(None, err(Opaque("anyhow", "not a callback")))]


def m_mem_replace(ex, st, callee, args):
    r = args[0]
    old = ex.read(st, r.cell, r.path)
    ex.write(st, r.cell, r.path, args[1])
    return [(None, old)]


# ---------------------------------------------------------------- meaning
def function_scope(shape):
    """frame indices searched by an assignment: top frame down to and including the first non-block frame"""
    out = []
    for i in range(len(shape.frames) - 1, -1, -1):
        out.append(i)
        if shape.frames[i] not in "IW":
            break
    return out


def assign_target(shape):
    for i in function_scope(shape):
        if shape.binds[i]:
            return i
    return None


def lookup_target(shape):
    for i in range(len(shape.frames) - 1, -1, -1):
        if shape.binds[i]:
            return i
    return None


# ---------------------------------------------------------------- running the operations and judging the outcomes
class Run:
    """one symbolic execution of one operation on one shape"""

    def __init__(self, op, shape, vs, pre, outs, extra=None):
        self.op, self.shape, self.vs, self.pre, self.outs, self.extra = op, shape, vs, pre, outs, extra or {}

    @property
    def arm(self):
        return self.shape.arm + ("," + self.extra["tag"] if self.extra.get("tag") else "")


def run_assign(sk, shape):
    cells, vs, pc = sk.build(shape)
    v = z3.BitVec("v", 32)
    outs = sk.ex.run(sk.fn["register_variable"], [Ref(("stack",)), _name("x", owned=True), prim("Int", Sc("i32", v))], cells=cells, pc=pc)
    return Run("assign", shape, vs, pc, outs, {"v": v})


def run_find(sk, shape):
    cells, vs, pc = sk.build(shape)
    cells[("name",)] = _name("x")
    outs = sk.ex.run(sk.fn["find_name"], [Ref(("stack",)), Ref(("name",))], cells=cells, pc=pc)
    return Run("find", shape, vs, pc, outs)


def run_extend(sk, shape):
    cells, vs, pc = sk.build(shape)
    outs = sk.ex.run(sk.fn["extend"], [Ref(("stack",)), _lab("m#g")], cells=cells, pc=pc)
    return Run("extend", shape, vs, pc, outs)


def run_mkfn(sk, shape, names):
    """make_function "p#f" names.. ; Ctx::load_variable is the lookup the stack kernel decides (nearest binding over all frames)"""
    cells, vs, pc = sk.build(shape)
    sk._lookup = {}
    t = lookup_target(shape)
    if t is not None:
        sk._lookup["x"] = Adt("PrimitiveFlagsPair", None, [Adt("Gc", None, [Ref(vs[(t, "x")][0])])])
    sk._lookup["y"] = Adt("PrimitiveFlagsPair", None, [Adt("Gc", None, [Ref(vs[(0, "y")][0])])])
    iargs = [Opaque("strlit", '"p#f"')] + [Opaque("strlit", '"%s"' % n) for n in names]
    cells[("ctx",)] = Adt("Ctx", None, [Adt("Vec", None, [])] + [Opaque("ctx-field", i) for i in range(1, 6)])
    cells[("iargs",)] = Adt("[]", None, iargs)
    outs = sk.ex.run(sk.fn["make_function"], [Ref(("ctx",)), Ref(("iargs",))], cells=cells, pc=pc)
    return Run("mkfn", shape, vs, pc, outs, {"names": list(names), "tag": "capture=" + ("+".join(names) or "none")})


def run_export(sk, shape):
    """`export_name x`: the module's export table must receive the variable's own cell (importers share the live variable)"""
    cells, vs, pc = sk.build(shape)
    cells[("ctx",)] = Adt("Ctx", None, [Adt("Vec", None, [])] + [Opaque("ctx-field", i) for i in range(1, 6)])
    cells[("iargs",)] = Adt("[]", None, [Opaque("strlit", '"x"')])
    outs = sk.ex.run(sk.fn["export_name"], [Ref(("ctx",)), Ref(("iargs",))], cells=cells, pc=pc)
    return Run("export", shape, vs, pc, outs)


def run_mapping(sk, op, name, flags_ro):
    """VariableMapping::update / get on the captured variables {x -> cell A, y -> cell B} of a closure"""
    cells, pc = {}, []
    vs = {}
    ents = []
    for nm in ("x", "y"):
        key = ("gc", "cap." + nm)
        val, fl = z3.BitVec("c" + nm, 32), z3.BitVec("cf" + nm, 8)
        pc.append(z3.Or(fl == 0, fl == READ_ONLY))
        cells[key] = gcmodels.gccell(Adt("TupleWithGcOpt", None, [prim("Int", Sc("i32", val)), Adt("VariableFlags", None, [Sc("u8", fl)])]))
        ents.append((nm, Adt("PrimitiveFlagsPair", None, [Adt("Gc", None, [Ref(key)])])))
        vs[(0, nm)] = (key, val, fl)
    cells[("map",)] = Adt("VariableMapping", None, [H.hashmap(ents)])
    cells[("name",)] = _name(name)
    v = z3.BitVec("v", 32)
    if op == "update":
        outs = sk.ex.run(sk.fn["update"], [Ref(("map",)), Ref(("name",)), prim("Int", Sc("i32", v))], cells=cells, pc=pc)
    else:
        outs = sk.ex.run(sk.fn["get"], [Ref(("map",)), Ref(("name",))], cells=cells, pc=pc)
    return Run(op, Shape("M", (True,)), vs, pc, outs, {"v": v, "name": name, "tag": "%s(%s)" % (op, name)})


def _ask(qs, cond, label, timeout_ms, seed):
    qs.obligations += 1
    t = time.time()
    c = z3.simplify(cond)
    if z3.is_false(c):
        qs.discharged += 1
        return None
    r, m = Q.solve(c, timeout_ms, seed)
    qs.solver_s += time.time() - t
    if r == z3.unsat:
        qs.discharged += 1
        if len(qs.samples) < 12:
            qs.samples.append({"obligation": label, "result": "unsat"})
        return None
    if r == z3.sat:
        qs.violated += 1
        return m
    qs.undecided.append(label)
    return None


def _unchanged(run, cellvals, except_key=None):
    conds = []
    for (i, nm), (key, val, fl) in run.vs.items():
        if key == except_key:
            continue
        cv = cellvals.get(key)
        if cv is None or cv[0] is None:
            return z3.BoolVal(False)
        conds += [cv[0] == val, cv[1] == fl]
    return z3.And(*conds) if conds else z3.BoolVal(True)


def _same_bindings(run, frames, extra=None):
    """the name -> cell structure of the stack is the original one (plus `extra`: {frame index: {name: cell}})"""
    for i, (kind, bound) in enumerate(zip(run.shape.frames, run.shape.binds)):
        want = {}
        if bound:
            want["x"] = run.vs[(i, "x")][0]
        if i == 0:
            want["y"] = run.vs[(0, "y")][0]
        if extra and i in extra:
            want.update(extra[i])
        if i >= len(frames) or frames[i] != want:
            return False
    return True


def judge(sk, run, profile, qs, timeout_ms, seed):
    """-> list of (class, detail, model or None)"""
    bad = []
    shape = run.shape
    lab0 = "scope.%s[%s]/%s" % (run.op, run.arm, profile)
    for pi, o in enumerate(run.outs):
        pcz = z3.And(*o.pc) if o.pc else z3.BoolVal(True)
        lab = "%s:path%d" % (lab0, pi)

        def fail(cls, detail, cond=None):
            m = _ask(qs, pcz if cond is None else z3.And(pcz, cond), lab + ":" + cls, timeout_ms, seed)
            if m is not None:
                bad.append((cls, detail, m))

        if o.kind == "panic":
            fail("panic", "Rust panic `%s`" % o.value.msg)
            continue
        if run.op == "assign":
            frames, cellvals = sk.snapshot(o)
            t = assign_target(shape)
            v = run.extra["v"]
            if o.value.variant == "Err":
                if t is None:
                    fail("spurious-failure", "assigning an unbound name fails")
                    continue
                ro = run.vs[(t, "x")][2] & READ_ONLY == READ_ONLY
                fail("spurious-failure", "assignment fails although the binding is writable", z3.Not(ro))
                if not _same_bindings(run, frames):
                    fail("failure-changes-state", "a failing assignment changes the bindings")
                else:
                    fail("failure-changes-state", "a failing assignment changes a variable", z3.Not(_unchanged(run, cellvals)))
                continue
            if t is None:
                top = len(shape.frames) - 1
                new = frames[top].get("x") if top < len(frames) else None
                old_keys = {k for (k, _, _) in run.vs.values()}
                if new is None or new in old_keys or not _same_bindings(run, frames, {top: {"x": new}}):
                    fail("wrong-binding", "assigning an unbound name does not create exactly one new local binding in the top frame (outer bindings must stay)")
                    continue
                nv = cellvals.get(new)
                fail("wrong-value", "the new local does not hold the assigned value with empty flags", z3.Not(z3.And(nv[0] == v, nv[1] == 0)) if nv and nv[0] is not None else None)
                fail("touches-outer-variable", "creating a local changes another variable", z3.Not(_unchanged(run, cellvals)))
            else:
                key, _, fl = run.vs[(t, "x")]
                fail("writes-read-only", "a read-only binding is assigned", fl & READ_ONLY == READ_ONLY)
                if not _same_bindings(run, frames):
                    fail("wrong-binding", "assignment to the nearest binding of the current function re-binds names instead of updating the cell")
                    continue
                cv = cellvals.get(key)
                fail("wrong-value", "the nearest binding does not hold the assigned value (flags kept)", z3.Not(z3.And(cv[0] == v, cv[1] == fl)) if cv and cv[0] is not None else None)
                fail("touches-outer-variable", "assignment changes another variable", z3.Not(_unchanged(run, cellvals, except_key=key)))
        elif run.op == "find":
            frames, cellvals = sk.snapshot(o)
            t = lookup_target(shape)
            got = o.value
            if t is None:
                if got.variant != "None":
                    fail("finds-unbound", "lookup of an unbound name yields a variable")
            else:
                want = run.vs[(t, "x")][0]
                if got.variant != "Some" or got.fields[0].fields[0].fields[0].cell != want:
                    fail("wrong-binding", "lookup does not yield the cell of the nearest binding (a copy or another frame's variable)")
            if not _same_bindings(run, frames):
                fail("lookup-changes-state", "lookup changes the bindings")
            else:
                fail("lookup-changes-state", "lookup changes a variable", z3.Not(_unchanged(run, cellvals)))
        elif run.op == "export":
            frames, cellvals = sk.snapshot(o)
            # export_name looks the name up in the current function's frames only (Ctx::load_local)
            t = assign_target(shape)
            regs = [e for e in o.effects if e[0] == "register_export"]
            if o.value.variant == "Err":
                if t is not None:
                    fail("spurious-failure", "exporting a variable of the current scope fails")
                elif regs:
                    fail("exports-unbound", "a failing export still registers something")
            else:
                if t is None:
                    fail("exports-unbound", "a name that is not bound in the current scope is exported")
                else:
                    want = run.vs[(t, "x")][0]
                    ok_ = len(regs) == 1 and len(regs[0][1]) == 2
                    if ok_:
                        nm, pr = regs[0][1]
                        nm_s = strmodels.to_sstr(sk.ex, _FakeState(o.cells), nm)
                        ok_ = nm_s is not None and "".join(chr(z3.simplify(c.e).as_long()) for c in nm_s.fields) == "x" \
                            and isinstance(pr, Adt) and pr.ty == "PrimitiveFlagsPair" and pr.fields[0].fields[0].cell == want
                    if not ok_:
                        fail("exports-copy", "the export table does not receive the variable's own cell under its name (importers would see a snapshot)")
            if not _same_bindings(run, frames):
                fail("lookup-changes-state", "exporting changes the bindings")
            else:
                fail("lookup-changes-state", "exporting changes a variable", z3.Not(_unchanged(run, cellvals)))
        elif run.op == "extend":
            frames, cellvals = sk.snapshot(o)
            k = len(shape.frames)
            if len(frames) != k + 1 or frames[k] != {} or not _same_bindings(run, frames[:k]):
                fail("frame-not-fresh", "a new frame does not start without variables on top of the unchanged stack")
            else:
                fail("frame-not-fresh", "pushing a frame changes a variable", z3.Not(_unchanged(run, cellvals)))
        elif run.op in ("update", "get"):
            _, cellvals = sk.snapshot(o, key=("stack",)) if ("stack",) in o.cells else ([], {})
            cellvals = {}
            for k_, c in o.cells.items():
                if isinstance(k_, tuple) and k_ and k_[0] == "gc" and isinstance(c, Adt) and c.ty == "GcCell" and isinstance(c.fields[0], Adt) and c.fields[0].ty == "TupleWithGcOpt":
                    tt = c.fields[0]
                    cellvals[k_] = (tt.fields[0].fields[0].e if tt.fields[0].variant == "Int" else None, tt.fields[1].fields[0].e)
            name = run.extra["name"]
            bound = (0, name) in run.vs
            mp = o.cells[("map",)].fields[0]
            same_map = {k_: v_.fields[0].fields[0].cell for k_, v_ in H.entries(mp)} == {nm: run.vs[(0, nm)][0] for nm in ("x", "y")}
            if not same_map:
                fail("mapping-changed", "the set of captured variables changes")
                continue
            if run.op == "get":
                if bound:
                    if o.value.variant != "Some" or o.value.fields[0].fields[0].fields[0].cell != run.vs[(0, name)][0]:
                        fail("wrong-binding", "reading a captured variable does not yield the captured cell itself")
                elif o.value.variant != "None":
                    fail("finds-unbound", "reading a name that was not captured yields a variable")
                fail("lookup-changes-state", "reading a captured variable changes a variable", z3.Not(_unchanged(run, cellvals)))
                continue
            v = run.extra["v"]
            if o.value.variant == "Err":
                if bound:
                    fail("spurious-failure", "writing a captured writable variable fails", z3.Not(run.vs[(0, name)][2] & READ_ONLY == READ_ONLY))
                fail("failure-changes-state", "a failing write changes a variable", z3.Not(_unchanged(run, cellvals)))
            else:
                if not bound:
                    fail("writes-unbound", "writing a name that was not captured succeeds")
                    continue
                key, _, fl = run.vs[(0, name)]
                fail("writes-read-only", "a read-only captured variable is written", fl & READ_ONLY == READ_ONLY)
                cv = cellvals[key]
                fail("wrong-value", "the captured cell does not hold the written value (write-through)", z3.Not(z3.And(cv[0] == v, cv[1] == fl)) if cv[0] is not None else None)
                fail("touches-outer-variable", "writing one captured variable changes another", z3.Not(_unchanged(run, cellvals, except_key=key)))
        elif run.op == "mkfn":
            frames, cellvals = sk.snapshot(o)
            names = run.extra["names"]
            resolvable = all(n in sk_lookup_names(run) for n in names)
            if o.value.variant == "Err":
                if resolvable:
                    fail("spurious-failure", "building the function value fails although every captured name is in scope")
                continue
            if not resolvable:
                fail("captures-unbound", "a closure capturing a name that is not in scope is built")
                continue
            stack = o.cells[("ctx",)].fields[0]
            f = stack.fields[0] if len(stack.fields) == 1 else None
            if not (isinstance(f, Adt) and f.variant == "Function"):
                fail("wrong-result", "make_function does not leave exactly one function value")
                continue
            pf = f.fields[0]
            loc, cbs = pf.fields
            loc_s = strmodels.to_sstr(sk.ex, _FakeState(o.cells), loc)
            if loc_s is None or "".join(chr(z3.simplify(c.e).as_long()) for c in loc_s.fields) != "p#f":
                fail("wrong-location", "the function value does not point at the named function")
            if not names:
                if cbs.variant != "None":
                    fail("closure-without-captures", "a function that captures nothing is built as a closure")
            else:
                if cbs.variant != "Some":
                    fail("not-a-closure", "captured variables are dropped")
                    continue
                mp = cbs.fields[0].fields[0]
                got = {k_: v_.fields[0].fields[0].cell for k_, v_ in H.entries(mp)}
                want = {n: sk_lookup_cell(run, n) for n in names}
                if got != want:
                    fail("captures-copy", "a captured name is not bound to the very cell of the variable in scope (captured by value or wrong variable)")
            if not _same_bindings(run, frames):
                fail("lookup-changes-state", "building a function value changes the bindings")
            else:
                fail("lookup-changes-state", "building a function value changes a variable", z3.Not(_unchanged(run, cellvals)))
    return bad


class _FakeState:
    """read-only view of final cells for to_sstr"""

    def __init__(self, cells):
        self.cells = cells


def sk_lookup_names(run):
    out = {"y"}
    if lookup_target(run.shape) is not None:
        out.add("x")
    return out


def sk_lookup_cell(run, n):
    if n == "y":
        return run.vs[(0, "y")][0]
    return run.vs[(lookup_target(run.shape), "x")][0]


# ---------------------------------------------------------------- translator validation on the real Stack (native harness op K:)
def native_spec(run):
    base = "K:%s:%s:%s" % (run.op, run.shape.frames, "".join("1" if b else "0" for b in run.shape.binds))
    if run.op == "mkfn":
        base += ":" + ",".join(run.extra["names"])
    return base


def _binding_order(run):
    out = []
    for i, bound in enumerate(run.shape.binds):
        if bound:
            out.append((i, "x"))
        if i == 0:
            out.append((0, "y"))
    return out


def native_args(run, vals, flags, v=None):
    args = []
    for b in _binding_order(run):
        args += [("Int", vals[b] & 0xFFFFFFFF), ("Byte", flags[b])]
    if run.op == "assign":
        args.append(("Int", v & 0xFFFFFFFF))
    return args


def predict(sk, run, vals, flags, v=None):
    subs = []
    for b, (key, val, fl) in run.vs.items():
        subs += [(val, z3.BitVecVal(vals[b], 32)), (fl, z3.BitVecVal(flags[b], 8))]
    if run.op == "assign":
        subs.append((run.extra["v"], z3.BitVecVal(v, 32)))
    hits = []
    for o in run.outs:
        pcz = z3.And(*o.pc) if o.pc else z3.BoolVal(True)
        c0 = z3.simplify(z3.substitute(pcz, *subs))
        if not (z3.is_true(c0) or z3.is_false(c0)):
            # logging configuration (log::max_level) is an environment value: take "logging off"
            from z3 import z3util
            c0 = z3.simplify(z3.substitute(c0, *[(x, z3.BoolVal(False)) for x in z3util.get_vars(c0) if z3.is_bool(x)]))
        if not z3.is_true(c0):
            continue
        if o.kind == "panic":
            hits.append("PANIC")
            continue
        frames, cellvals = sk.snapshot(o)
        conc = {}
        for k, (a, b_) in cellvals.items():
            conc[k] = [z3.simplify(z3.substitute(a, *subs)).as_long() if a is not None else None, z3.simplify(z3.substitute(b_, *subs)).as_long()]
        head = "OK"
        if run.op == "assign":
            head = "OK" if o.value.variant == "Ok" else "ERR"
        elif run.op == "find":
            if o.value.variant == "Some":
                head = "SOME"
                conc[o.value.fields[0].fields[0].fields[0].cell][0] = 777777
            else:
                head = "NONE"
        elif run.op == "mkfn":
            if o.value.variant == "Err":
                head = "ERR"
            else:
                f = o.cells[("ctx",)].fields[0].fields[0]
                cbs = f.fields[0].fields[1]
                if cbs.variant == "None":
                    head = "OK location=p#f closure=0"
                else:
                    mp = cbs.fields[0].fields[0]
                    names = sorted(k for k, _ in H.entries(mp))
                    d = {k: v_.fields[0].fields[0].cell for k, v_ in H.entries(mp)}
                    for i, n in enumerate(names):
                        if conc[d[n]][1] & READ_ONLY == 0 or sk.update_writes_read_only():   # what the real VariableMapping::update does
                            conc[d[n]][0] = 1001 + i
                    head = "OK location=p#f closure=1 names=" + ",".join(names)
        parts = []
        for i, fr in enumerate(frames):
            ents = sorted("%s=Int:%x/%d" % (n, conc[c][0] & 0xFFFFFFFF, conc[c][1]) for n, c in fr.items())
            parts.append("f%d{%s}" % (i, ",".join(ents)))
        hits.append("%s ; %s" % (head, " ".join(parts)))
    if not hits or any(h != hits[0] for h in hits):
        raise Inconclusive("scope.%s[%s]: %d paths enabled" % (run.op, run.arm, len(hits)))
    return hits[0]


def validate(sk, runs, nat_eval_raw, release):
    vecs, want = [], {}
    for ri, run in enumerate(runs):
        if run.op not in ("assign", "find", "extend", "mkfn"):
            continue
        order = _binding_order(run)
        grids = [({b: 10 + 3 * i for i, b in enumerate(order)}, {b: 0 for b in order})]
        if order:
            grids.append(({b: 20 + i for i, b in enumerate(order)}, {b: (READ_ONLY if i % 2 == 0 else 0) for i, b in enumerate(order)}))
        for gi, (vals, flags) in enumerate(grids):
            vid = "k%d_%d" % (ri, gi)
            vecs.append((vid, native_spec(run), native_args(run, vals, flags, 555)))
            want[vid] = (run, vals, flags)
    res = nat_eval_raw(vecs, release)
    mism = []
    for vid, (run, vals, flags) in want.items():
        pred = " ".join(predict(sk, run, vals, flags, 555).split())
        got = " ".join(res[vid].split())
        if pred != got:
            mism.append((run.op, run.arm, "engine", pred, "real", got))
    return len(vecs), mism


def witness_values(run, model):
    vals, flags = {}, {}
    for i, (b, (key, val, fl)) in enumerate(run.vs.items()):
        y = model.eval(val, model_completion=False)
        vals[b] = y.as_long() if z3.is_bv_value(y) else 10 + 3 * i
        f = model.eval(fl, model_completion=True)
        flags[b] = f.as_long()
    v = None
    if "v" in run.extra:
        y = model.eval(run.extra["v"], model_completion=False)
        v = y.as_long() if z3.is_bv_value(y) else 555
    return vals, flags, v
