"""Operator kernels of the run-time numeric tower: symbolic summaries (engine B), the reference oracle of C05,
evaluation of summaries on concrete vectors (translator validation) and the property queries."""
import time
import z3
import sym, models, targets
from sym import Sc, Adt, Ref, Opaque, Panic, Inconclusive, INT_TYPES, F64, RNE, overflowing, int_to_int, int_to_f64, fmod

KINDS = ["Int", "BigInt", "Float", "Byte"]
KTY = {"Int": "i32", "BigInt": "i128", "Float": "f64", "Byte": "u8", "Bool": "bool"}
RANK = {"Byte": 0, "Int": 1, "BigInt": 2, "Float": 3}

ARITH = ["add", "sub", "mul", "div", "rem"]
BITS = ["bitand", "bitor", "bitxor"]
SHIFTS = ["shl", "shr"]
CMPS = ["lt", "le", "gt", "ge"]
BINOPS = ARITH + BITS + SHIFTS + CMPS + ["equals"]
UNOPS = ["negate"]
SYMBOL = {"add": "+", "sub": "-", "mul": "*", "div": "/", "rem": "%", "bitand": "&", "bitor": "|", "bitxor": "xor",
          "shl": "<<", "shr": ">>", "lt": "<", "le": "<=", "gt": ">", "ge": ">=", "equals": "==", "negate": "neg"}

FN_PATTERNS = {
    "add": r"^add::<impl at .*ops/add\.rs.*>::add$", "sub": r"^sub::<impl at .*ops/sub\.rs.*>::sub$",
    "mul": r"^mul::<impl at .*ops/mul\.rs.*>::mul$", "div": r"^div::<impl at .*ops/div\.rs.*>::div$",
    "rem": r"^rem::<impl at .*ops/rem\.rs.*>::rem$",
    "bitand": r"^bitops::<impl at .*>::bitand$", "bitor": r"^bitops::<impl at .*>::bitor$", "bitxor": r"^bitops::<impl at .*>::bitxor$",
    "shl": r"^bitops::<impl at .*>::shl$", "shr": r"^bitops::<impl at .*>::shr$",
    "lt": r"^ord::<impl at .*>::lt$", "le": r"^ord::<impl at .*>::le$", "gt": r"^ord::<impl at .*>::gt$", "ge": r"^ord::<impl at .*>::ge$",
    "equals": r"primitive\.rs.*>::equals$", "negate": r"primitive\.rs.*>::negate$",
}

BOOLOPS = ["and", "or", "bxor"]
SYMBOL.update({"and": "&&", "or": "||", "bxor": "^", "not": "!", "nequals": "!="})
# symbol strings the `bin_op` instruction dispatches on
RT_SYMBOL = {"add": "+", "sub": "-", "mul": "*", "div": "/", "rem": "%", "bitand": "&", "bitor": "|", "bitxor": "xor",
             "shl": "<<", "shr": ">>", "lt": "<", "le": "<=", "gt": ">", "ge": ">=", "equals": "=", "and": "&&", "or": "||", "bxor": "^"}
CRATE_PREFIXES = ["variables::", "context::", "instruction::", "function::", "stack::", "implementations::", "Ctx", "file::"]

RESOLVE = [
    (r"^variables::primitive::Primitive::ty$", r"primitive\.rs.*>::ty$"),
    (r"^variables::primitive::Primitive::equals$", r"primitive\.rs.*>::equals$"),
]


def sym_payload(kind, name):
    if kind == "Str":
        return Opaque("String", name)
    ty = KTY[kind]
    if ty == "f64":
        return Sc("f64", z3.FP(name, F64))
    if ty == "bool":
        return Sc("bool", z3.Bool(name))
    return Sc(ty, z3.BitVec(name, INT_TYPES[ty][0]))


def prim(kind, payload):
    return Adt("Primitive", kind, [payload])


class Path:
    __slots__ = ("pc", "outcome", "rkind", "rval", "site", "msg")

    def __init__(self, pc, outcome, rkind=None, rval=None, site="", msg=""):
        self.pc, self.outcome, self.rkind, self.rval, self.site, self.msg = pc, outcome, rkind, rval, site, msg

    def cond(self):
        return z3.And(*self.pc) if self.pc else z3.BoolVal(True)


class Summary:
    def __init__(self, op, kinds, inputs, paths, fn_name, wall):
        self.op, self.kinds, self.inputs, self.paths, self.fn_name, self.wall = op, kinds, inputs, paths, fn_name, wall
        self.via = "function"


class Kernels:
    """symbolic summaries of the operator kernels for one overflow profile"""

    def __init__(self, mf, overflow_checks, repo, seed=0):
        self.mf = mf
        self.oc = overflow_checks
        self.repo = repo
        targets.register_primitive_enum(repo)
        self.ex = sym.Executor(mf, overflow_checks, models.base_models(), targets.generic_resolver(mf, CRATE_PREFIXES), seed=seed)
        self.instr_fn = {}
        for ins in ("bin_op", "equ", "neq", "bin_op_assign"):
            self.instr_fn[ins] = targets.find_one(mf, r"^%s$" % ins)
        for ins in ("neg", "not"):
            self.instr_fn[ins] = targets.find_one(mf, r"^implementations::%s$" % ins)
        self.fn = {}
        self.default_cmp = {}
        for op, pat in FN_PATTERNS.items():
            pred = targets.by_ref_args if op not in ("negate",) else None
            try:
                self.fn[op] = targets.find_one(mf, pat, pred)
            except Inconclusive:
                if op not in ("lt", "le", "gt", "ge"):
                    raise
                # the crate does not override this comparison: PartialOrd's default method, derived from partial_cmp
                self.fn[op] = targets.find_one(mf, r"^ord::<impl at .*>::partial_cmp$", targets.by_ref_args)
                self.default_cmp[op] = {"lt": ("Less",), "le": ("Less", "Equal"), "gt": ("Greater",), "ge": ("Greater", "Equal")}[op]

    def encoded_functions(self):
        d = {op: {"mir_item": n, "mir_lines": self.mf.func(n).nlines} for op, n in self.fn.items()}
        for ins, n in self.instr_fn.items():
            d["instruction:" + ins] = {"mir_item": n, "mir_lines": self.mf.func(n).nlines}
        return d

    def summarize_assign(self, op, kinds):
        """`bin_op_assign "<sym>=" "x"`: x (left operand, a named variable cell) op= top of stack; the result must be both stored
        into x and left on the stack"""
        t = time.time()
        inputs = [sym_payload(k, "ab"[i]) for i, k in enumerate(kinds)]
        ctx = Adt("Ctx", None, [Adt("Vec", None, [prim(kinds[1], inputs[1])])] + [Opaque("ctx-field", i) for i in range(1, 6)])
        cells = {("ctx",): ctx, ("var", "x"): prim(kinds[0], inputs[0]),
                 ("iargs",): Adt("[]", None, [Opaque("strlit", '"%s="' % RT_SYMBOL[op]), Opaque("strlit", '"x"')])}
        outs = self.ex.run(self.instr_fn["bin_op_assign"], [Ref(("ctx",)), Ref(("iargs",))], cells=cells)
        paths = []
        for o in outs:
            if o.kind == "panic":
                paths.append(Path(o.pc, "panic", site=o.value.site, msg=o.value.msg))
                continue
            v = o.value
            if v.variant == "Err":
                paths.append(Path(o.pc, "err", msg=repr(v.fields[0])[:120]))
                continue
            stack = o.cells[("ctx",)].fields[0]
            var = o.cells[("var", "x")]
            if len(stack.fields) != 1 or not (isinstance(var, Adt) and var.ty == "Primitive"):
                raise Inconclusive("bin_op_assign left stack %r, variable %r" % (stack, var))
            top = stack.fields[0]
            if top.variant != var.variant or (hasattr(top.fields[0], "e") and not z3.eq(z3.simplify(top.fields[0].e), z3.simplify(var.fields[0].e))):
                raise Inconclusive("bin_op_assign: value on the stack and value stored differ (%r vs %r)" % (top, var))
            paths.append(Path(o.pc, "ok", var.variant, var.fields[0]))
        summ = Summary(op, tuple(kinds), inputs, paths, self.instr_fn["bin_op_assign"], time.time() - t)
        summ.via = "instruction `bin_op_assign %s= x`" % RT_SYMBOL[op]
        return summ

    def summarize_instr(self, op, kinds):
        """the same kernel reached the way compiled code reaches it: through the interpreter instruction
        (`bin_op <symbol>`, `equ`, `neq`, `neg`, `not`) acting on the operand stack of a Ctx"""
        t = time.time()
        names = ["a", "b"]
        inputs = [sym_payload(k, names[i]) for i, k in enumerate(kinds)]
        operands = [prim(k, inputs[i]) for i, k in enumerate(kinds)]
        if op in ("equals", "nequals") and True:
            ins, iargs = ("equ" if op == "equals" else "neq"), []
        elif op == "negate":
            ins, iargs = "neg", []
        elif op == "not":
            ins, iargs = "not", []
        else:
            ins, iargs = "bin_op", [Opaque("strlit", '"%s"' % RT_SYMBOL[op])]
        ctx = Adt("Ctx", None, [Adt("Vec", None, operands)] + [Opaque("ctx-field", i) for i in range(1, 6)])
        cells = {("ctx",): ctx, ("iargs",): Adt("[]", None, iargs)}
        outs = self.ex.run(self.instr_fn[ins], [Ref(("ctx",)), Ref(("iargs",))], cells=cells)
        paths = []
        for o in outs:
            if o.kind == "panic":
                paths.append(Path(o.pc, "panic", site=o.value.site, msg=o.value.msg))
                continue
            v = o.value
            if not (isinstance(v, Adt) and v.ty == "Result"):
                raise Inconclusive("instruction %s returned %r" % (ins, v))
            if v.variant == "Err":
                paths.append(Path(o.pc, "err", msg=repr(v.fields[0])[:120]))
                continue
            stack = o.cells[("ctx",)].fields[0]
            if len(stack.fields) != 1:
                raise Inconclusive("instruction %s left %d operands on the stack" % (ins, len(stack.fields)))
            res = stack.fields[0]
            if not (isinstance(res, Adt) and res.ty == "Primitive"):
                raise Inconclusive("instruction %s left %r" % (ins, res))
            paths.append(Path(o.pc, "ok", res.variant, res.fields[0]))
        summ = Summary(op, tuple(kinds), inputs, paths, self.instr_fn[ins], time.time() - t)
        summ.via = "instruction `%s%s`" % (ins, (" " + RT_SYMBOL[op]) if ins == "bin_op" else "")
        return summ

    def summarize(self, op, kinds):
        t = time.time()
        names = ["a", "b"]
        inputs = [sym_payload(k, names[i]) for i, k in enumerate(kinds)]
        cells = {("in", i): prim(k, inputs[i]) for i, k in enumerate(kinds)}
        args = [Ref(("in", i)) for i in range(len(kinds))]
        outs = self.ex.run(self.fn[op], args, cells=cells)
        paths = []
        for o in outs:
            if o.kind == "panic":
                paths.append(Path(o.pc, "panic", site=o.value.site, msg=o.value.msg))
                continue
            v = o.value
            if isinstance(v, Adt) and v.ty == "Result" and v.variant == "Ok" and op not in ("equals", "negate"):
                inner = v.fields[0]
                if isinstance(inner, Adt) and inner.ty == "Primitive" and inner.variant == "Str":
                    paths.append(Path(o.pc, "ok", "Str", inner.fields[0]))
                    continue
            if op in self.default_cmp:
                # Option<Ordering> -> bool, as core's default `lt`/`le`/`gt`/`ge` do
                if not (isinstance(v, Adt) and v.ty == "Option"):
                    raise Inconclusive("partial_cmp returned %r" % (v,))
                v = Sc("bool", z3.BoolVal(v.variant == "Some" and models.ordering_name(v.fields[0]) in self.default_cmp[op]))
            if op in CMPS:
                if not (isinstance(v, Sc) and v.ty == "bool"):
                    raise Inconclusive("%s returned %r" % (op, v))
                paths.append(Path(o.pc, "ok", "Bool", v))
                continue
            if not (isinstance(v, Adt) and v.ty == "Result"):
                raise Inconclusive("%s returned %r" % (op, v))
            if v.variant == "Err":
                paths.append(Path(o.pc, "err", msg=repr(v.fields[0])[:120]))
                continue
            inner = v.fields[0]
            if op == "equals":
                paths.append(Path(o.pc, "ok", "Bool", inner))
            elif op == "negate":
                res = o.cells[("in", 0)]
                paths.append(Path(o.pc, "ok", res.variant, res.fields[0]))
            else:
                if not (isinstance(inner, Adt) and inner.ty == "Primitive"):
                    raise Inconclusive("%s returned Ok(%r)" % (op, inner))
                paths.append(Path(o.pc, "ok", inner.variant, inner.fields[0]))
        return Summary(op, tuple(kinds), inputs, paths, self.fn[op], time.time() - t)


# ---------------------------------------------------------------- reference semantics (the oracle of C05)
def promoted(k1, k2):
    return k1 if RANK[k1] >= RANK[k2] else k2


def conv(kind, payload, target):
    """operand conversion the property names: integers widen value-preservingly, anything -> float via `as f64`"""
    sty, tty = KTY[kind], KTY[target]
    if tty == "f64":
        return payload.e if sty == "f64" else int_to_f64(sty, payload.e)
    if sty == "f64":
        raise ValueError("float does not convert to integer kinds")
    return int_to_int(sty, payload.e, tty)


def feq(x, y):
    """bit-for-bit float equality; any NaN equals any NaN (z3 has a single NaN, `==` is structural)"""
    return x == y


def _o(kind, undefined, value):
    und = {k: v for k, v in undefined.items() if not z3.is_false(z3.simplify(v))}
    defined = z3.Not(z3.Or(*und.values())) if und else z3.BoolVal(True)
    return dict(supported=True, kind=kind, undefined=und, defined=defined, value=value)


def oracle(op, kinds, inputs):
    """-> dict(supported, kind, defined, value)  `defined` false = the exact result is unrepresentable/undefined"""
    if op == "not":
        if kinds[0] == "Bool":
            return _o("Bool", {}, z3.Not(inputs[0].e))
        return dict(supported=False)
    if op in BOOLOPS:
        if tuple(kinds) == ("Bool", "Bool"):
            a, b = inputs
            return _o("Bool", {}, {"and": z3.And(a.e, b.e), "or": z3.Or(a.e, b.e), "bxor": z3.Xor(a.e, b.e)}[op])
        return dict(supported=False)
    if op == "nequals":
        o = oracle("equals", kinds, inputs)
        if o["supported"]:
            o = dict(o, value=z3.Not(o["value"]))
        return o
    if any(k not in RANK for k in kinds):
        if op == "equals" and kinds[0] == kinds[1] == "Bool":
            return _o("Bool", {}, inputs[0].e == inputs[1].e)
        return dict(supported=False)
    if op == "negate":
        k = kinds[0]
        a = inputs[0]
        if k == "Float":
            return _o("Float", {}, z3.fpNeg(a.e))
        if k in ("Int", "BigInt"):
            ty = KTY[k]
            bits = INT_TYPES[ty][0]
            return _o(k, {"overflow": a.e == z3.BitVecVal(sym.int_min(ty), bits)}, -a.e)
        return dict(supported=False)
    k1, k2 = kinds
    a, b = inputs
    pk = promoted(k1, k2)
    pty = KTY[pk]
    if op in BITS + SHIFTS and pk == "Float":
        return dict(supported=False)
    x, y = conv(k1, a, pk), conv(k2, b, pk)
    T = z3.BoolVal(True)
    if pk == "Float":
        if op == "add":
            return _o(pk, {}, z3.fpAdd(RNE, x, y))
        if op == "sub":
            return _o(pk, {}, z3.fpSub(RNE, x, y))
        if op == "mul":
            return _o(pk, {}, z3.fpMul(RNE, x, y))
        if op == "div":
            return _o(pk, {"zero-divisor": z3.fpIsZero(y)}, z3.fpDiv(RNE, x, y))
        if op == "rem":
            return _o(pk, {"zero-divisor": z3.fpIsZero(y)}, fmod(x, y))
        cmpf = {"lt": z3.fpLT, "le": z3.fpLEQ, "gt": z3.fpGT, "ge": z3.fpGEQ, "equals": z3.fpEQ}[op]
        return _o("Bool", {}, cmpf(x, y))
    bits, signed = INT_TYPES[pty]
    if op in ("add", "sub", "mul"):
        res, ovf = overflowing(op.capitalize(), pty, x, y)
        return _o(pk, {"overflow": ovf}, res)
    if op in ("div", "rem"):
        zero = y == z3.BitVecVal(0, bits)
        if op == "div":
            val = (x / y) if signed else z3.UDiv(x, y)
            unrep = z3.And(x == z3.BitVecVal(sym.int_min(pty), bits), y == z3.BitVecVal(-1, bits)) if signed else z3.BoolVal(False)
            return _o(pk, {"zero-divisor": zero, "overflow": unrep}, val)
        val = z3.SRem(x, y) if signed else z3.URem(x, y)
        # MIN % -1 is mathematically 0: representable, hence *defined*
        val = z3.If(y == z3.BitVecVal(-1, bits), z3.BitVecVal(0, bits), val) if signed else val
        return _o(pk, {"zero-divisor": zero}, val)
    if op in ("bitand", "bitor", "bitxor"):
        val = {"bitand": x & y, "bitor": x | y, "bitxor": x ^ y}[op]
        return _o(pk, {}, val)
    if op in ("shl", "shr"):
        # amount: the right operand's own value; fails iff negative or >= width of the promoted left operand
        rty = KTY[k2]
        rbits, rsigned = INT_TYPES[rty]
        amt = b.e
        nonneg = (amt >= 0) if rsigned else T
        wide = max(rbits, 16)
        amt_w = int_to_int(rty, amt, "i128" if rsigned else "u128")
        inrange = z3.And(nonneg, z3.ULT(amt_w, z3.BitVecVal(bits, 128)))
        sh = z3.Extract(bits - 1, 0, amt_w) if bits < 128 else amt_w
        if op == "shl":
            val = x << sh
        else:
            val = (x >> sh) if signed else z3.LShR(x, sh)
        return _o(pk, {"shift-range": z3.Not(inrange)}, val)
    if op in CMPS + ["equals"]:
        if signed:
            f = {"lt": lambda p, q: p < q, "le": lambda p, q: p <= q, "gt": lambda p, q: p > q, "ge": lambda p, q: p >= q,
                 "equals": lambda p, q: p == q}[op]
        else:
            f = {"lt": z3.ULT, "le": z3.ULE, "gt": z3.UGT, "ge": z3.UGE, "equals": lambda p, q: p == q}[op]
        return _o("Bool", {}, f(x, y))
    raise ValueError(op)


# ---------------------------------------------------------------- concrete evaluation of a summary
def const_of(kind, bits_value):
    if unheap(kind) in ("Nil", "Str"):
        return z3.BitVecVal(0, 8)        # no numeric payload: the input slot is a dummy
    ty = KTY[base_kind(kind)]
    if ty == "f64":
        return z3.fpBVToFP(z3.BitVecVal(bits_value, 64), F64)
    if ty == "bool":
        return z3.BoolVal(bool(bits_value))
    return z3.BitVecVal(bits_value, INT_TYPES[ty][0])


def value_bits(kind, e):
    """concrete z3 value -> ('nan' | int bit pattern)"""
    e = z3.simplify(e)
    ty = KTY[kind]
    if ty == "f64":
        if z3.is_fp_value(e) or z3.is_fp(e):
            if z3.is_true(z3.simplify(z3.fpIsNaN(e))):
                return "nan"
            b = z3.simplify(z3.fpToIEEEBV(e))
            if z3.is_bv_value(b):
                return b.as_long()
        raise Inconclusive("non-concrete float %s" % e)
    if ty == "bool":
        if z3.is_true(e):
            return 1
        if z3.is_false(e):
            return 0
        raise Inconclusive("non-concrete bool %s" % e)
    if not z3.is_bv_value(e):
        raise Inconclusive("non-concrete value %s" % e)
    return e.as_long()


def eval_summary(summ, values):
    """values: list of bit patterns per input -> ('OK', kind, bits) | ('ERR',) | ('PANIC',)"""
    subs = [(summ.inputs[i].e, const_of(summ.kinds[i], values[i])) for i in range(len(values))]
    hits = []
    for p in summ.paths:
        c = z3.simplify(z3.substitute(p.cond(), *subs))
        if z3.is_true(c):
            hits.append(p)
        elif not z3.is_false(c):
            # residual condition over environment variables (e.g. logging enabled) or a term simplify cannot fold
            s = z3.Solver()
            s.add(c)
            r = s.check()
            if r == z3.sat:
                hits.append(p)
            elif r != z3.unsat:
                raise Inconclusive("cannot decide a path condition on concrete input")
    if not hits:
        raise Inconclusive("no path of %s%s is enabled for %r" % (summ.op, summ.kinds, values))
    results = set()
    for hit in hits:
        if hit.outcome == "panic":
            results.add(("PANIC",))
        elif hit.outcome == "err":
            results.add(("ERR",))
        else:
            v = z3.substitute(hit.rval.e, *subs)
            results.add(("OK", hit.rkind, value_bits(hit.rkind, v)))
    if len(results) != 1:
        raise Inconclusive("paths of %s%s enabled for %r disagree: %r" % (summ.op, summ.kinds, values, results))
    return results.pop()


BOUNDARY = {
    "Int": [0x80000000, 0x80000001, 0xFFFFFFFF, 0, 1, 2, 31, 32, 33, 0x7FFFFFFE, 0x7FFFFFFF, 0x40000000, 0xFFFFFF80, 255, 256],
    "BigInt": [1 << 127, (1 << 127) + 1, (1 << 128) - 1, 0, 1, 2, 127, 128, (1 << 127) - 2, (1 << 127) - 1, 1 << 64, (1 << 32), (1 << 31),
               (1 << 128) - (1 << 31) - 1, (1 << 53) + 1, 4294967299, (1 << 128) - 1000],
    "Byte": [0, 1, 2, 7, 8, 9, 127, 128, 254, 255, 0x64],
    "Bool": [0, 1],
    "Float": [0x0000000000000000, 0x8000000000000000, 0x3FF0000000000000, 0xBFF0000000000000, 0x3FE0000000000000, 0x7FF0000000000000,
              0xFFF0000000000000, 0x7FF8000000000000, 0x0000000000000001, 0x7FEFFFFFFFFFFFFF, 0x41E0000000000000, 0xC1E0000000000000,
              0x4340000000000000, 0x4008000000000000, 0xC020000000000000, 0x3FB999999999999A, 0x47E0000000000000, 0x43E0000000000000],
}


# ---------------------------------------------------------------- optional operands (C12)
OPT_KINDS = ["Nil", "SomeInt", "SomeBigInt", "SomeFloat", "SomeByte", "SomeBool"]
BOUNDARY["Nil"] = [0]
BOUNDARY["Str"] = [0x31]
for _k in ("Int", "BigInt", "Float", "Byte", "Bool"):
    BOUNDARY["Some" + _k] = BOUNDARY[_k]


HEAP_KINDS = ["HeapNil", "HeapSomeInt", "HeapSomeFloat", "HeapInt", "HeapBool"]
BOUNDARY["HeapNil"] = [0]
for _k in ("HeapSomeInt", "HeapInt"):
    BOUNDARY[_k] = BOUNDARY["Int"]
BOUNDARY["HeapSomeFloat"] = BOUNDARY["Float"]
BOUNDARY["HeapBool"] = BOUNDARY["Bool"]


def unheap(kind):
    return kind[4:] if kind.startswith("Heap") else kind


def base_kind(kind):
    kind = unheap(kind)
    return kind[4:] if kind.startswith("Some") else kind


def is_present(kind):
    return kind != "Nil"


def opt_payload(kind, name):
    if unheap(kind) == "Nil":
        return Sc("u8", z3.BitVecVal(0, 8))      # no payload; a dummy so that every operand has an input slot
    return sym_payload(base_kind(kind), name)


def opt_prim(cells, key, kind, payload):
    """Primitive value for an operand kind incl. Nil / Some<K>; Some boxes its payload in a heap cell.  Heap<shape> is a
    HeapPrimitive::Lookup reference to a variable cell holding the shape (what `get l[i]`, `get obj.f` leave on the stack)."""
    if kind.startswith("Heap"):
        inner = opt_prim(cells, key + ("inner",), unheap(kind), payload)
        cells[key + ("var",)] = inner
        pair = Adt("PrimitiveFlagsPair", None, [Ref(key + ("var",))])
        return Adt("Primitive", "HeapPrimitive", [Adt("HeapPrimitive", "Lookup", [pair])])
    if kind == "Nil":
        return Adt("Primitive", "Optional", [Adt("Option", "None", [])])
    if kind.startswith("Some"):
        cells[key] = prim(base_kind(kind), payload)
        box = Adt("Box", None, [Adt("Unique", None, [Ref(key)]), Adt("Global", None, [])])
        return Adt("Primitive", "Optional", [Adt("Option", "Some", [box])])
    return prim(kind, payload)


def decode_prim(cells, p):
    """-> (kind name incl. Nil/Some<K>, payload Sc or None) of a Primitive value found after execution"""
    if not (isinstance(p, Adt) and p.ty == "Primitive"):
        raise Inconclusive("expected a Primitive, got %r" % (p,))
    if p.variant == "HeapPrimitive":
        hp = p.fields[0]
        ref = hp.fields[0].fields[0]
        k, v = decode_prim(cells, cells[ref.cell])
        return "Heap" + k, v
    if p.variant != "Optional":
        return p.variant, p.fields[0]
    o = p.fields[0]
    if o.variant == "None":
        return "Nil", None
    box = o.fields[0]
    inner = box
    # Box(Unique(NonNull=Ref))
    n = 0
    while isinstance(inner, Adt) and inner.ty in ("Box", "Unique", "NonNull") and n < 4:
        inner = inner.fields[0]
        n += 1
    if isinstance(inner, Ref):
        inner = cells[inner.cell]
        for i in ():
            pass
    k, v = decode_prim(cells, inner)
    return "Some" + k, v
