"""The decimal codec of std as an abstract contract (engine B).

A `String` produced by `T::to_string(v)` is the term dec(T, v, negs): the decimal text of value v of type T with `negs`
leading '-' characters prepended by repo code (`"-".to_owned() + x`).  `str::parse::<U>` / `U::from_str` of such a term
follows std's documented behaviour: integers parse iff the text is an optionally signed digit string whose value fits U;
`f64` parsing is the correctly rounded conversion (so parse(to_string(x)) == x, and an integer text parses to the
nearest double = `v as f64`).  A defect inside std's Display/FromStr is outside the claim; which type a string is parsed
as, which value went in, and which kind tag the result gets is inside.
"""
import re
import z3
from sym import Sc, Adt, Ref, Opaque, Panic, Inconclusive, INT_TYPES, F64, RNE, int_to_int, int_to_f64, int_min, int_max
from models import ok, err, some, NONE, scalar, m_abs_string, _strlit

WIDE = 136  # bits used for exact integer arithmetic on values up to 128 bits


def dec(ty, e, negs=0):
    return Opaque("dec", (ty, e, negs))


def is_dec(v):
    return isinstance(v, Opaque) and v.tag == "dec"


def as_dec(ex, st, v):
    v = ex.deref(st, v)
    return v if is_dec(v) else None


def widen(ty, e):
    bits, signed = INT_TYPES[ty]
    return z3.SignExt(WIDE - bits, e) if signed else z3.ZeroExt(WIDE - bits, e)


def parse_contract(d, target):
    """-> (ok_condition, value expr of type `target`)   for a dec term d"""
    ty, e, negs = d.data
    if ty == "f64":
        if target != "f64":
            raise Inconclusive("parse::<%s> of a float text" % target)
        if negs == 0:
            return z3.BoolVal(True), e
        if negs == 1:
            # "-" + text: valid iff the text itself has no sign, i.e. the float prints without '-' (NaN prints "NaN")
            has_sign = z3.And(z3.fpIsNegative(e), z3.Not(z3.fpIsNaN(e)))
            return z3.Not(has_sign), z3.fpNeg(e)
        return z3.BoolVal(False), e
    if negs >= 2:
        return z3.BoolVal(False), (z3.FPVal(0.0, F64) if target == "f64" else z3.BitVecVal(0, INT_TYPES[target][0]))
    w = widen(ty, e)
    valid = z3.BoolVal(True)
    if negs == 1:
        valid = w >= 0          # "--5" does not parse; "-0" does
        w = -w
    if target == "f64":
        # correctly rounded decimal -> double == RNE conversion of the integer; "-0" parses to -0.0
        src_bits, src_signed = INT_TYPES[ty]
        base = int_to_f64(ty, e)
        val = z3.fpNeg(base) if negs == 1 else base
        return valid, val
    tb, ts = INT_TYPES[target]
    lo, hi = int_min(target), int_max(target)
    fits = z3.And(w >= z3.BitVecVal(lo, WIDE), w <= z3.BitVecVal(hi, WIDE))
    if negs == 1 and not ts:
        # unsigned FromStr rejects a leading '-' altogether
        fits = z3.BoolVal(False)
    return z3.And(valid, fits), z3.Extract(tb - 1, 0, w)


_parse_re = re.compile(r"^core::str::<impl str>::parse::<(\w+)>$|^<(\w+) as FromStr>::from_str$")


def m_parse(ex, st, callee, args):
    m = _parse_re.match(callee)
    target = m.group(1) or m.group(2)
    d = as_dec(ex, st, args[0])
    if d is None:
        raise Inconclusive("parse of a string that is not a decimal term: %r" % (ex.deref(st, args[0]),))
    if target not in INT_TYPES and target != "f64":
        raise Inconclusive("parse::<%s>" % target)
    okc, val = parse_contract(d, target)
    return [(okc, ok(Sc(target, val))), (z3.Not(okc), err(Opaque("ParseError", target)))]


_tostring_re = re.compile(r"^<(i8|i16|i32|i64|i128|isize|u8|u16|u32|u64|u128|usize|f64) as ToString>::to_string$")


def m_to_string(ex, st, callee, args):
    ty = _tostring_re.match(callee).group(1)
    v = scalar(ex, st, args[0])
    if v.ty != ty:
        raise Inconclusive("to_string type mismatch %s vs %s" % (v.ty, ty))
    return [(None, dec(ty, v.e))]


def m_string_view(ex, st, callee, args):
    """Deref / as_str / clone / to_owned of a decimal term keep the term"""
    d = as_dec(ex, st, args[0])
    if d is not None:
        return [(None, d)]
    lit = _strlit(ex, st, args[0])
    if lit is not None:
        return [(None, lit)]
    return m_abs_string(ex, st, callee, args)


def m_string_concat(ex, st, callee, args):
    """<String as Add<&str>>::add(lhs, rhs): only `"-" + <decimal term>` is understood"""
    a = ex.deref(st, args[0])
    b = as_dec(ex, st, args[1])
    if isinstance(a, Opaque) and a.tag == "strlit" and a.data == '"-"' and b is not None:
        ty, e, negs = b.data
        return [(None, dec(ty, e, negs + 1))]
    return m_abs_string(ex, st, callee, args)


def install(m):
    """prepend the decimal models (they must win over the abstract-string models)"""
    pre = [
        (_parse_re.pattern, m_parse),
        (_tostring_re.pattern, m_to_string),
        (r"^<String as Deref>::deref$|^String::as_str$|^<String as Clone>::clone$|^<(String|str) as ToOwned>::to_owned$|^<String as Borrow<str>>::borrow$", m_string_view),
        (r"^<String as (std::ops::)?Add<&str>>::add$", m_string_concat),
    ]
    m.table = [(re.compile(p), h) for p, h in pre] + m.table
    m.cache.clear()
    return m
