"""File-system environment for `clean_command` (C20): the directory listing is a symbolic input, deletions are recorded effects.

Contracts modelled (std documentation):
  read_dir(p)            -> Err (arbitrary) | Ok(iterator over the entries of p; never yields `.` or `..`; names contain no `/`, no NUL)
  ReadDir::next          -> Some(Err) (arbitrary, per entry) | Some(Ok(DirEntry)) | None after the last entry
  DirEntry::file_name    -> the bare name;  DirEntry::path -> <dir>/<name>
  Path::extension        -> None if there is no `.` in the file name or the only `.` is the first character;
                            otherwise the part after the LAST `.`  (`..` has no file name; read_dir never yields it)
  remove_file(p)         -> recorded effect; Ok | Err (arbitrary per call: permissions, directories, races)
  std::io::_print        -> recorded effect (template, arguments)
Names are SStr values: concrete length, symbolic characters.
"""
import re
import z3
from sym import Sc, Adt, Ref, Opaque, Panic, Inconclusive, UNIT, bv, boolv, Invoke
from models import some, NONE, ok, err, scalar
from strmodels import sstr, is_sstr, need, literal_chars, decode_template, ch

DOT = 0x2E


def _val(ex, st, v, depth=6):
    n = 0
    while isinstance(v, Ref) and n < depth:
        v = ex.read(st, v.cell, v.path)
        n += 1
    return v


def m_path_new(ex, st, callee, args):
    return [(None, args[0])]


def m_identity(ex, st, callee, args):
    return [(None, args[0])]


def m_opaque(tag):
    def h(ex, st, callee, args):
        return [(None, Opaque(tag, tuple(args)))]
    return h


def m_read_dir(ex, st, callee, args):
    env = st.cells.get(("fs",))
    if env is None:
        raise Inconclusive("read_dir without a file-system environment")
    st.effects.append(("read_dir", _val(ex, st, args[0])))
    fail = env.fields[0].e
    it = Adt("ReadDir", None, [bv("usize", 0)])
    return [(z3.Not(fail), ok(it)), (fail, err(Opaque("io::Error", "read_dir")))]


def m_readdir_next(ex, st, callee, args):
    ref = args[0]
    while True:
        v = ex.read(st, ref.cell, ref.path)
        if isinstance(v, Ref):
            ref = v
            continue
        break
    if not (isinstance(v, Adt) and v.ty == "ReadDir"):
        raise Inconclusive("ReadDir::next on %r" % (v,))
    env = st.cells[("fs",)]
    entries = env.fields[1].fields
    i = z3.simplify(v.fields[0].e).as_long()
    st.effects.append(("next", i))
    if i >= len(entries):
        return [(None, NONE)]
    ex.write(st, ref.cell, ref.path, Adt("ReadDir", None, [bv("usize", i + 1)]))
    name, ent_err, _ = entries[i].fields
    de = Adt("DirEntry", None, [bv("usize", i), name])
    return [(z3.Not(ent_err.e), some(ok(de))), (ent_err.e, some(err(Opaque("io::Error", ("entry", i)))))]


def _dirent(ex, st, v):
    v = _val(ex, st, v)
    if not (isinstance(v, Adt) and v.ty == "DirEntry"):
        raise Inconclusive("expected a DirEntry, got %r" % (v,))
    return v


def m_file_name(ex, st, callee, args):
    return [(None, _dirent(ex, st, args[0]).fields[1])]


def m_entry_path(ex, st, callee, args):
    d = _dirent(ex, st, args[0])
    return [(None, Adt("PathBuf", None, [Opaque("listed-dir", None), d.fields[0], d.fields[1]]))]


def _name(ex, st, v, what):
    v = _val(ex, st, v)
    if isinstance(v, Adt) and v.ty == "PathBuf":
        v = v.fields[2]
    if not is_sstr(v):
        raise Inconclusive("%s on %r" % (what, v))
    return v


def m_extension(ex, st, callee, args):
    s_ = _name(ex, st, args[0], "Path::extension")
    cs = list(s_.fields)
    n = len(cs)
    out = []
    nodot_after = lambda p: [c.e != DOT for c in cs[p + 1:]]
    # last dot at position p >= 1 -> Some(after)
    for p in range(1, n):
        out.append((z3.And(cs[p].e == DOT, *nodot_after(p)), some(sstr(cs[p + 1:]))))
    # no dot at all, or the only dot is the first character -> None
    out.append((z3.And(*[c.e != DOT for c in cs[1:]]) if n > 1 else z3.BoolVal(True), NONE))
    return out


def m_file_stem_or_name(ex, st, callee, args):
    return [(None, some(_name(ex, st, args[0], callee)))]


def m_is_some_and(ex, st, callee, args):
    v = _val(ex, st, args[0])
    if not (isinstance(v, Adt) and v.ty == "Option"):
        raise Inconclusive("is_some_and on %r" % (v,))
    if v.variant == "None":
        return [(None, boolv(False))]
    fn = ex.closure_fn(callee)
    if fn is None:
        raise Inconclusive("no MIR item for the closure in " + callee)
    return [(None, Invoke(fn, [args[1], v.fields[0]], lambda st2, val: val))]


def _lit_or_sstr(ex, st, v):
    v = _val(ex, st, v)
    if is_sstr(v):
        return v
    try:
        return sstr([ch(b) for b in literal_chars(v.data if hasattr(v, "data") else v)])
    except Exception:
        raise Inconclusive("string comparison operand %r" % (v,))


def _str_eq(a, b, fold=False):
    if len(a.fields) != len(b.fields):
        return z3.BoolVal(False)

    def low(e):
        return z3.If(z3.And(z3.UGE(e, 0x41), z3.ULE(e, 0x5A)), e + 0x20, e)
    return z3.And(*[(low(x.e) == low(y.e)) if fold else (x.e == y.e) for x, y in zip(a.fields, b.fields)]) if a.fields else z3.BoolVal(True)


def m_osstr_eq(ex, st, callee, args):
    from strmodels import to_sstr
    a = to_sstr(ex, st, args[0])
    b = to_sstr(ex, st, args[1])
    if a is None or b is None:
        raise Inconclusive("OsStr comparison of %r and %r" % (args[0], args[1]))
    r = _str_eq(a, b, fold="ignore_ascii_case" in callee)
    if "::ne" in callee:
        r = z3.Not(r)
    return [(None, Sc("bool", z3.simplify(r)))]


def m_str_ends_starts(ex, st, callee, args):
    from strmodels import to_sstr
    a = to_sstr(ex, st, args[0])
    b = to_sstr(ex, st, args[1])
    if a is None or b is None:
        raise Inconclusive("%s of %r and %r" % (callee, args[0], args[1]))
    if len(b.fields) > len(a.fields):
        return [(None, boolv(False))]
    part = a.fields[len(a.fields) - len(b.fields):] if "ends_with" in callee else a.fields[:len(b.fields)]
    return [(None, Sc("bool", z3.simplify(_str_eq(sstr(part), b))))]


def m_to_str_some(ex, st, callee, args):
    """OsStr::to_str / Path::to_str on ASCII names: always Some (the text of a full <DIR>/<name> path is not modelled)"""
    v = _val(ex, st, args[0])
    if isinstance(v, Adt) and v.ty == "PathBuf":
        raise Inconclusive("text of a full path is not modelled")
    return [(None, some(_name(ex, st, v, callee)))]


def m_to_string_lossy(ex, st, callee, args):
    """OsStr::to_string_lossy on an ASCII name: Cow::Borrowed(the name)"""
    return [(None, Adt("Cow", "Borrowed", [_name(ex, st, args[0], callee)]))]


def m_canonicalize(ex, st, callee, args):
    """Path::canonicalize / fs::canonicalize: fails, or yields the absolute path with every symbolic link resolved - which names
    the listed entry only if that entry is not a symbolic link; modelled as a path that is NOT <DIR>/<listed name>"""
    p = _val(ex, st, args[0])
    f = ex.fresh("bool", "canonicalize_err").e
    return [(z3.Not(f), ok(Adt("CanonicalPath", None, [p]))), (f, err(Opaque("io::Error", "canonicalize")))]


def _entry_kind(ex, st, i):
    env = st.cells[("fs",)]
    kinds = env.fields[3].fields
    return kinds[i]


def m_file_type(ex, st, callee, args):
    """DirEntry::file_type / metadata: fails (arbitrary) or describes the entry's kind (symbolic per entry)"""
    d = _dirent(ex, st, args[0])
    i = z3.simplify(d.fields[0].e).as_long()
    f = ex.fresh("bool", "file_type_err%d" % i).e
    return [(z3.Not(f), ok(Adt("FileType", None, [bv("usize", i)]))), (f, err(Opaque("io::Error", ("file_type", i))))]


def m_kind_test(ex, st, callee, args):
    t = _val(ex, st, args[0])
    if not (isinstance(t, Adt) and t.ty == "FileType"):
        raise Inconclusive("%s on %r" % (callee, t))
    i = z3.simplify(t.fields[0].e).as_long()
    k = _entry_kind(ex, st, i)          # 0 = regular file, 1 = directory, 2 = symbolic link
    want = {"is_file": 0, "is_dir": 1, "is_symlink": 2}[callee.split("::")[-1]]
    return [(None, Sc("bool", k.e == want))]


def m_rsplit(ex, st, callee, args):
    """str::rsplit(char): pieces from the END; modelled lazily for its `next()` calls"""
    from strmodels import to_sstr
    s_ = to_sstr(ex, st, args[0])
    sep = args[1]
    if s_ is None or not isinstance(sep, Sc):
        raise Inconclusive("rsplit of %r by %r" % (args[0], args[1]))
    return [(None, Adt("RSplitIter", None, [s_, sep, Sc("bool", z3.BoolVal(False))]))]


def m_rsplit_next(ex, st, callee, args):
    r = args[0]
    it = ex.read(st, r.cell, r.path)
    n_ = 0
    while isinstance(it, Ref) and n_ < 4:
        r = it
        it = ex.read(st, r.cell, r.path)
        n_ += 1
    if not (isinstance(it, Adt) and it.ty == "RSplitIter"):
        raise Inconclusive("rsplit next on %r" % (it,))
    s_, sep, done = it.fields
    if z3.is_true(z3.simplify(done.e)):
        return [(None, NONE)]
    cs = list(s_.fields)
    n = len(cs)
    out = []
    for p in range(n - 1, -1, -1):
        cond = z3.And(cs[p].e == sep.e, *[c.e != sep.e for c in cs[p + 1:]])
        nxt = Adt("RSplitIter", None, [sstr(cs[:p]), sep, Sc("bool", z3.BoolVal(False))])
        out.append((cond, ("write+", r, nxt, some(sstr(cs[p + 1:])))))
    nosep = z3.And(*[c.e != sep.e for c in cs]) if cs else z3.BoolVal(True)
    out.append((nosep, ("write+", r, Adt("RSplitIter", None, [sstr([]), sep, Sc("bool", z3.BoolVal(True))]), some(sstr(cs)))))
    return out


def m_option_str_eq(ex, st, callee, args):
    from strmodels import to_sstr
    a, b = _val(ex, st, args[0], depth=2), _val(ex, st, args[1], depth=2)
    if not all(isinstance(x, Adt) and x.ty == "Option" for x in (a, b)):
        raise Inconclusive("Option<&str> comparison of %r and %r" % (a, b))
    neg = callee.endswith("::ne")
    if a.variant != b.variant:
        r = z3.BoolVal(False)
    elif a.variant == "None":
        r = z3.BoolVal(True)
    else:
        x, y = to_sstr(ex, st, a.fields[0]), to_sstr(ex, st, b.fields[0])
        if x is None or y is None:
            raise Inconclusive("Option<&str> comparison of abstract strings")
        r = _str_eq(x, y)
    return [(None, Sc("bool", z3.simplify(z3.Not(r) if neg else r)))]


def m_path_kind(ex, st, callee, args):
    """Path::is_dir / is_file / is_symlink on <DIR>/<listed name>: the entry's (symbolic) kind; is_dir / is_file follow links"""
    p = _val(ex, st, args[0])
    if not (isinstance(p, Adt) and p.ty == "PathBuf"):
        raise Inconclusive("%s on %r" % (callee, p))
    i = z3.simplify(p.fields[1].e).as_long()
    k = _entry_kind(ex, st, i)
    name = callee.split("::")[-1]
    if name == "is_symlink":
        return [(None, Sc("bool", k.e == 2))]
    # a symbolic link may point at a file or at a directory: arbitrary
    via_link = ex.fresh("bool", "link_target_is_%s" % name[3:]).e
    want = {"is_file": 0, "is_dir": 1}[name]
    return [(None, Sc("bool", z3.If(k.e == 2, via_link, k.e == want)))]


def m_remove(ex, st, callee, args):
    target = _val(ex, st, args[0])
    kind = callee.split("::<")[0].split("::")[-1]
    k = len([e for e in st.effects if e[0] in ("remove_file", "remove_dir", "remove_dir_all")])
    st.effects.append((kind, target))
    env = st.cells[("fs",)]
    # the outcome of the k-th deleting call is an arbitrary environment value
    fails = env.fields[2].fields
    if k >= len(fails):
        raise Inconclusive("more deleting calls than directory entries")
    f = fails[k].e
    return [(z3.Not(f), ok(UNIT)), (f, err(Opaque("io::Error", ("remove", k))))]


def m_print(ex, st, callee, args):
    a = args[0]
    if not (isinstance(a, Opaque) and a.tag == "fmt"):
        raise Inconclusive("_print of %r" % (a,))
    name, fargs = a.data
    pieces, vals = [], []
    if "from_str" in name:
        pieces = [("lit", bytes(literal_chars(fargs[0].data)).decode("utf-8", "replace"))]
    else:
        pieces = decode_template(fargs[0].data)
        arr = ex.deref(st, fargs[1])
        for it in arr.fields:
            if isinstance(it, Opaque) and it.tag == "fmt":
                vals.append(_val(ex, st, it.data[1][0]))
            else:
                vals.append(it)
    st.effects.append(("print", tuple(pieces), tuple(vals)))
    return [(None, UNIT)]


def install(m):
    pre = [
        (r"^Path::new::<", m_path_new),
        (r"^Path::display$|^<PathBuf as Deref>::deref$|^<PathBuf as AsRef<Path>>::as_ref$|^PathBuf::as_path$", m_identity),
        (r"^<std::path::Display<'_> as ToString>::to_string$", m_opaque("path-text")),
        (r"^<(std::string::)?String as Deref>::deref$", m_identity),
        (r"^<(std::ffi::)?OsString as Deref>::deref$|^(std::ffi::)?OsString::as_os_str$|^<(std::ffi::)?OsString as AsRef<(std::ffi::)?OsStr>>::as_ref$", m_identity),
        (r"^<&str as colored::Colorize>::\w+$", m_opaque("colored")),
        (r"^read_dir::<", m_read_dir),
        (r"^<ReadDir as IntoIterator>::into_iter$", m_identity),
        (r"^<ReadDir as Iterator>::next$", m_readdir_next),
        (r"^DirEntry::file_name$", m_file_name),
        (r"^DirEntry::path$", m_entry_path),
        (r"^Path::extension$", m_extension),
        (r"^Path::file_name$", m_file_stem_or_name),
        (r"^Option::<&std::ffi::OsStr>::is_some_and::<", m_is_some_and),
        (r"^<&?std::ffi::OsStr as PartialEq<&?str>>::(eq|ne)$|^<&?str as PartialEq<&?std::ffi::OsStr>>::(eq|ne)$", m_osstr_eq),
        (r"^std::ffi::OsStr::eq_ignore_ascii_case::<", m_osstr_eq),
        (r"^std::ffi::OsStr::to_str$|^Path::to_str$", m_to_str_some),
        (r"^core::str::<impl str>::(ends_with|starts_with)::<&str>$", m_str_ends_starts),
        (r"^(std::fs::)?(remove_file|remove_dir|remove_dir_all)::<", m_remove),
        (r"^std::io::_print$", m_print),
        (r"^std::ffi::OsStr::to_string_lossy$|^Path::to_string_lossy$", m_to_string_lossy),
        (r"^(core::)?str::<impl str>::rsplit::<char>$", m_rsplit),
        (r"^<(std::str::|core::str::)?RSplit<'_, char> as Iterator>::next$", m_rsplit_next),
        (r"^<Option<&str> as PartialEq>::(eq|ne)$", m_option_str_eq),
        (r"^Path::(is_dir|is_file|is_symlink)$|^PathBuf::(is_dir|is_file|is_symlink)$", m_path_kind),
        (r"^Path::canonicalize$|^(std::fs::)?canonicalize::<", m_canonicalize),
        (r"^DirEntry::(file_type|metadata)$", m_file_type),
        (r"^(std::fs::)?(FileType|Metadata)::(is_file|is_dir|is_symlink)$", m_kind_test),
    ]
    m.table = [(re.compile(p), h) for p, h in pre] + m.table
    m.cache.clear()
    return m


def make_env(lengths, allowed):
    """symbolic directory listing: one entry per length in `lengths`; returns (cell value, variables, assumptions)"""
    names, ent_err, rm_err, kinds, pc = [], [], [], [], []
    for i, n in enumerate(lengths):
        cs = [z3.BitVec("n%d_%d" % (i, j), 32) for j in range(n)]
        names.append(cs)
        ent_err.append(z3.Bool("entry_err%d" % i))
        rm_err.append(z3.Bool("remove_err%d" % i))
        k = z3.BitVec("kind%d" % i, 8)
        kinds.append(k)
        pc.append(z3.ULE(k, 2))
        for c in cs:
            pc.append(allowed(c))
        # read_dir never yields `.` or `..`
        if n == 1:
            pc.append(cs[0] != DOT)
        if n == 2:
            pc.append(z3.Not(z3.And(cs[0] == DOT, cs[1] == DOT)))
    rd_err = z3.Bool("read_dir_err")
    entries = [Adt("Entry", None, [sstr([Sc("char", c) for c in cs]), Sc("bool", e), UNIT]) for cs, e in zip(names, ent_err)]
    env = Adt("Fs", None, [Sc("bool", rd_err), Adt("[]", None, entries), Adt("[]", None, [Sc("bool", e) for e in rm_err]),
                           Adt("[]", None, [Sc("u8", k) for k in kinds])])
    return env, {"names": names, "entry_err": ent_err, "remove_err": rm_err, "read_dir_err": rd_err, "kinds": kinds}, pc
