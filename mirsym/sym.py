"""Symbolic executor over parsed MIR (see mir.py), z3 back end.

Path-wise forward execution; every branch on a symbolic scalar forks the state, infeasible sides are
pruned by the solver.  All target functions are loop-free: re-entering a block more than `LOOP_LIMIT`
times on one path raises Inconclusive.  Unknown callees, unparsed statements and unexpected types raise
Inconclusive as well - a change to /repo can make this engine give up, it cannot make it lie.
"""
import re
import z3
from mir import MirError, Place, Operand, stmt_of, term_of

LOOP_LIMIT = 40


class Inconclusive(Exception):
    pass


# ---------------------------------------------------------------- types
INT_TYPES = {}
for _b in (8, 16, 32, 64, 128):
    INT_TYPES["i%d" % _b] = (_b, True)
    INT_TYPES["u%d" % _b] = (_b, False)
INT_TYPES["isize"] = (64, True)
INT_TYPES["usize"] = (64, False)
INT_TYPES["char"] = (32, False)

F64 = z3.Float64()
RNE = z3.RNE()
RTZ = z3.RTZ()


def is_int_ty(t):
    return t in INT_TYPES


def int_min(t):
    b, s = INT_TYPES[t]
    return -(1 << (b - 1)) if s else 0


def int_max(t):
    b, s = INT_TYPES[t]
    return (1 << (b - 1)) - 1 if s else (1 << b) - 1


# ---------------------------------------------------------------- values
class Sc:
    """scalar: int / bool / f64"""
    __slots__ = ("ty", "e")

    def __init__(self, ty, e):
        self.ty, self.e = ty, e

    def __repr__(self):
        return "%s:%s" % (self.ty, z3.simplify(self.e) if self.e is not None else None)


class Adt:
    """enum variant / struct / tuple / array.  ty = short type name ('Primitive', 'Option', '()', '[]', closure..)"""
    __slots__ = ("ty", "variant", "fields")

    def __init__(self, ty, variant, fields):
        self.ty, self.variant, self.fields = ty, variant, tuple(fields)

    def __repr__(self):
        return "%s::%s%r" % (self.ty, self.variant, self.fields) if self.variant else "%s%r" % (self.ty, self.fields)


class Ref:
    __slots__ = ("cell", "path")

    def __init__(self, cell, path=()):
        self.cell, self.path = cell, tuple(path)

    def __repr__(self):
        return "&%s%s" % (self.cell, list(self.path) if self.path else "")


class Opaque:
    """a value whose content is not modelled (errors, fmt arguments, abstract strings...)"""
    __slots__ = ("tag", "data")

    def __init__(self, tag, data=None):
        self.tag, self.data = tag, data

    def __repr__(self):
        return "<%s %r>" % (self.tag, self.data)


class Undef:
    def __repr__(self):
        return "undef"


UNDEF = Undef()
UNIT = Adt("()", None, ())


def bv(ty, n):
    return Sc(ty, z3.BitVecVal(n, INT_TYPES[ty][0]))


def boolv(b):
    return Sc("bool", z3.BoolVal(bool(b)))


def f64v(x):
    return Sc("f64", z3.FPVal(x, F64))


class Panic:
    def __init__(self, msg, site=""):
        self.msg, self.site = msg, site

    def __repr__(self):
        return "Panic(%s @ %s)" % (self.msg, self.site)


# enum name -> ordered variant list (index = discriminant).  Repo enums are registered by the drivers from
# the *source* (and validated at run time by downcast/variant consistency).
ENUMS = {
    "Option": ["None", "Some"],
    "Result": ["Ok", "Err"],
    "ControlFlow": ["Continue", "Break"],
    "Cow": ["Borrowed", "Owned"],
}
ORDERING = {"Less": -1, "Equal": 0, "Greater": 1}


# ---------------------------------------------------------------- state
class Invoke:
    """request from a std model to run a closure / function of the crate under test on `args`; `then(st, value)` receives
    its return value and yields either the model's final value or another Invoke (e.g. the next element of an iterator)"""

    def __init__(self, fn_name, args, then):
        self.fn_name, self.args, self.then = fn_name, args, then


class Forks:
    """result of an Invoke continuation that splits the path: [(condition, value)]"""

    def __init__(self, items):
        self.items = items


class Frame:
    __slots__ = ("func", "fid", "bb", "ip", "dest", "ret_target", "visits", "on_return")

    def __init__(self, func, fid, dest=None, ret_target=None, on_return=None):
        self.func, self.fid, self.bb, self.ip = func, fid, 0, 0
        self.dest, self.ret_target = dest, ret_target
        self.visits = {}
        self.on_return = on_return

    def clone(self):
        f = Frame(self.func, self.fid, self.dest, self.ret_target, self.on_return)
        f.bb, f.ip = self.bb, self.ip
        f.visits = dict(self.visits)
        return f


class State:
    def __init__(self):
        self.cells = {}
        self.frames = []
        self.pc = []
        self.effects = []
        self.trace = []
        self.nframe = 0

    def clone(self):
        s = State()
        s.cells = dict(self.cells)
        s.frames = [f.clone() for f in self.frames]
        s.pc = list(self.pc)
        s.effects = list(self.effects)
        s.trace = list(self.trace)
        s.nframe = self.nframe
        return s


class Outcome:
    def __init__(self, kind, value, st):
        self.kind = kind      # 'return' | 'panic'
        self.value = value
        self.pc = st.pc
        self.effects = st.effects
        self.cells = st.cells
        self.trace = st.trace

    def __repr__(self):
        return "Outcome(%s %r | %d conds)" % (self.kind, self.value, len(self.pc))


# ---------------------------------------------------------------- executor
class Executor:
    def __init__(self, mirfile, overflow_checks, models, resolver=None, timeout_ms=60000, seed=0, feas_timeout_ms=300):
        self.mf = mirfile
        self.oc = overflow_checks
        self.models = models
        self.resolver = resolver or (lambda callee, nargs=None: None)
        self.solver = z3.Solver()
        # branch-feasibility pruning is an optimisation only: `unknown` keeps the branch (every reported
        # outcome is later backed by a model + native replay, every "holds" by an unsat answer that includes
        # the path condition), so a short budget is sound here.
        self.solver.set("timeout", int(feas_timeout_ms))
        self.solver.set("random_seed", seed)
        self.timeout_ms = timeout_ms
        self.feas_timeout_ms = feas_timeout_ms
        self.seed = seed
        self.fresh_n = 0
        self.stats = {"steps": 0, "forks": 0, "solver_checks": 0, "inlined": {}, "models_used": {}}

    # -------- solver helpers
    def feasible(self, pc, cond):
        c = z3.simplify(cond)
        if z3.is_true(c):
            return True
        if z3.is_false(c):
            return False
        self.stats["solver_checks"] += 1
        # a fresh solver per query: assumptions internalised by earlier (possibly 256-bit) queries must not slow this one
        sv = z3.Solver()
        sv.set("timeout", int(self.feas_timeout_ms))
        sv.set("random_seed", self.seed)
        sv.add(*pc)
        sv.add(c)
        r = sv.check()
        if r == z3.unknown:
            self.stats["feasibility_unknown"] = self.stats.get("feasibility_unknown", 0) + 1
            return True
        return r == z3.sat

    def fresh(self, ty, hint="v"):
        self.fresh_n += 1
        name = "%s!%d" % (hint, self.fresh_n)
        if ty == "bool":
            return Sc("bool", z3.Bool(name))
        if ty == "f64":
            return Sc("f64", z3.FP(name, F64))
        return Sc(ty, z3.BitVec(name, INT_TYPES[ty][0]))

    # -------- places
    def resolve(self, st, fr, place):
        """-> (cell, path, pending_downcast)"""
        cell = (fr.fid, place.local)
        path = ()
        for p in place.proj:
            k = p[0]
            if k == "deref":
                v = self.read(st, cell, path)
                if isinstance(v, Ref):
                    cell, path = v.cell, v.path
                elif isinstance(v, Adt) and v.ty == "Box":
                    path = path + (0,)
                else:
                    raise Inconclusive("deref of non-reference %r (place %r in %s)" % (v, place, fr.func.name))
            elif k == "field":
                path = path + (p[1],)
            elif k == "downcast":
                v = self.read(st, cell, path)
                if not isinstance(v, Adt):
                    raise Inconclusive("downcast of non-ADT %r" % (v,))
                if v.variant != p[1]:
                    raise Inconclusive("variant mismatch: value is %s::%s but MIR projects `as %s` "
                                       "(enum order table out of date?)" % (v.ty, v.variant, p[1]))
            elif k == "constindex":
                if p[2]:
                    # `[-k of n]`: k-th element from the end of a sequence whose length is concrete on this path
                    v = self.read(st, cell, path)
                    if not (isinstance(v, Adt) and v.ty in ("[]", "Vec")):
                        raise Inconclusive("from-end const index into %r" % (v,))
                    path = path + (len(v.fields) - p[1],)
                else:
                    path = path + (p[1],)
            elif k == "subslice":
                # `[a:-b]` / `[a:b]`: a read-only view, materialised as a fresh cell holding the sub-sequence
                v = self.read(st, cell, path)
                if not (isinstance(v, Adt) and v.ty in ("[]", "Vec")):
                    raise Inconclusive("subslice of %r" % (v,))
                lo, hi, from_end = p[1], p[2], p[3]
                end = len(v.fields) - hi if from_end else hi
                if lo > end:
                    raise Inconclusive("subslice bounds")
                st.nframe += 1
                cell, path = ("view", st.nframe), ()
                st.cells[cell] = Adt("[]", None, v.fields[lo:end])
            elif k == "index":
                iv = self.read(st, (fr.fid, p[1]), ())
                c = z3.simplify(iv.e)
                if not z3.is_bv_value(c):
                    raise Inconclusive("symbolic index")
                path = path + (c.as_long(),)
            else:
                raise Inconclusive("projection %r" % (p,))
        return cell, path

    def read(self, st, cell, path):
        if cell not in st.cells:
            raise Inconclusive("read of uninitialised cell %r" % (cell,))
        v = st.cells[cell]
        for i in path:
            if isinstance(v, Adt):
                if i >= len(v.fields):
                    raise Inconclusive("field %d out of range in %r" % (i, v))
                v = v.fields[i]
            elif isinstance(v, Undef):
                return UNDEF
            else:
                raise Inconclusive("field access .%d on %r" % (i, v))
        return v

    def write(self, st, cell, path, val):
        if not path:
            st.cells[cell] = val
            return
        root = st.cells.get(cell, UNDEF)
        st.cells[cell] = self._upd(root, path, val)

    def _upd(self, v, path, val):
        if not path:
            return val
        i = path[0]
        if isinstance(v, Undef):
            fields = [UNDEF] * (i + 1)
            v = Adt("?", None, fields)
        if not isinstance(v, Adt):
            raise Inconclusive("field write .%d on %r" % (i, v))
        fields = list(v.fields)
        while len(fields) <= i:
            fields.append(UNDEF)
        fields[i] = self._upd(fields[i], path[1:], val)
        return Adt(v.ty, v.variant, fields)

    def read_place(self, st, fr, place):
        cell, path = self.resolve(st, fr, place)
        v = self.read(st, cell, path)
        if isinstance(v, Undef):
            raise Inconclusive("read of undefined value at %r in %s" % (place, fr.func.name))
        return v

    def deref(self, st, v):
        """follow references until a non-reference value"""
        n = 0
        while isinstance(v, Ref):
            v = self.read(st, v.cell, v.path)
            n += 1
            if n > 8:
                raise Inconclusive("reference chain too deep")
        return v

    # -------- constants
    _int_const = re.compile(r"^(-?\d+)_(i8|i16|i32|i64|i128|isize|u8|u16|u32|u64|u128|usize)$")
    _minmax = re.compile(r"^(i8|i16|i32|i64|i128|isize|u8|u16|u32|u64|u128|usize)::(MIN|MAX)$")
    _float_const = re.compile(r"^(-?[0-9.]+(?:[eE][-+]?\d+)?|-?inf|NaN)f64$")

    def const(self, st, fr, text):
        t = text.strip()
        m = self._int_const.match(t)
        if m:
            return bv(m.group(2), int(m.group(1)))
        m = self._minmax.match(t)
        if m:
            return bv(m.group(1), int_min(m.group(1)) if m.group(2) == "MIN" else int_max(m.group(1)))
        if t == "true" or t == "false":
            return boolv(t == "true")
        m = self._float_const.match(t)
        if m:
            s = m.group(1)
            if s == "inf":
                return Sc("f64", z3.fpPlusInfinity(F64))
            if s == "-inf":
                return Sc("f64", z3.fpMinusInfinity(F64))
            if s == "NaN":
                return Sc("f64", z3.fpNaN(F64))
            return Sc("f64", z3.FPVal(s, F64))
        if t == "f64::NAN":
            return Sc("f64", z3.fpNaN(F64))
        if t == "f64::INFINITY":
            return Sc("f64", z3.fpPlusInfinity(F64))
        if t == "f64::NEG_INFINITY":
            return Sc("f64", z3.fpMinusInfinity(F64))
        if t == "()":
            return UNIT
        if t.startswith('"') or t.startswith('b"'):
            return Opaque("strlit", t)
        if t.startswith("'"):
            body = t[1:-1]
            esc = {"\\n": "\n", "\\t": "\t", "\\r": "\r", "\\\\": "\\", "\\'": "'", '\\"': '"', "\\0": "\0"}
            ch = esc.get(body, body)
            if len(ch) != 1:
                raise Inconclusive("char constant " + t)
            return bv("char", ord(ch))
        m = re.search(r"::promoted\[(\d+)\]$", t)
        if m:
            name = fr.func.name + "::promoted[%s]" % m.group(1)
            return self.eval_const_item(st, name)
        m = re.match(r"^\{(alloc\d+): &&\[(.*)\]\}$", t)
        if m and not m.group(2).strip() in ("u8",):
            # a `static NAME: &[T]`: a reference to a reference to a slice whose LENGTH is read from the dump's allocation section
            # (the elements stay opaque)
            import mir as _mir
            n = _mir.static_slice_len(self.mf, m.group(1))
            if n is not None:
                st.cells.setdefault(("static", m.group(1)), Adt("[]", None, [Opaque("static-elem", (m.group(1), i)) for i in range(n)]))
                st.cells.setdefault(("staticref", m.group(1)), Ref(("static", m.group(1))))
                return Ref(("staticref", m.group(1)))
        segs = path_segments(t)
        if len(segs) >= 2 and segs[-2] in ENUMS and segs[-1] in ENUMS[segs[-2]]:
            return Adt(segs[-2], segs[-1], [])     # unit variant used as a constant
        std_consts = {"core::f64::<impl f64>::EPSILON": 2.220446049250313e-16, "core::f64::<impl f64>::MAX": 1.7976931348623157e308,
                      "core::f64::<impl f64>::MIN": -1.7976931348623157e308, "core::f64::<impl f64>::MIN_POSITIVE": 2.2250738585072014e-308,
                      "core::f64::<impl f64>::INFINITY": float("inf"), "core::f64::<impl f64>::NEG_INFINITY": float("-inf")}
        if t.strip() in std_consts:
            return Sc("f64", z3.FPVal(std_consts[t.strip()], F64))
        mi = re.match(r"^core::num::<impl (i8|i16|i32|i64|i128|isize|u8|u16|u32|u64|u128|usize)>::(BITS|MAX|MIN)$", t.strip())
        if mi:
            # associated constants of the integer types (std documentation)
            bits, signed = {"i8": (8, 1), "i16": (16, 1), "i32": (32, 1), "i64": (64, 1), "i128": (128, 1), "isize": (64, 1),
                            "u8": (8, 0), "u16": (16, 0), "u32": (32, 0), "u64": (64, 0), "u128": (128, 0), "usize": (64, 0)}[mi.group(1)]
            if mi.group(2) == "BITS":
                return bv("u32", bits)
            hi = (1 << (bits - 1)) - 1 if signed else (1 << bits) - 1
            lo = -(1 << (bits - 1)) if signed else 0
            return bv(mi.group(1), hi if mi.group(2) == "MAX" else lo)
        # platform constants of std::env::consts for the platform the checks (and their native replays) run on: x86_64 linux
        std_text = {"std::env::consts::DLL_EXTENSION": "so", "std::env::consts::DLL_SUFFIX": ".so", "std::env::consts::DLL_PREFIX": "lib",
                    "std::env::consts::EXE_EXTENSION": "", "std::env::consts::EXE_SUFFIX": "", "std::env::consts::OS": "linux",
                    "std::env::consts::FAMILY": "unix", "std::path::MAIN_SEPARATOR_STR": "/"}
        if t.strip() in std_text:
            return Opaque("strlit", '"%s"' % std_text[t.strip()])
        named = getattr(self, "const_values", None)
        if named and t.strip() in named:
            return named[t.strip()]               # integer `const` item of the crate, value read from its source by the kernel
        # a `const` item of the crate whose body is in the dump (e.g. a constant local to a function): evaluate its MIR.  The dump
        # names it without the leading module path
        cand = t.strip()
        while "::" in cand:
            if cand in self.mf.items and re.match(r"^[A-Za-z_][A-Za-z0-9_:]*$", cand) and cand.rsplit("::", 1)[-1].isupper():
                return self.eval_const_item(st, cand)
            cand = cand.split("::", 1)[1]
        return Opaque("const", t)

    def eval_const_item(self, st, name):
        """run a promoted constant body concretely inside the current state (cells are fresh)"""
        if name not in self.mf.items:
            raise Inconclusive("unknown constant item " + name)
        func = self.mf.func(name)
        sub = State()
        sub.cells = st.cells          # share: promoted bodies only create new cells
        sub.nframe = st.nframe
        outs = self.run_func(func, [], sub)
        st.nframe = sub.nframe
        if len(outs) != 1 or outs[0].kind != "return":
            raise Inconclusive("constant item did not evaluate to a single value: " + name)
        st.cells.update(outs[0].cells)
        return outs[0].value

    # -------- operands / rvalues
    def operand(self, st, fr, op):
        if op.kind == "const":
            return self.const(st, fr, op.const)
        return self.read_place(st, fr, op.place)

    def rvalue(self, st, fr, rv):
        k = rv.kind
        if k == "use":
            return self.operand(st, fr, rv.a[0])
        if k in ("ref", "rawref"):
            place = rv.a[0]
            if place.proj and place.proj[-1][0] == "deref":
                # `&*x` where x is a string literal / opaque constant (itself a reference value in this model): x again
                try:
                    base = self.read_place(st, fr, Place(place.local, place.proj[:-1]))
                except Inconclusive:
                    base = None
                if isinstance(base, Opaque) and base.tag in ("strlit", "const"):
                    return base
            cell, path = self.resolve(st, fr, place)
            return Ref(cell, path)
        if k == "binop":
            a = self.operand(st, fr, rv.a[1])
            b = self.operand(st, fr, rv.a[2])
            return self.binop(rv.a[0], a, b)
        if k == "unop":
            a = self.operand(st, fr, rv.a[1])
            if rv.a[0] == "PtrMetadata":
                # metadata of a slice pointer = its length (sequences have a concrete length per path)
                t = self.deref(st, a)
                if isinstance(t, Adt) and t.ty in ("[]", "Vec", "SStr"):
                    return bv("usize", len(t.fields))
                raise Inconclusive("PtrMetadata of %r" % (t,))
            return self.unop(rv.a[0], a)
        if k == "cast":
            a = self.operand(st, fr, rv.a[0])
            return self.cast(a, rv.a[1], rv.a[2])
        if k == "discriminant":
            v = self.read_place(st, fr, rv.a[0])
            return self.discriminant(v)
        if k == "tuple":
            return Adt("()", None, [self.operand(st, fr, o) for o in rv.a[0]])
        if k == "array":
            return Adt("[]", None, [self.operand(st, fr, o) for o in rv.a[0]])
        if k == "struct":
            path = rv.a[0]
            # a closure value keeps its full type name (as `variant`) so that generic FnOnce/FnMut call sites can find its MIR item
            return Adt(short_type(path), path.strip() if path.strip().startswith("{closure@") else None,
                       [self.operand(st, fr, o) for _, o in rv.a[1]])
        if k == "adt":
            return self.make_adt(rv.a[0], [self.operand(st, fr, o) for o in rv.a[1]])
        if k == "len":
            v = self.read_place(st, fr, rv.a[0])
            if isinstance(v, Adt) and v.ty == "[]":
                return bv("usize", len(v.fields))
            raise Inconclusive("Len of %r" % (v,))
        raise Inconclusive("rvalue kind " + k)

    def make_adt(self, path, fields):
        segs = path_segments(path)
        last = segs[-1]
        if len(segs) >= 2 and segs[-2] in ENUMS and last in ENUMS[segs[-2]]:
            return Adt(segs[-2], last, fields)
        if len(segs) >= 2 and segs[-2] == "Ordering" and last in ORDERING:
            return Adt("Ordering", last, fields)
        return Adt(last, None, fields)

    def discriminant(self, v):
        if isinstance(v, Adt):
            if v.ty in ENUMS:
                if v.variant not in ENUMS[v.ty]:
                    raise Inconclusive("unknown variant %s::%s" % (v.ty, v.variant))
                return bv("isize", ENUMS[v.ty].index(v.variant))
            if v.ty == "Ordering":
                return bv("i8", ORDERING[v.variant])
        raise Inconclusive("discriminant of %r" % (v,))

    # -------- arithmetic
    def binop(self, op, a, b):
        if isinstance(a, Ref) and isinstance(b, Ref) and op in ("Eq", "Ne"):
            # raw-pointer identity (`ptr::eq`, `a as *const _ == b as *const _`): two references are the same address iff they
            # designate the same place of the store
            same = (a.cell, a.path) == (b.cell, b.path)
            return Sc("bool", z3.BoolVal(same if op == "Eq" else not same))
        if isinstance(a, Ref) or isinstance(b, Ref):
            raise Inconclusive("binop on references")
        if not isinstance(a, Sc) or not isinstance(b, Sc):
            raise Inconclusive("binop %s on %r, %r" % (op, a, b))
        if a.ty == "f64":
            return self.fbinop(op, a, b)
        if a.ty == "bool":
            x, y = a.e, b.e
            if op == "BitAnd":
                return Sc("bool", z3.And(x, y))
            if op == "BitOr":
                return Sc("bool", z3.Or(x, y))
            if op == "BitXor":
                return Sc("bool", z3.Xor(x, y))
            if op == "Eq":
                return Sc("bool", x == y)
            if op == "Ne":
                return Sc("bool", x != y)
            raise Inconclusive("bool binop " + op)
        bits, signed = INT_TYPES[a.ty]
        x, y = a.e, b.e
        if op in ("Shl", "Shr", "ShlUnchecked", "ShrUnchecked"):
            yb = INT_TYPES[b.ty][0]
            # MIR semantics: the amount is taken modulo the bit width of the left operand
            if yb > bits:
                y = z3.Extract(bits - 1, 0, y)
            elif yb < bits:
                y = z3.ZeroExt(bits - yb, y)
            y = y & z3.BitVecVal(bits - 1, bits)
            if op.startswith("Shl"):
                return Sc(a.ty, x << y)
            return Sc(a.ty, (x >> y) if signed else z3.LShR(x, y))
        if a.ty != b.ty:
            raise Inconclusive("binop %s on mixed types %s, %s" % (op, a.ty, b.ty))
        if op in ("Add", "AddUnchecked"):
            return Sc(a.ty, x + y)
        if op in ("Sub", "SubUnchecked"):
            return Sc(a.ty, x - y)
        if op in ("Mul", "MulUnchecked"):
            return Sc(a.ty, x * y)
        if op == "Div":
            return Sc(a.ty, (x / y) if signed else z3.UDiv(x, y))
        if op == "Rem":
            return Sc(a.ty, z3.SRem(x, y) if signed else z3.URem(x, y))
        if op == "BitAnd":
            return Sc(a.ty, x & y)
        if op == "BitOr":
            return Sc(a.ty, x | y)
        if op == "BitXor":
            return Sc(a.ty, x ^ y)
        if op == "Eq":
            return Sc("bool", x == y)
        if op == "Ne":
            return Sc("bool", x != y)
        if op == "Lt":
            return Sc("bool", (x < y) if signed else z3.ULT(x, y))
        if op == "Le":
            return Sc("bool", (x <= y) if signed else z3.ULE(x, y))
        if op == "Gt":
            return Sc("bool", (x > y) if signed else z3.UGT(x, y))
        if op == "Ge":
            return Sc("bool", (x >= y) if signed else z3.UGE(x, y))
        if op in ("AddWithOverflow", "SubWithOverflow", "MulWithOverflow"):
            res, ovf = overflowing(op[:3], a.ty, x, y)
            return Adt("()", None, [Sc(a.ty, res), Sc("bool", ovf)])
        raise Inconclusive("int binop " + op)

    def fbinop(self, op, a, b):
        if b.ty != "f64":
            raise Inconclusive("float binop with %s" % b.ty)
        x, y = a.e, b.e
        if op == "Add":
            return Sc("f64", z3.fpAdd(RNE, x, y))
        if op == "Sub":
            return Sc("f64", z3.fpSub(RNE, x, y))
        if op == "Mul":
            return Sc("f64", z3.fpMul(RNE, x, y))
        if op == "Div":
            return Sc("f64", z3.fpDiv(RNE, x, y))
        if op == "Rem":
            return Sc("f64", fmod(x, y))
        if op == "Eq":
            return Sc("bool", z3.fpEQ(x, y))
        if op == "Ne":
            return Sc("bool", z3.Not(z3.fpEQ(x, y)))
        if op == "Lt":
            return Sc("bool", z3.fpLT(x, y))
        if op == "Le":
            return Sc("bool", z3.fpLEQ(x, y))
        if op == "Gt":
            return Sc("bool", z3.fpGT(x, y))
        if op == "Ge":
            return Sc("bool", z3.fpGEQ(x, y))
        raise Inconclusive("float binop " + op)

    def unop(self, op, a):
        if not isinstance(a, Sc):
            raise Inconclusive("unop on %r" % (a,))
        if op == "Not":
            if a.ty == "bool":
                return Sc("bool", z3.Not(a.e))
            return Sc(a.ty, ~a.e)
        if op == "Neg":
            if a.ty == "f64":
                return Sc("f64", z3.fpNeg(a.e))
            return Sc(a.ty, -a.e)
        raise Inconclusive("unop " + op)

    def cast(self, a, ty, kind):
        ty = ty.strip()
        if kind.startswith("PointerCoercion") or "Unsize" in kind or kind in ("PtrToPtr", "Transmute", "Subtype") and not isinstance(a, Sc):
            return a
        if not isinstance(a, Sc):
            raise Inconclusive("cast %s of %r" % (kind, a))
        if kind == "IntToInt":
            return Sc(ty, int_to_int(a.ty, a.e, ty))
        if kind == "IntToFloat":
            if ty != "f64":
                raise Inconclusive("cast to " + ty)
            return Sc("f64", int_to_f64(a.ty, a.e))
        if kind == "FloatToInt":
            return Sc(ty, f64_to_int_sat(a.e, ty))
        if kind == "FloatToFloat" and ty == "f64" and a.ty == "f64":
            return a
        if kind == "Transmute":
            if a.ty == "f64" and ty in ("u64", "i64"):
                return Sc(ty, z3.fpToIEEEBV(a.e))
            if a.ty in ("u64", "i64") and ty == "f64":
                return Sc("f64", z3.fpBVToFP(a.e, F64))
        raise Inconclusive("cast %s %s -> %s" % (kind, a.ty, ty))

    # -------- driving
    def run(self, func_name, args, cells=None, pc=None):
        """execute `func_name` on argument values; returns list of Outcome"""
        func = self.mf.func(func_name)
        st = State()
        if cells:
            st.cells.update(cells)
            # a run that continues from the final store of an earlier run must not reuse that run's cell names
            # (frame ids `f<n>`, heap cells ("box"|"gc"|"tmp"|"view", n))
            hi = 0
            for k in cells:
                if isinstance(k, tuple) and k:
                    if isinstance(k[0], str) and re.fullmatch(r"f\d+", k[0]):
                        hi = max(hi, int(k[0][1:]))
                    elif len(k) == 2 and isinstance(k[1], int) and k[0] in ("box", "gc", "tmp", "view"):
                        hi = max(hi, k[1])
            st.nframe = hi
        if pc:
            st.pc = list(pc)
        return self.run_func(func, args, st)

    def closure_fn(self, callee):
        """MIR item of the closure whose type `{closure@file:l:c: l:c}` occurs in the callee's generic arguments"""
        m = re.findall(r"\{closure@[^}]*\}", callee)
        if not m:
            return None
        ty = m[-1]
        if not hasattr(self, "_closure_index"):
            self._closure_index = {}
            for name in self.mf.order:
                if "{closure#" not in name or "::promoted[" in name:
                    continue
                a, _ = self.mf.items[name]
                hdr = self.mf.lines[a]
                mm = re.search(r"\(_1: (?:&mut |&)?(\{closure@[^}]*\})", hdr)
                if mm:
                    self._closure_index.setdefault(mm.group(1), name)
        return self._closure_index.get(ty)

    def push_frame(self, st, func, args, dest=None, ret_target=None, on_return=None):
        st.nframe += 1
        fr = Frame(func, "f%d" % st.nframe, dest, ret_target, on_return)
        if len(args) != func.nargs:
            raise Inconclusive("arity mismatch calling %s: %d args for %d params" % (func.name, len(args), func.nargs))
        for i, a in enumerate(args):
            # `<&T as Trait>::m` forwarding impls of core (`impl Trait for &T { fn m(&self,..) { (**self).m(..) } }`) are
            # resolved straight to the impl for T: strip the extra reference levels the forwarding impl would strip.
            want = ref_depth(func.locals.get(i + 1, ""))
            have = self.actual_ref_depth(st, a)
            while have > want and isinstance(a, Ref):
                a = self.read(st, a.cell, a.path)
                have -= 1
            st.cells[(fr.fid, i + 1)] = a
        st.frames.append(fr)
        return fr

    def actual_ref_depth(self, st, v):
        n = 0
        while isinstance(v, Ref) and n < 8:
            n += 1
            try:
                v = self.read(st, v.cell, v.path)
            except Inconclusive:
                break
        return n

    def run_func(self, func, args, st):
        base = len(st.frames)
        self.push_frame(st, func, args)
        work = [st]
        outs = []
        while work:
            s = work.pop()
            res = self.step_until_fork(s, base)
            for kind, payload in res:
                if kind == "state":
                    work.append(payload)
                else:
                    outs.append(payload)
        return outs

    def step_until_fork(self, st, base):
        """run `st` until it forks or finishes; returns list of ('state', st) / ('out', Outcome)"""
        while True:
            fr = st.frames[-1]
            blk = fr.func.blocks.get(fr.bb)
            if blk is None:
                raise Inconclusive("no block bb%d in %s" % (fr.bb, fr.func.name))
            if fr.ip == 0:
                n = fr.visits.get(fr.bb, 0) + 1
                fr.visits[fr.bb] = n
                if n > LOOP_LIMIT:
                    raise Inconclusive("loop: bb%d of %s entered more than %d times on one path" % (fr.bb, fr.func.name, LOOP_LIMIT))
            while fr.ip < len(blk.stmts):
                raw = blk.stmts[fr.ip]
                fr.ip += 1
                self.stats["steps"] += 1
                try:
                    s = stmt_of(raw)
                except MirError as e:
                    raise Inconclusive("unparsed MIR in %s: %s" % (fr.func.name, e))
                if s.kind == "nop":
                    continue
                if s.kind == "assign":
                    try:
                        v = self.rvalue(st, fr, s.rv)
                    except Inconclusive as e:
                        raise Inconclusive("%s  [at `%s` in %s bb%d]" % (e, s.text, fr.func.name, fr.bb))
                    cell, path = self.resolve(st, fr, s.place)
                    self.write(st, cell, path, v)
                elif s.kind == "assume":
                    pass
                elif s.kind == "setdiscr":
                    raise Inconclusive("SetDiscriminant")
            try:
                t = term_of(blk.term)
            except MirError as e:
                raise Inconclusive("unparsed MIR terminator in %s: %s" % (fr.func.name, e))
            self.stats["steps"] += 1
            try:
                r = self.terminator(st, fr, t, base)
            except Inconclusive as e:
                if "[at `" in str(e):
                    raise
                raise Inconclusive("%s  [at `%s` in %s bb%d]" % (e, t.text.strip(), fr.func.name, fr.bb))
            if r is not None:
                return r

    def goto(self, fr, bb):
        fr.bb, fr.ip = bb, 0

    def terminator(self, st, fr, t, base):
        k = t.kind
        if k == "goto":
            self.goto(fr, t.a["target"])
            return None
        if k == "drop":
            hooks = getattr(self, "drop_hooks", None)
            if hooks:
                # drop glue of modelled guard types (e.g. GcCell borrow guards release their borrow flag)
                try:
                    v = self.read_place(st, fr, t.a["place"])
                except Inconclusive:
                    v = None
                if isinstance(v, Adt) and v.ty in hooks:
                    hooks[v.ty](self, st, v)
            self.goto(fr, t.a["target"])
            return None
        if k == "return":
            rv = st.cells.get((fr.fid, 0), UNDEF)
            if isinstance(rv, Undef):
                if fr.func.ret_ty.strip() in ("()", ""):
                    rv = UNIT
                else:
                    raise Inconclusive("return of undefined value from " + fr.func.name)
            st.frames.pop()
            if fr.on_return is not None:
                r = fr.on_return(st, rv)
                if isinstance(r, Invoke):
                    self.push_frame(st, self.mf.func(r.fn_name), r.args, dest=fr.dest, ret_target=fr.ret_target, on_return=r.then)
                    return None
                if isinstance(r, Forks):
                    out = []
                    for cond, val in r.items:
                        if not self.feasible(st.pc, cond):
                            continue
                        s2 = st.clone()
                        c = z3.simplify(cond)
                        if not z3.is_true(c):
                            s2.pc.append(c)
                        if len(s2.frames) <= base:
                            out.append(("out", Outcome("return", val, s2)))
                            continue
                        caller = s2.frames[-1]
                        cell, path = self.resolve(s2, caller, fr.dest)
                        self.write(s2, cell, path, val)
                        if fr.ret_target is None:
                            raise Inconclusive("return into a diverging call site")
                        self.goto(caller, fr.ret_target)
                        out.append(("state", s2))
                    self.stats["forks"] += max(0, len(out) - 1)
                    return out
                rv = r
            if len(st.frames) <= base:
                return [("out", Outcome("return", rv, st))]
            caller = st.frames[-1]
            cell, path = self.resolve(st, caller, fr.dest)
            self.write(st, cell, path, rv)
            if fr.ret_target is None:
                raise Inconclusive("return into a diverging call site")
            self.goto(caller, fr.ret_target)
            return None
        if k == "unreachable":
            raise Inconclusive("reached `unreachable` in " + fr.func.name)
        if k == "resume":
            raise Inconclusive("reached unwind path")
        if k == "switch":
            v = self.operand(st, fr, t.a["op"])
            if not isinstance(v, Sc):
                raise Inconclusive("switchInt on %r" % (v,))
            if v.ty == "bool":
                e = z3.If(v.e, z3.BitVecVal(1, 8), z3.BitVecVal(0, 8))
                bits = 8
            else:
                e = v.e
                bits = e.size()
            c = z3.simplify(e)
            arms = t.a["arms"]
            if z3.is_bv_value(c):
                val = c.as_long()
                for n, bb in arms:
                    if (n % (1 << bits)) == val:
                        self.goto(fr, bb)
                        return None
                if t.a["otherwise"] is None:
                    raise Inconclusive("switchInt: no arm for %d" % val)
                self.goto(fr, t.a["otherwise"])
                return None
            out = []
            neg = []
            for n, bb in arms:
                cond = e == z3.BitVecVal(n, bits)
                neg.append(z3.Not(cond))
                if self.feasible(st.pc, cond):
                    s2 = st.clone()
                    s2.pc.append(z3.simplify(cond))
                    self.goto(s2.frames[-1], bb)
                    out.append(("state", s2))
            if t.a["otherwise"] is not None:
                cond = z3.And(*neg) if len(neg) > 1 else neg[0]
                if self.feasible(st.pc, cond):
                    s2 = st.clone()
                    s2.pc.append(z3.simplify(cond))
                    self.goto(s2.frames[-1], t.a["otherwise"])
                    out.append(("state", s2))
            self.stats["forks"] += max(0, len(out) - 1)
            return out
        if k == "assert":
            v = self.operand(st, fr, t.a["cond"])
            ok = v.e if t.a["expected"] else z3.Not(v.e)
            out = []
            if self.feasible(st.pc, ok):
                s2 = st.clone()
                c = z3.simplify(ok)
                if not z3.is_true(c):
                    s2.pc.append(c)
                self.goto(s2.frames[-1], t.a["target"])
                out.append(("state", s2))
            bad = z3.Not(ok)
            if self.feasible(st.pc, bad):
                s2 = st.clone()
                s2.pc.append(z3.simplify(bad))
                out.append(("out", Outcome("panic", Panic(t.a["msg"], site_of(fr, t)), s2)))
            self.stats["forks"] += max(0, len(out) - 1)
            return out
        if k == "call":
            return self.call(st, fr, t, base)
        raise Inconclusive("terminator " + k)

    def call(self, st, fr, t, base):
        callee = t.a["callee"]
        args = [self.operand(st, fr, o) for o in t.a["args"]]
        m_ind = re.match(r"^(?:move |copy )?_(\d+)$", callee.strip())
        if m_ind:
            # call through a function-pointer local: dispatched on the VALUE of the local (e.g. a foreign function loaded from a
            # dynamic library is an environment stub); the model table is consulted under the pseudo-name `fnptr:<tag>`
            fv = st.cells.get((fr.fid, int(m_ind.group(1))))
            if isinstance(fv, Opaque):
                callee = "fnptr:%s" % fv.tag
                args = [fv] + args
            else:
                raise Inconclusive("indirect call through %r" % (fv,))
        # 1. std / library models
        h = self.models.lookup(callee)
        if h is not None:
            self.stats["models_used"][h.__name__] = self.stats["models_used"].get(h.__name__, 0) + 1
            results = h(self, st, callee, args)
            out = []
            for cond, val in results:
                if cond is not None and not self.feasible(st.pc, cond):
                    continue
                s2 = st.clone() if len(results) > 1 else st
                if cond is not None:
                    c = z3.simplify(cond)
                    if not z3.is_true(c):
                        s2.pc.append(c)
                if isinstance(val, Panic):
                    if not val.site:
                        val.site = site_of(fr, t)
                    out.append(("out", Outcome("panic", val, s2)))
                    continue
                if isinstance(val, tuple) and len(val) == 4 and val[0] == "write+":
                    self.write(s2, val[1].cell, val[1].path, val[2])
                    val = val[3]
                if isinstance(val, tuple) and len(val) == 3 and val[0] == "write":
                    # a model whose effect differs per fork: write the cell in the forked state, the call returns ()
                    self.write(s2, val[1].cell, val[1].path, val[2])
                    val = UNIT
                if isinstance(val, Invoke):
                    if t.a["target"] is None:
                        raise Inconclusive("closure invocation in a diverging call")
                    self.stats["inlined"][val.fn_name] = self.stats["inlined"].get(val.fn_name, 0) + 1
                    self.push_frame(s2, self.mf.func(val.fn_name), val.args, dest=t.a["dest"], ret_target=t.a["target"], on_return=val.then)
                    out.append(("state", s2))
                    continue
                fr2 = s2.frames[-1]
                cell, path = self.resolve(s2, fr2, t.a["dest"])
                self.write(s2, cell, path, val)
                if t.a["target"] is None:
                    raise Inconclusive("model returned into diverging call " + callee)
                self.goto(fr2, t.a["target"])
                out.append(("state", s2))
            if len(out) == 1 and out[0][0] == "state" and out[0][1] is st:
                return None
            self.stats["forks"] += max(0, len(out) - 1)
            return out
        # 2. functions of the crate under test: inline from their own MIR
        name = self.resolver(callee, len(args))
        if name is not None:
            func = self.mf.func(name)
            self.stats["inlined"][name] = self.stats["inlined"].get(name, 0) + 1
            if len(st.frames) > 24:
                raise Inconclusive("call depth exceeded inlining " + name)
            self.push_frame(st, func, args, dest=t.a["dest"], ret_target=t.a["target"])
            return None
        raise Inconclusive("unknown callee: " + callee)


def ref_depth(ty):
    t = ty.strip()
    n = 0
    while t.startswith("&"):
        n += 1
        t = t[1:].lstrip()
        if t.startswith("mut "):
            t = t[4:].lstrip()
        if t.startswith("'"):
            t = t.split(" ", 1)[1].lstrip() if " " in t else t
    return n


def site_of(fr, t):
    line = ""
    return "%s bb%d" % (fr.func.name, fr.bb)


# ---------------------------------------------------------------- helper semantics (shared with oracles)
def overflowing(op, ty, x, y):
    """(wrapped result, overflow flag) of op in {'Add','Sub','Mul'} on machine type ty"""
    bits, signed = INT_TYPES[ty]
    if op == "Mul":
        ext = bits
    else:
        ext = 1
    if signed:
        xe, ye = z3.SignExt(ext, x), z3.SignExt(ext, y)
    else:
        xe, ye = z3.ZeroExt(ext, x), z3.ZeroExt(ext, y)
    if op == "Add":
        w = xe + ye
    elif op == "Sub":
        w = xe - ye
    else:
        w = xe * ye
    res = z3.Extract(bits - 1, 0, w)
    back = z3.SignExt(ext, res) if signed else z3.ZeroExt(ext, res)
    return res, back != w


def int_to_int(src_ty, e, dst_ty):
    sb, ss = INT_TYPES[src_ty]
    db, _ = INT_TYPES[dst_ty]
    if db == sb:
        return e
    if db < sb:
        return z3.Extract(db - 1, 0, e)
    return z3.SignExt(db - sb, e) if ss else z3.ZeroExt(db - sb, e)


def int_to_f64(src_ty, e):
    _, signed = INT_TYPES[src_ty]
    # value-preserving extensions do not change the converted value: convert the narrow operand (keeps terms that
    # denote the same number syntactically equal, which spares the solver a 128-bit int->float circuit)
    while z3.is_app(e) and e.decl().kind() in (z3.Z3_OP_SIGN_EXT, z3.Z3_OP_ZERO_EXT):
        k = e.decl().kind()
        if k == z3.Z3_OP_SIGN_EXT and signed:
            e = e.arg(0)
        elif k == z3.Z3_OP_ZERO_EXT:
            e = e.arg(0)
            signed = False
        else:
            break
    return z3.fpSignedToFP(RNE, e, F64) if signed else z3.fpUnsignedToFP(RNE, e, F64)


def f64_to_int_sat(x, ty):
    """Rust `as` cast float -> int: truncation toward zero, saturating, NaN -> 0"""
    bits, signed = INT_TYPES[ty]
    lo, hi = int_min(ty), int_max(ty)
    lo_f = z3.FPVal(float(lo), F64)            # exactly representable (power of two or 0)
    hi_plus1_f = z3.FPVal(float(hi + 1), F64)  # 2^k, exactly representable
    conv = z3.fpToSBV(RTZ, x, z3.BitVecSort(bits)) if signed else z3.fpToUBV(RTZ, x, z3.BitVecSort(bits))
    if signed:
        below = z3.fpLT(x, lo_f)
    else:
        below = z3.fpLEQ(x, z3.FPVal(-1.0, F64))
    return z3.If(z3.fpIsNaN(x), z3.BitVecVal(0, bits),
                 z3.If(below, z3.BitVecVal(lo, bits),
                       z3.If(z3.fpGEQ(x, hi_plus1_f), z3.BitVecVal(hi, bits), conv)))


def fmod(x, y):
    """C fmod / Rust `%` on f64, built from IEEE remainder (exact)"""
    ax, ay = z3.fpAbs(x), z3.fpAbs(y)
    r = z3.fpRem(ax, ay)
    r2 = z3.If(z3.fpIsNegative(r) if False else z3.fpLT(r, z3.FPVal(0.0, F64)), z3.fpAdd(RNE, r, ay), r)
    # result has the sign of x (also for zero results); NaN if x inf or y zero or any NaN -> fpRem gives NaN already
    res = z3.If(z3.fpIsNegative(x), z3.fpNeg(z3.fpAbs(r2)), z3.fpAbs(r2))
    # fmod(x, inf) = x for finite x: fpRem(ax, inf) = ax, fine.
    return z3.If(z3.fpIsNaN(r), r, res)


def short_type(path):
    segs = path_segments(path)
    return segs[-1] if segs else path


def path_segments(path):
    """'std::result::Result::<A, B>::Ok' -> ['std','result','Result','Ok'] (generic args dropped)"""
    out = []
    depth = 0
    cur = ""
    i = 0
    s = path.strip()
    if s.startswith("{closure@"):
        return ["{closure}"]
    while i < len(s):
        c = s[i]
        if c in "<([{":
            depth += 1
        elif c in ">)]}":
            depth -= 1
        elif depth == 0:
            if s.startswith("::", i):
                if cur:
                    out.append(cur)
                cur = ""
                i += 2
                continue
            cur += c
        i += 1
    if cur:
        out.append(cur)
    return out
