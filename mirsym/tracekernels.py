"""C17 (trace half, kernel): what the call trace is rendered from.

(a) RENDERING - the real `impl Display for Stack` is executed on a call stack of 0..K frames whose labels are symbolic strings;
    `Formatter::write_fmt` / `write_str` append to an output buffer (contract of core::fmt: pieces and `Display` arguments in
    order).  Meaning (README format): `\\t>> <innermost label>` followed by `\\r\\n\\t ^ <label>` for every other frame from the
    innermost outwards, each frame exactly once; `<Empty Stack>` for no frame.
(b) FRAME DISCIPLINE of a native call - the real `call` instruction with a built-in as callee (list `remove` with an arbitrary
    index): `Ctx::add_frame` / `pop_frame` are recorded effects.  When the built-in succeeds the native frame is pushed and popped
    exactly once; when it FAILS the frame must still be on the stack while the error propagates (it is the innermost entry of the
    trace `execute()` prints), and no other frame is touched.
"""
import os, re, time
import z3
import sym, models, strmodels, stridx, gcmodels, utf8models as U, targets
import opcheck as Q
from sym import Sc, Adt, Ref, Opaque, Inconclusive, UNIT
from opkernels import CRATE_PREFIXES, prim
from models import ok
from listkernels import vecp, RECV, _cell_contents

KMAX = {"quick": 3, "thorough": 4}
LABEL_LENS = (2, 4)      # a 4-character label can be the scope marker `<if>` (the interpreter pushes such frames for blocks)


# ---------------------------------------------------------------- Formatter model
def _fmt_cell(ex, st, ref):
    n = 0
    while n < 6:
        v = ex.read(st, ref.cell, ref.path)
        if isinstance(v, Ref):
            ref = v
            n += 1
            continue
        break
    if not (isinstance(v, Adt) and v.ty == "Formatter"):
        raise Inconclusive("expected a Formatter, got %r" % (v,))
    return ref, v


def m_write_fmt(ex, st, callee, args):
    ref, f = _fmt_cell(ex, st, args[0])
    forks = strmodels.m_format(ex, st, "alloc::fmt::format", [args[1]])
    out = []
    for cond, val in forks:
        if not strmodels.is_sstr(val):
            raise Inconclusive("write_fmt of arguments that are not strings/chars: %r" % (val,))
        new = Adt("Formatter", None, [strmodels.sstr(list(f.fields[0].fields) + list(val.fields))])
        out.append((cond, ("write+", ref, new, ok(UNIT))))
    return out


def m_write_str(ex, st, callee, args):
    ref, f = _fmt_cell(ex, st, args[0])
    s_ = strmodels.to_sstr(ex, st, args[1])
    if s_ is None:
        raise Inconclusive("write_str of %r" % (args[1],))
    new = Adt("Formatter", None, [strmodels.sstr(list(f.fields[0].fields) + list(s_.fields))])
    return [(None, ("write+", ref, new, ok(UNIT)))]


def install_fmt(m):
    pre = [(r"^Formatter::<'_>::write_fmt$", m_write_fmt), (r"^Formatter::<'_>::write_str$", m_write_str)]
    m.table = [(re.compile(p), h) for p, h in pre] + m.table
    m.cache.clear()
    return m


# ---------------------------------------------------------------- (a) rendering
class RenderSummary:
    def __init__(self, lens, labels, paths, dt):
        self.lens, self.k, self.labels, self.paths, self.seconds = tuple(lens), len(lens), labels, paths, dt

    @property
    def arm(self):
        return "frames=%d,label_lengths=%s" % (self.k, "".join(map(str, self.lens)) or "-")


def render_shapes(tier):
    import itertools
    out = []
    for k in range(KMAX.get(tier, 3) + 1):
        out += list(itertools.product(LABEL_LENS, repeat=k))
    return out


class TraceKernels:
    def __init__(self, mf, overflow_checks, repo, seed=0):
        self.mf = mf
        self.repo = repo
        targets.register_primitive_enum(repo)
        targets.register_enum_from_source(os.path.join(repo, "bytecode/src/function.rs"), "BuiltInFunction")
        m = install_fmt(U.install(stridx.install(strmodels.install(models.base_models()))))
        # frame bookkeeping of the interpreter context: recorded, not executed
        m.table = [(re.compile(r"^context::Ctx::<'_>::(add_frame|pop_frame)$"), models.m_effect_unit)] + m.table
        m.cache.clear()
        self.ex = gcmodels.install_drop_hooks(sym.Executor(mf, overflow_checks, m, targets.generic_resolver(mf, CRATE_PREFIXES + ["GcVector", "Stack", "NonSweepingBuiltInFunction", "SpecialScope"]), seed=seed))
        cands = [n for n in mf.order if re.search(r"stack\.rs.*>::fmt$", n) and "&Stack" in mf.lines[mf.items[n][0]]]
        disp = [n for n in cands if any(">> " in l for l in mf.lines[mf.items[n][0]:mf.items[n][1]])]
        if len(disp) != 1:
            raise Inconclusive("Display for Stack not found (%d candidates)" % len(disp))
        self.display = disp[0]
        self.call = targets.find_one(mf, r"^(implementations::)?call$")

    def encoded_functions(self):
        return {"impl Display for Stack": {"mir_item": self.display, "mir_lines": self.mf.func(self.display).nlines},
                "instruction call (built-in arm)": {"mir_item": self.call, "mir_lines": self.mf.func(self.call).nlines}}

    def render(self, lens):
        t = time.time()
        k = len(lens)
        labels = [[z3.BitVec("l%d_%d" % (i, j), 32) for j in range(n)] for i, n in enumerate(lens)]
        pc = [z3.And(z3.UGE(c, 0x21), z3.ULE(c, 0x7E)) for lab in labels for c in lab]
        frames = [Adt("StackFrame", None, [Adt("Cow", "Borrowed", [strmodels.sstr([Sc("char", c) for c in lab])]), Opaque("variables", i)])
                  for i, lab in enumerate(labels)]
        cells = {("stack",): Adt("Stack", None, [Adt("Vec", None, frames)]), ("fmt",): Adt("Formatter", None, [strmodels.sstr([])])}
        paths = []
        for o in self.ex.run(self.display, [Ref(("stack",)), Ref(("fmt",))], cells=cells, pc=pc):
            pcz = z3.And(*o.pc) if o.pc else z3.BoolVal(True)
            if o.kind == "panic":
                paths.append((pcz, "panic", o.value.msg))
                continue
            text = [c.e for c in o.cells[("fmt",)].fields[0].fields]
            paths.append((pcz, "ok" if o.value.variant == "Ok" else "err", text))
        return RenderSummary(lens, labels, paths, time.time() - t)


def expected_render(s):
    lit = lambda t: [z3.BitVecVal(ord(x), 32) for x in t]
    if s.k == 0:
        return lit("<Empty Stack>")
    out = lit("\t>> ") + s.labels[-1]
    for lab in reversed(s.labels[:-1]):
        out += lit("\r\n\t ^ ") + lab
    return out


def render_native_args(s, labs):
    return [("Str", int.from_bytes(bytes(l), "big")) for l in labs]


def render_eval(s, labs):
    subs = [(c, z3.BitVecVal(v, 32)) for lab, vals in zip(s.labels, labs) for c, v in zip(lab, vals)]
    hits = []
    for pc, kind, val in s.paths:
        if z3.is_true(z3.simplify(z3.substitute(pc, *subs))):
            hits.append("PANIC" if kind == "panic" else "%s %s" % (kind.upper(), bytes(z3.simplify(z3.substitute(e, *subs)).as_long() for e in val).hex()))
    if not hits or any(h != hits[0] for h in hits):
        raise Inconclusive("render[%s]: %d paths" % (s.arm, len(hits)))
    return hits[0]


def render_validate(summaries, nat_eval_raw, release):
    vecs, want = [], {}
    for si, s in enumerate(summaries):
        for gi, special in enumerate((False, True)):
            # plain labels, and (where the length allows) the scope marker `<if>`
            labs = [([0x3C, 0x69, 0x66, 0x3E] if (special and n == 4) else [0x41 + i] + [0x61 + i] * (n - 1)) for i, n in enumerate(s.lens)]
            vid = "t%d_%d" % (si, gi)
            vecs.append((vid, "S:render", render_native_args(s, labs)))
            want[vid] = (s, labs)
    res = nat_eval_raw(vecs, release)
    mism = []
    for vid, (s, labs) in want.items():
        pred, got = render_eval(s, labs), " ".join(res[vid].split())
        if pred != got:
            mism.append((s.arm, "engine", pred, "real", got))
    return len(vecs), mism


def render_check(s, profile, qs, timeout_ms, seed):
    out = []
    want = expected_render(s)
    for pi, (pc, kind, val) in enumerate(s.paths):
        lab = "trace-render[%s]/%s:path%d" % (s.arm, profile, pi)
        qs.obligations += 1
        if kind == "ok" and len(val) == len(want):
            cond = z3.And(pc, z3.Not(z3.And(*[a == b for a, b in zip(val, want)])))
        else:
            cond = pc
        t = time.time()
        r, m = Q.solve(z3.simplify(cond), timeout_ms, seed)
        qs.solver_s += time.time() - t
        if r == z3.unsat:
            qs.discharged += 1
            if len(qs.samples) < 12:
                qs.samples.append({"obligation": lab, "result": "unsat"})
            continue
        if r != z3.sat:
            qs.undecided.append(lab)
            continue
        qs.violated += 1
        labs = []
        for i, l in enumerate(s.labels):
            vals = []
            for j, c in enumerate(l):
                y = m.eval(c, model_completion=False)
                vals.append(y.as_long() if z3.is_bv_value(y) else 0x41 + 7 * i + j)
            labs.append(vals)
        # distinct labels make a duplicated or missing frame visible in the real rendering
        if len({tuple(x) for x in labs}) != len(labs) and z3.is_true(z3.simplify(z3.substitute(cond, *[(c, z3.BitVecVal(0x41 + i, 32)) for i, l in enumerate(s.labels) for c in l]))):
            labs = [[0x41 + i] * n for i, n in enumerate(s.lens)]
        f = Q.Finding("C17", "trace.render", s.arm, "wrong-trace" if kind == "ok" else "render-fails", profile, render_native_args(s, labs),
                      "the rendered call stack is not `>> innermost` followed by ` ^ ` lines for every other frame, innermost first, each once")
        f.native_op = "S:render"
        f.predicted_text = render_eval(s, labs)
        f.expected_text = "OK " + bytes(z3.simplify(z3.substitute(e, *[(c, z3.BitVecVal(v, 32)) for lab_, vals in zip(s.labels, labs) for c, v in zip(lab_, vals)])).as_long() for e in want).hex()
        f.predicted = None
        f.via = "impl Display for Stack"
        f.human = "frames (outermost first) %r" % ([bytes(l).decode() for l in labs],)
        out.append(f)
    return out


# ---------------------------------------------------------------- (b) native frame discipline
class CallSummary:
    def __init__(self, n, elems, idx, paths, dt):
        self.n, self.elems, self.idx, self.paths, self.seconds = n, elems, idx, paths, dt

    @property
    def arm(self):
        return "list.remove,len=%d" % self.n


def summarize_call(tk, n):
    """`call` with the built-in `remove` on top of the operand stack: [list, index, <built-in>]"""
    from gcmodels import gccell
    t = time.time()
    elems = [z3.BitVec("e%d" % i, 32) for i in range(n)]
    idx = z3.BitVec("x", 32)
    cells = {RECV: gccell(Adt("Vec", None, [prim("Int", Sc("i32", e)) for e in elems]))}
    callee = Adt("Primitive", "BuiltInFunction", [Adt("NonSweepingBuiltInFunction", None, [Adt("BuiltInFunction", "VecRemove", [])])])
    cells[("ctx",)] = Adt("Ctx", None, [Adt("Vec", None, [vecp(RECV), prim("Int", Sc("i32", idx)), callee])] + [Opaque("ctx-field", i) for i in range(1, 6)])
    cells[("iargs",)] = Adt("[]", None, [])
    paths = []
    for o in tk.ex.run(tk.call, [Ref(("ctx",)), Ref(("iargs",))], cells=cells):
        pcz = z3.And(*o.pc) if o.pc else z3.BoolVal(True)
        frames = [e[0] for e in o.effects if e[0] in ("add_frame", "pop_frame")]
        if o.kind == "panic":
            paths.append((pcz, "panic", frames, o.value.msg))
        else:
            paths.append((pcz, "ok" if o.value.variant == "Ok" else "err", frames, None))
    return CallSummary(n, elems, idx, paths, time.time() - t)


def call_native_args(s, ev, xv):
    return [("Int", v & 0xFFFFFFFF) for v in ev] + [("Int", xv & 0xFFFFFFFF)]


def call_eval(s, ev, xv):
    subs = [(a, z3.BitVecVal(v, 32)) for a, v in zip(s.elems, ev)] + [(s.idx, z3.BitVecVal(xv, 32))]
    hits = []
    for pc, kind, frames, msg in s.paths:
        if z3.is_true(z3.simplify(z3.substitute(pc, *subs))):
            depth = 1 + frames.count("add_frame") - frames.count("pop_frame")
            hits.append("PANIC" if kind == "panic" else "%s depth=%d native_on_top=%d" % (kind.upper(), depth, 1 if depth == 2 else 0))
    if not hits or any(h != hits[0] for h in hits):
        raise Inconclusive("call[%s]: %d paths" % (s.arm, len(hits)))
    return hits[0]


def call_validate(summaries, nat_eval_raw, release):
    vecs, want = [], {}
    for si, s in enumerate(summaries):
        ev = [10 + i for i in range(s.n)]
        for gi, xv in enumerate(sorted({0, max(s.n - 1, 0), s.n, s.n + 3, -1 & 0xFFFFFFFF})):
            vid = "c%d_%d" % (si, gi)
            vecs.append((vid, "S:call-remove:%d" % s.n, call_native_args(s, ev, xv)))
            want[vid] = (s, ev, xv)
    res = nat_eval_raw(vecs, release)
    mism = []
    for vid, (s, ev, xv) in want.items():
        pred, got = call_eval(s, ev, xv), " ".join(res[vid].split())
        if pred != got:
            mism.append((s.arm, ev, xv, "engine", pred, "real", got))
    return len(vecs), mism


def call_check(s, profile, qs, timeout_ms, seed):
    out = []
    for pi, (pc, kind, frames, msg) in enumerate(s.paths):
        lab = "native-frame[%s]/%s:path%d" % (s.arm, profile, pi)
        if kind == "panic":
            continue          # panic freedom of the built-in is decided by the list kernel
        want = ["add_frame", "pop_frame"] if kind == "ok" else ["add_frame"]
        qs.obligations += 1
        if frames == want:
            qs.discharged += 1
            continue
        t = time.time()
        r, m = Q.solve(z3.simplify(pc), timeout_ms, seed)
        qs.solver_s += time.time() - t
        if r == z3.unsat:
            qs.discharged += 1
            continue
        if r != z3.sat:
            qs.undecided.append(lab)
            continue
        qs.violated += 1
        ev = []
        for i, e in enumerate(s.elems):
            y = m.eval(e, model_completion=False)
            ev.append(y.as_long() if z3.is_bv_value(y) else 10 + i)
        xv = m.eval(s.idx, model_completion=True).as_long()
        cls = "frame-gone-when-error-propagates" if kind == "err" else "frame-left-behind"
        f = Q.Finding("C17", "trace.native-frame", s.arm, cls, profile, call_native_args(s, ev, xv),
                      "frame operations of a %s native call are %r, expected %r" % ("failing" if kind == "err" else "successful", frames, want))
        f.native_op = "S:call-remove:%d" % s.n
        f.predicted_text = call_eval(s, ev, xv)
        f.predicted = None
        f.via = "instruction `call` on a built-in"
        f.human = "%r.remove(%d)" % (ev, xv - (1 << 32) if xv >= 1 << 31 else xv)
        out.append(f)
    return out
