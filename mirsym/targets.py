"""Locating target functions in a MIR dump and registering the repo's enum layouts from *source*."""
import os, re
import sym
from sym import Inconclusive


def register_primitive_enum(repo):
    """variant order of `Primitive` = argument order of the `primitive! { .. }` invocation in primitive.rs"""
    src = open(os.path.join(repo, "bytecode/src/variables/primitive.rs"), encoding="utf-8").read()
    m = re.search(r"\nprimitive!\s*\{(.*?)\n\}", src, re.S)
    if not m:
        raise Inconclusive("cannot find the primitive! { .. } invocation in primitive.rs")
    body = re.sub(r"//[^\n]*", "", m.group(1))
    variants = re.findall(r"^\s*([A-Z][A-Za-z0-9]*)\s*\(", body, re.M)
    if len(variants) < 6:
        raise Inconclusive("unexpected primitive! body")
    sym.ENUMS["Primitive"] = variants
    sym.ENUMS["Type"] = ["Nil"] + variants
    return variants


def register_enum_from_source(path, enum_name, key=None):
    src = open(path, encoding="utf-8").read()
    m = re.search(r"enum\s+%s\s*(?:<[^>]*>)?\s*\{(.*?)\n\}" % re.escape(enum_name), src, re.S)
    if not m:
        raise Inconclusive("cannot find enum %s in %s" % (enum_name, path))
    body = re.sub(r"//[^\n]*", "", m.group(1))
    body = re.sub(r"#\[[^\]]*\]", "", body)
    # drop nested bracket contents
    depth = 0
    flat = ""
    for c in body:
        if c in "({[<":
            depth += 1
        elif c in ")}]>":
            depth -= 1
        elif depth == 0:
            flat += c
    variants = [v.strip() for v in flat.split(",") if v.strip()]
    variants = [re.match(r"[A-Za-z0-9_]+", v).group(0) for v in variants]
    sym.ENUMS[key or enum_name] = variants
    return variants


def find_one(mf, pattern, pred=None):
    names = [n for n in mf.find(pattern) if "::promoted[" not in n and "{closure" not in n]
    if pred:
        names = [n for n in names if pred(mf.func(n))]
    if len(names) != 1:
        raise Inconclusive("expected exactly one MIR item for /%s/, found %d: %s" % (pattern, len(names), names[:5]))
    return names[0]


def by_ref_args(f):
    return f.nargs == 2 and f.locals[1].startswith("&") and f.locals[2].startswith("&")


def make_resolver(mf, table):
    """table: list of (regex on callee text, regex on MIR item name[, pred])"""
    cache = {}

    def resolve(callee):
        if callee in cache:
            return cache[callee]
        for ent in table:
            if re.search(ent[0], callee):
                name = find_one(mf, ent[1], ent[2] if len(ent) > 2 else None)
                cache[callee] = name
                return name
        cache[callee] = None
        return None
    return resolve
