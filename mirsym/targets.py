"""Locating target functions in a MIR dump and registering the repo's enum layouts from *source*."""
import os, re
import sym
from sym import Inconclusive


def register_primitive_enum(repo):
    """variant order of `Primitive` = argument order of the `primitive! { .. }` invocation in primitive.rs"""
    src = open(os.path.join(repo, "bytecode/src/variables/primitive.rs"), encoding="utf-8").read()
    m = re.search(r"\nprimitive!\s*\{(.*?)\n\}", src, re.S)
    if not m:
        raise Inconclusive("cannot find the primitive! { .. } invocation in primitive.rs")
    body = re.sub(r"//[^\n]*", "", m.group(1))
    variants = re.findall(r"^\s*([A-Z][A-Za-z0-9]*)\s*\(", body, re.M)
    if len(variants) < 6:
        raise Inconclusive("unexpected primitive! body")
    sym.ENUMS["Primitive"] = variants
    sym.ENUMS["Type"] = ["Nil"] + variants
    register_enum_from_source(os.path.join(repo, "bytecode/src/variables/primitive.rs"), "HeapPrimitive")
    register_all_enums(repo)
    return variants


def register_all_enums(repo, crates=("bytecode/src", "compiler/src", "bytecode_dev_transpiler/src", "src")):
    """every `enum Name { .. }` of the repository's sources that no driver registered explicitly (a change to /repo may introduce a
    helper enum; without its variant order the engine would have to give up at the first `discriminant`).  A name declared twice
    with different variants stays unregistered (the engine then gives up where it is used)."""
    found = {}
    for c in crates:
        for root, _, files in os.walk(os.path.join(repo, c)):
            for f in files:
                if not f.endswith(".rs"):
                    continue
                try:
                    src = open(os.path.join(root, f), encoding="utf-8").read()
                except OSError:
                    continue
                for m in re.finditer(r"\benum\s+([A-Z][A-Za-z0-9_]*)\s*(?:<[^>{]*>)?\s*\{", src):
                    name = m.group(1)
                    depth, i = 1, m.end()
                    while i < len(src) and depth:
                        depth += {"{": 1, "}": -1}.get(src[i], 0)
                        i += 1
                    body = re.sub(r"//[^\n]*", "", src[m.end():i - 1])
                    body = re.sub(r"#\[[^\]]*\]", "", body)
                    d, flat = 0, ""
                    for ch in body:
                        if ch in "({[<":
                            d += 1
                        elif ch in ")}]>":
                            d -= 1
                        elif d == 0:
                            flat += ch
                    vs = []
                    for v in flat.split(","):
                        mm = re.match(r"\s*([A-Za-z_][A-Za-z0-9_]*)", v)
                        if mm:
                            vs.append(mm.group(1))
                    if vs:
                        found.setdefault(name, set()).add(tuple(vs))
    for name, layouts in found.items():
        if name not in sym.ENUMS and len(layouts) == 1:
            sym.ENUMS[name] = list(next(iter(layouts)))


def register_enum_from_source(path, enum_name, key=None):
    src = open(path, encoding="utf-8").read()
    m = re.search(r"enum\s+%s\s*(?:<[^>]*>)?\s*\{(.*?)\n\}" % re.escape(enum_name), src, re.S)
    if not m:
        raise Inconclusive("cannot find enum %s in %s" % (enum_name, path))
    body = re.sub(r"//[^\n]*", "", m.group(1))
    body = re.sub(r"#\[[^\]]*\]", "", body)
    # drop nested bracket contents
    depth = 0
    flat = ""
    for c in body:
        if c in "({[<":
            depth += 1
        elif c in ")}]>":
            depth -= 1
        elif depth == 0:
            flat += c
    variants = [v.strip() for v in flat.split(",") if v.strip()]
    variants = [re.match(r"[A-Za-z0-9_]+", v).group(0) for v in variants]
    sym.ENUMS[key or enum_name] = variants
    return variants


def find_one(mf, pattern, pred=None):
    names = [n for n in mf.find(pattern) if "::promoted[" not in n and "{closure" not in n]
    if pred:
        names = [n for n in names if pred(mf.func(n))]
    if len(names) != 1:
        raise Inconclusive("expected exactly one MIR item for /%s/, found %d: %s" % (pattern, len(names), names[:5]))
    return names[0]


def by_ref_args(f):
    return f.nargs == 2 and f.locals[1].startswith("&") and f.locals[2].startswith("&")


def make_resolver(mf, table):
    """table: list of (regex on callee text, regex on MIR item name[, pred])"""
    cache = {}

    def resolve(callee, nargs=None):
        if callee in cache:
            return cache[callee]
        for ent in table:
            if re.search(ent[0], callee):
                name = find_one(mf, ent[1], ent[2] if len(ent) > 2 else None)
                cache[callee] = name
                return name
        cache[callee] = None
        return None
    return resolve


def _strip_generics(s):
    out = ""
    depth = 0
    i = 0
    while i < len(s):
        c = s[i]
        if c == "<":
            depth += 1
        elif c == ">":
            depth -= 1
        elif depth == 0:
            out += c
        i += 1
    return out.replace("::::", "::")


def _base_type(t):
    t = t.strip()
    while t.startswith("&"):
        t = t[1:].strip()
        if t.startswith("mut "):
            t = t[4:].strip()
        if t.startswith("'"):
            t = t.split(" ", 1)[1] if " " in t else t
    t = _strip_generics(t)
    return t.split("::")[-1].strip()


def generic_resolver(mf, crate_prefixes):
    """Resolve a call-site path to the MIR item of the crate under test (inherent methods, trait impls on crate
    types, free functions).  Ambiguity or no match -> None (the executor then reports an unknown callee)."""
    by_last = {}
    for name in mf.order:
        if "::promoted[" in name or not mf.lines[mf.items[name][0]].startswith("fn "):
            continue
        last = _strip_generics(name).split("::")[-1]
        by_last.setdefault(last, []).append(name)
    cache = {}

    def resolve(callee, nargs=None):
        key = (callee, nargs)
        if key in cache:
            return cache[key]
        res = _resolve(callee, nargs)
        cache[key] = res
        return res

    def _resolve(callee, nargs):
        c = callee.strip()
        self_ty = None
        by_ref = None
        if c.startswith("<"):
            m = re.match(r"^<(&?(?:mut )?)([^<>]*?(?:<.*>)?) as ([^>]*?(?:<.*>)?)>::(\w+)(?:::<.*>)?$", c)
            if not m:
                return None
            ty = m.group(2)
            if not any(ty.startswith(p) or ty == p.rstrip(":") for p in crate_prefixes):
                return None
            self_ty = _base_type(ty)
            by_ref = m.group(1).startswith("&")
            method = m.group(4)
        else:
            flat = _strip_generics(c)
            segs = [x for x in flat.split("::") if x]
            if not any(flat.startswith(p) for p in crate_prefixes) and len(segs) > 1:
                return None
            method = segs[-1]
            if len(segs) >= 2 and segs[-2][:1].isupper():
                self_ty = segs[-2]
        cands = by_last.get(method, [])
        out = []
        for n in cands:
            f = mf.func(n)
            if nargs is not None and f.nargs != nargs:
                continue
            if self_ty is not None:
                if "impl at" not in n:
                    continue          # `Type::method` never names a free function of the same name
                if f.nargs == 0:
                    if _base_type(f.ret_ty) == self_ty and "impl at" in n and not n.endswith("#2"):
                        out.append(n)
                    continue
                p1 = f.locals.get(1, "")
                if _base_type(p1) != self_ty and "impl at" in n:
                    # associated function without self (e.g. Type::new): accept when the return type names the type
                    if _base_type(f.ret_ty) != self_ty or _base_type(p1) == _base_type(f.ret_ty):
                        continue
            else:
                if "impl at" in n:
                    continue
            out.append(n)
        if len(out) > 1 and by_ref is not None:
            narrowed = [n for n in out if mf.func(n).locals.get(1, "").strip().startswith("&") == by_ref]
            out = narrowed or out
        if len(out) == 1:
            return out[0]
        if len(out) == 2 and method == "clone" and self_ty is not None:
            # `#[derive(Clone)]` next to an inherent `fn clone(instance: &Self) -> Self`: two items of one signature; the call path
            # `Type::clone` names the inherent one (listed later in the impl order of the dump)
            sigs = {(mf.func(n).locals.get(1, "").strip(), mf.func(n).ret_ty.strip()) for n in out}
            if len(sigs) == 1:
                # the trait form `<T as Clone>::clone` names the derived impl (first in the dump), `T::clone` the inherent one
                ordered = sorted(out, key=lambda n: mf.items[n][0])
                return ordered[0] if c.startswith("<") else ordered[-1]
        if not out and self_ty is not None:
            # associated function without `self` whose signature does not mention the type (e.g. `Type::is_xyz(&str) -> bool`):
            # accept when the method name is unique in the crate
            uniq = [n for n in cands if "impl at" in n and (nargs is None or mf.func(n).nargs == nargs)]
            if len(uniq) == 1 and len(cands) == 1:
                return uniq[0]
        return None
    return resolve
