import mir, time, collections, sys
t=time.time()
f=mir.MirFile(sys.argv[1])
bad=collections.Counter(); n=0; ok=0
for name in f.order:
    try:
        fn=f.func(name)
    except Exception as e:
        bad['ITEM '+str(e)[:60]]+=1; continue
    for bn,b in fn.blocks.items():
        for raw in b.stmts:
            n+=1
            try: mir.stmt_of(raw); ok+=1
            except mir.MirError as e: bad[str(e).split(':',1)[1][:90]]+=1
        n+=1
        try: mir.term_of(b.term); ok+=1
        except mir.MirError as e: bad[str(e).split(':',1)[1][:90]]+=1
        except Exception as e: bad['EXC '+repr(e)[:50]+b.term[1][:60]]+=1
print(len(f.items),n,ok,time.time()-t)
for k,v in bad.most_common(40): print(v,k)
