"""String indexing by CHARACTER (`s[k]`, instruction `vec_op "[k]"`) on text that may be multi-byte (C14 / C17).

The real `vec_op` is executed from its MIR on an operand stack holding a string of n characters; each character is a symbolic
code point whose UTF-8 width class (1..4 bytes) is fixed per run (utf8models.py), so the string has a concrete byte layout while
its characters range over the whole class - all of Unicode is covered by the 4^n class combinations.  The index is the literal
the compiler writes into the instruction argument (`[k]`, every k in 0..n+1).

Meaning: `s[k]` is the one-character string holding the k-th CHARACTER (not byte) of s for 0 <= k < n; otherwise the program
stops with a run-time error (not a panic - C17).
"""
import itertools, time
import z3
import sym, models, strmodels, stridx, gcmodels, utf8models as U, targets
import opcheck as Q
from sym import Sc, Adt, Ref, Opaque, Inconclusive
from opkernels import CRATE_PREFIXES, prim, sym_payload, KTY
from sym import INT_TYPES

VAR_KINDS = ("Int", "BigInt", "Byte")
VAR_NMAX = {"quick": 2, "thorough": 3}

NMAX = {"quick": 3, "thorough": 4}
SAMPLE = {1: [0x61, 0x7A], 2: [0xE9, 0x7FF], 3: [0x4E16, 0xFFFD], 4: [0x1F600, 0x10FFFF]}


class IdxSummary:
    def __init__(self, widths, k, chars, paths, dt):
        self.widths, self.k, self.chars, self.paths, self.seconds = tuple(widths), k, chars, paths, dt
        self.n = len(widths)

    @property
    def arm(self):
        return "widths=%s,index=%d" % ("".join(map(str, self.widths)) or "-", self.k)


class StrIndexKernels:
    def __init__(self, mf, overflow_checks, repo, seed=0):
        self.mf = mf
        targets.register_primitive_enum(repo)
        m = U.install(stridx.install(strmodels.install(models.base_models())))
        self.ex = gcmodels.install_drop_hooks(sym.Executor(mf, overflow_checks, m, targets.generic_resolver(mf, CRATE_PREFIXES + ["GcVector"]), seed=seed))
        self.fn = targets.find_one(mf, r"^vec_op$")

    def encoded_functions(self):
        return {"instruction vec_op (string indexing arm)": {"mir_item": self.fn, "mir_lines": self.mf.func(self.fn).nlines}}

    def summarize(self, widths, k):
        t = time.time()
        chars = [z3.BitVec("u%d_%d" % (i, w), 32) for i, w in enumerate(widths)]
        pc = []
        for c, w in zip(chars, widths):
            U.register_width(c, w)
            pc.append(U.class_constraint(c, w))
            pc.append(z3.UGE(c, 0x20))
        ops = [Adt("Primitive", "Str", [strmodels.sstr([Sc("char", c) for c in chars])])]
        cells = {("ctx",): Adt("Ctx", None, [Adt("Vec", None, ops)] + [Opaque("ctx-field", i) for i in range(1, 6)]),
                 ("iargs",): Adt("[]", None, [Opaque("strlit", '"[%d]"' % k)])}
        outs = self.ex.run(self.fn, [Ref(("ctx",)), Ref(("iargs",))], cells=cells, pc=pc)
        paths = []
        for o in outs:
            pcz = z3.And(*o.pc) if o.pc else z3.BoolVal(True)
            if o.kind == "panic":
                paths.append((pcz, "panic", o.value.msg))
                continue
            v = o.value
            if not (isinstance(v, Adt) and v.ty == "Result"):
                raise Inconclusive("vec_op returned %r" % (v,))
            if v.variant == "Err":
                paths.append((pcz, "err", None))
                continue
            stack = o.cells[("ctx",)].fields[0]
            if len(stack.fields) != 1:
                raise Inconclusive("vec_op left %d operands" % len(stack.fields))
            res = stack.fields[0]
            if not (isinstance(res, Adt) and res.variant == "Str" and strmodels.is_sstr(res.fields[0])):
                raise Inconclusive("vec_op left %r" % (res,))
            paths.append((pcz, "ok", [c.e for c in res.fields[0].fields]))
        return IdxSummary(widths, k, chars, paths, time.time() - t)


class VarIdxSummary(IdxSummary):
    """index taken from a local variable (`s[i]`): the index value is a full-width symbolic payload of its kind"""

    def __init__(self, widths, kind, idx, chars, paths, dt):
        IdxSummary.__init__(self, widths, None, chars, paths, dt)
        self.kind, self.idx = kind, idx

    @property
    def arm(self):
        return "widths=%s,index:%s" % ("".join(map(str, self.widths)) or "-", self.kind)


def summarize_var(xk, widths, kind):
    t = time.time()
    chars = [z3.BitVec("u%d_%d" % (i, w), 32) for i, w in enumerate(widths)]
    pc = []
    for c, w in zip(chars, widths):
        U.register_width(c, w)
        pc.append(U.class_constraint(c, w))
        pc.append(z3.UGE(c, 0x20))
    idx = sym_payload(kind, "i")
    ops = [Adt("Primitive", "Str", [strmodels.sstr([Sc("char", c) for c in chars])])]
    cells = {("ctx",): Adt("Ctx", None, [Adt("Vec", None, ops)] + [Opaque("ctx-field", i) for i in range(1, 6)]),
             ("iargs",): Adt("[]", None, [Opaque("strlit", '"[i]"')]), ("var", "i"): prim(kind, idx)}
    outs = xk.ex.run(xk.fn, [Ref(("ctx",)), Ref(("iargs",))], cells=cells, pc=pc)
    paths = []
    for o in outs:
        pcz = z3.And(*o.pc) if o.pc else z3.BoolVal(True)
        if o.kind == "panic":
            paths.append((pcz, "panic", o.value.msg))
            continue
        v = o.value
        if v.variant == "Err":
            paths.append((pcz, "err", None))
            continue
        stack = o.cells[("ctx",)].fields[0]
        res = stack.fields[0] if len(stack.fields) == 1 else None
        if not (isinstance(res, Adt) and res.variant == "Str" and strmodels.is_sstr(res.fields[0])):
            raise Inconclusive("vec_op left %r" % (stack,))
        paths.append((pcz, "ok", [c.e for c in res.fields[0].fields]))
    return VarIdxSummary(widths, kind, idx, chars, paths, time.time() - t)


def var_shapes(tier):
    out = []
    for n in range(VAR_NMAX.get(tier, 2) + 1):
        for ws in itertools.product((1, 2, 3, 4), repeat=n):
            for kind in VAR_KINDS:
                out.append((ws, kind))
    return out


def _idx_is(s, k):
    """the index value, read as the mathematical integer of its kind, equals k"""
    bits, signed = INT_TYPES[KTY[s.kind]]
    return s.idx.e == z3.BitVecVal(k, bits)


def var_native_args(s, cps, iv):
    bits, _ = INT_TYPES[KTY[s.kind]]
    return native_args(cps) + [(s.kind, iv & ((1 << bits) - 1))]


def var_eval(s, cps, iv):
    bits, _ = INT_TYPES[KTY[s.kind]]
    subs = [(c, z3.BitVecVal(v, 32)) for c, v in zip(s.chars, cps)] + [(s.idx.e, z3.BitVecVal(iv, bits))]
    hits = []
    for pc, kind, val in s.paths:
        if z3.is_true(z3.simplify(z3.substitute(pc, *subs))):
            if kind == "ok":
                out = [z3.simplify(z3.substitute(e, *subs)).as_long() for e in val]
                hits.append(["OK", "Str", _utf8(out).hex()])
            else:
                hits.append(["PANIC"] if kind == "panic" else ["ERR"])
    if not hits or any(h != hits[0] for h in hits):
        raise Inconclusive("str[i][%s]: %d paths enabled on %r %r" % (s.arm, len(hits), cps, iv))
    return hits[0]


def var_validate(summaries, nat_eval, release):
    vecs, want = [], {}
    for si, s in enumerate(summaries):
        bits, signed = INT_TYPES[KTY[s.kind]]
        ivs = {0, 1, s.n - 1 if s.n else 0, s.n, s.n + 1, (1 << bits) - 1, 1 << (bits - 1)}
        if bits > 64:
            ivs |= {1 << 64, (1 << 64) + 1}
        cps = [SAMPLE[w][0] for w in s.widths]
        for gi, iv in enumerate(sorted(ivs)):
            vid = "y%d_%d" % (si, gi)
            vecs.append((vid, "W:[i]", var_native_args(s, cps, iv)))
            want[vid] = (s, cps, iv)
    res = nat_eval(vecs, release)
    mism = []
    for vid, (s, cps, iv) in want.items():
        pred = var_eval(s, cps, iv)
        got = norm_native(res[vid])
        if pred != got:
            mism.append((s.arm, [hex(c) for c in cps], hex(iv), "engine", pred, "real", got))
    return len(vecs), mism


def check_var_summary(s, profile, qs, timeout_ms, seed, prop):
    out = []
    bits, signed = INT_TYPES[KTY[s.kind]]
    lab0 = "str[i][%s]/%s" % (s.arm, profile)
    in_range = z3.Or(*[_idx_is(s, k) for k in range(s.n)]) if s.n else z3.BoolVal(False)

    def ask(cond, label):
        qs.obligations += 1
        t = time.time()
        c = z3.simplify(cond)
        if z3.is_false(c):
            qs.discharged += 1
            return None
        r, m = Q.solve(c, timeout_ms, seed)
        qs.solver_s += time.time() - t
        if r == z3.unsat:
            qs.discharged += 1
            if len(qs.samples) < 12:
                qs.samples.append({"obligation": label, "result": "unsat", "smt_size": len(c.sexpr())})
            return None
        if r == z3.sat:
            qs.violated += 1
            cps = []
            for c_, w in zip(s.chars, s.widths):
                v = m.eval(c_, model_completion=False)
                cps.append(v.as_long() if z3.is_bv_value(v) else SAMPLE[w][0])
            iv = m.eval(s.idx.e, model_completion=True).as_long()
            return cps, iv
        qs.undecided.append(label)
        return None

    def finding(cls, w, detail):
        cps, iv = w
        f = Q.Finding(prop, "str.index", s.arm, cls, profile, var_native_args(s, cps, iv), detail)
        f.native_op = "W:[i]"
        f.predicted = var_eval(s, cps, iv)
        f.via = "instruction `vec_op [i]`"
        f.summ_uninterpreted = False
        sv = iv - (1 << bits) if signed and iv >= 1 << (bits - 1) else iv
        f.human = "%r[i] with i = %s %d" % ("".join(chr(c) for c in cps), s.kind, sv)
        return f

    for pi, (pc, kind, val) in enumerate(s.paths):
        lab = "%s:path%d" % (lab0, pi)
        if prop == "C17":
            if kind == "panic":
                w = ask(pc, lab + ":no-panic")
                if w is not None:
                    out.append(finding("panic:" + Q.panic_class(val), w, "Rust panic `%s` while indexing a string" % val))
            else:
                qs.obligations += 1
                qs.discharged += 1
            continue
        if kind == "ok":
            good = z3.Or(*[z3.And(_idx_is(s, k), val[0] == s.chars[k]) for k in range(s.n)]) if (s.n and len(val) == 1) else z3.BoolVal(False)
            w = ask(z3.And(pc, z3.Not(good)), lab + ":ok=>character-at-index")
            if w is not None:
                subs = [(s.idx.e, z3.BitVecVal(w[1], bits))]
                indom = z3.is_true(z3.simplify(z3.substitute(in_range, *subs)))
                out.append(finding("wrong-value" if indom else "ok-on-undefined:range", w,
                                   "the result is not the character at the index" if indom else "a value is produced although the index is outside 0..len"))
        else:
            w = ask(z3.And(pc, in_range), lab + ":fail=>index-out-of-range")
            if w is not None:
                out.append(finding("spurious-failure", w, "indexing fails (%s) although the index denotes a character of the string" % kind))
    return out


def shapes(tier):
    out = []
    for n in range(NMAX.get(tier, 3) + 1):
        for ws in itertools.product((1, 2, 3, 4), repeat=n):
            for k in range(n + 2):
                out.append((ws, k))
    return out


# ---------------------------------------------------------------- concrete
def _utf8(cps):
    return "".join(chr(c) for c in cps).encode("utf-8")


def native_args(cps):
    b = _utf8(cps)
    return [("Str", int.from_bytes(b, "big") if b else 0)]


def eval_summary(s, cps):
    subs = [(c, z3.BitVecVal(v, 32)) for c, v in zip(s.chars, cps)]
    hits = []
    for pc, kind, val in s.paths:
        if z3.is_true(z3.simplify(z3.substitute(pc, *subs))):
            if kind == "ok":
                out = [z3.simplify(z3.substitute(e, *subs)).as_long() for e in val]
                try:
                    hits.append(["OK", "Str", _utf8(out).hex()])
                except (ValueError, UnicodeEncodeError):
                    hits.append(["OK", "Str", "<invalid scalar %r>" % (out,)])
            else:
                hits.append(["PANIC"] if kind == "panic" else ["ERR"])
    if not hits or any(h != hits[0] for h in hits):
        raise Inconclusive("str[%s]: %d paths enabled on %r" % (s.arm, len(hits), cps))
    return hits[0]


def norm_native(r):
    r = list(r)
    if r and r[0] == "OK" and len(r) == 2:
        r.append("")
    return r


def validate(summaries, nat_eval, release):
    vecs, want = [], {}
    for si, s in enumerate(summaries):
        for gi in range(2):
            cps = [SAMPLE[w][gi] for w in s.widths]
            vid = "x%d_%d" % (si, gi)
            vecs.append((vid, "V:[%d]" % s.k, native_args(cps)))
            want[vid] = (s, cps)
            if not s.widths:
                break
    res = nat_eval(vecs, release)
    mism = []
    for vid, (s, cps) in want.items():
        pred = eval_summary(s, cps)
        got = norm_native(res[vid])
        if pred != got:
            mism.append((s.arm, [hex(c) for c in cps], "engine", pred, "real", got))
    return len(vecs), mism


# ---------------------------------------------------------------- obligations
def check_summary(s, profile, qs, timeout_ms, seed, prop):
    out = []
    indom = s.k < s.n
    lab0 = "str[k][%s]/%s" % (s.arm, profile)

    def ask(cond, label):
        qs.obligations += 1
        t = time.time()
        c = z3.simplify(cond)
        if z3.is_false(c):
            qs.discharged += 1
            return None
        r, m = Q.solve(c, timeout_ms, seed)
        qs.solver_s += time.time() - t
        if r == z3.unsat:
            qs.discharged += 1
            return None
        if r == z3.sat:
            qs.violated += 1
            cps = []
            for c_, w in zip(s.chars, s.widths):
                v = m.eval(c_, model_completion=False)
                cps.append(v.as_long() if z3.is_bv_value(v) else SAMPLE[w][0])
            return cps
        qs.undecided.append(label)
        return None

    def finding(cls, cps, detail):
        f = Q.Finding(prop, "str.index", s.arm, cls, profile, native_args(cps), detail)
        f.native_op = "V:[%d]" % s.k
        f.predicted = eval_summary(s, cps)
        f.via = "instruction `vec_op [k]`"
        f.summ_uninterpreted = False
        f.human = "%r[%d]" % ("".join(chr(c) for c in cps), s.k)
        return f

    for pi, (pc, kind, val) in enumerate(s.paths):
        lab = "%s:path%d" % (lab0, pi)
        if prop == "C17":
            if kind == "panic":
                w = ask(pc, lab + ":no-panic")
                if w is not None:
                    out.append(finding("panic:" + Q.panic_class(val), w, "Rust panic `%s` while indexing a string" % val))
            else:
                qs.obligations += 1
                qs.discharged += 1
            continue
        if kind == "ok":
            if not indom:
                w = ask(pc, lab + ":ok=>index-in-range")
                if w is not None:
                    out.append(finding("ok-on-undefined:range", w, "a value is produced although the index is past the last character"))
                continue
            good = z3.BoolVal(False) if len(val) != 1 else (val[0] == s.chars[s.k])
            w = ask(z3.And(pc, z3.Not(good)), lab + ":ok=>kth-character")
            if w is not None:
                out.append(finding("wrong-value", w, "the result is not the k-th character of the string"))
        else:
            if indom:
                w = ask(pc, lab + ":fail=>index-out-of-range")
                if w is not None:
                    out.append(finding("spurious-failure", w, "indexing fails (%s) although the index denotes a character of the string" % kind))
            else:
                qs.obligations += 1
                qs.discharged += 1
    return out
