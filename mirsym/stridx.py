"""Index-arithmetic models for ASCII strings (C14 string half): byte offsets == character offsets is ASSUMED and enforced by the
kernel driver (every symbolic character is constrained to 1..=0x7F); multi-byte text is outside this claim.  Every slicing
operation follows std's panic contract (start <= end <= len, else panic)."""
import re
import z3
from sym import Sc, Adt, Ref, Opaque, Panic, Inconclusive, UNIT, UNDEF, bv, boolv
from models import some, NONE, scalar, new_box, _box_target
from strmodels import sstr, need, _string_cell, is_sstr


def _usize_val_forks(e, n):
    """[(cond, k)] for k in 0..=n plus (cond_out_of_range, None)"""
    out = [(e == k, k) for k in range(n + 1)]
    out.append((z3.UGT(e, n), None))
    return out


def _range(ex, st, v):
    v = ex.deref(st, v) if isinstance(v, Ref) else v
    if isinstance(v, Adt) and v.ty in ("Range", "RangeTo", "RangeFrom", "RangeFull"):
        return v
    raise Inconclusive("expected a range, got %r" % (v,))


def m_str_index(ex, st, callee, args):
    s_ = need(ex, st, args[0], callee)
    r = _range(ex, st, args[1])
    n = len(s_.fields)
    cs = list(s_.fields)
    out = []
    if r.ty == "Range":
        a, b = r.fields[0].e, r.fields[1].e
        ok_any = []
        for i in range(n + 1):
            for j in range(i, n + 1):
                c = z3.And(a == i, b == j)
                ok_any.append(c)
                out.append((c, sstr(cs[i:j])))
        out.append((z3.Not(z3.Or(*ok_any)), Panic("byte index out of range / slice index starts after its end (str slicing)")))
        return out
    if r.ty == "RangeTo":
        b = r.fields[0].e
        for j in range(n + 1):
            out.append((b == j, sstr(cs[:j])))
        out.append((z3.UGT(b, n), Panic("byte index out of range (str slicing ..end)")))
        return out
    if r.ty == "RangeFrom":
        a = r.fields[0].e
        for i in range(n + 1):
            out.append((a == i, sstr(cs[i:])))
        out.append((z3.UGT(a, n), Panic("byte index out of range (str slicing start..)")))
        return out
    return [(None, s_)]


def m_str_get_range(ex, st, callee, args):
    """str::get(range) -> Option<&str>: None instead of a panic"""
    res = m_str_index(ex, st, callee, args)
    return [(c, NONE if isinstance(v, Panic) else some(v)) for c, v in res]


def m_len(ex, st, callee, args):
    return [(None, bv("usize", len(need(ex, st, args[0], callee).fields)))]


def m_with_capacity(ex, st, callee, args):
    n = scalar(ex, st, args[0])
    too_big = z3.UGT(n.e, (1 << 63) - 1)
    return [(z3.Not(too_big), sstr([])), (too_big, Panic("capacity overflow"))]


def m_insert_str(ex, st, callee, args):
    ref, v = _string_cell(ex, st, args[0])
    s_ = need(ex, st, v, callee)
    idx = scalar(ex, st, args[1])
    new = need(ex, st, args[2], callee)
    n = len(s_.fields)
    if n > 6:
        raise Inconclusive("insert_str on a long string")
    out = []
    # the write must happen per fork: return Invoke-free results by pre-computing values and writing in a wrapper below
    for k in range(n + 1):
        out.append((idx.e == k, ("write", ref, sstr(s_.fields[:k] + new.fields + s_.fields[k:]))))
    out.append((z3.UGT(idx.e, n), Panic("assertion failed: self.is_char_boundary(idx) (String::insert_str)")))
    return out


def m_is_char_boundary(ex, st, callee, args):
    """ASCII text: every offset 0..=len is a boundary, everything beyond is not"""
    s_ = need(ex, st, args[0], callee)
    idx = scalar(ex, st, args[1])
    return [(None, Sc("bool", z3.ULE(idx.e, len(s_.fields))))]


def m_split_at(ex, st, callee, args):
    s_ = need(ex, st, args[0], callee)
    mid = scalar(ex, st, args[1])
    n = len(s_.fields)
    out = [(mid.e == k, Adt("()", None, [sstr(s_.fields[:k]), sstr(s_.fields[k:])])) for k in range(n + 1)]
    out.append((z3.UGT(mid.e, n), Panic("failed to slice string (split_at)")))
    return out


def m_chars_rev(ex, st, callee, args):
    v = args[0]
    if not (isinstance(v, Adt) and v.ty == "CharsIter"):
        raise Inconclusive("rev on %r" % (v,))
    s_, idx = v.fields
    i = z3.simplify(idx.e).as_long()
    return [(None, Adt("CharsIter", None, [sstr(tuple(reversed(s_.fields[i:]))), bv("usize", 0)]))]


def m_chars_collect_string(ex, st, callee, args):
    v = args[0]
    if not (isinstance(v, Adt) and v.ty == "CharsIter"):
        raise Inconclusive("collect on %r" % (v,))
    s_, idx = v.fields
    return [(None, sstr(s_.fields[z3.simplify(idx.e).as_long():]))]


def m_box_new_uninit(ex, st, callee, args):
    return [(None, new_box(st, UNDEF))]


def m_box_assume_init_vec(ex, st, callee, args):
    """vec![a, b] lowering: the array written through the MaybeUninit box becomes the Vec"""
    t = _box_target(ex, st, args[0])
    v = ex.read(st, t.cell, t.path)
    n = 0
    while isinstance(v, Adt) and v.ty != "[]" and n < 6:
        # MaybeUninit { uninit, value: ManuallyDrop(MaybeDangling([..])) }: follow the last initialised field
        nxt = [f for f in v.fields if isinstance(f, Adt)]
        if not nxt:
            break
        v = nxt[-1]
        n += 1
    if not (isinstance(v, Adt) and v.ty == "[]"):
        raise Inconclusive("box_assume_init_into_vec on %r" % (v,))
    return [(None, Adt("Vec", None, v.fields))]


def m_wrap(name):
    def h(ex, st, callee, args):
        return [(None, Adt(name, None, [args[0]]))]
    h.__name__ = "m_" + name.lower() + "_new"
    return h


def install(m):
    import gcmodels
    gcmodels.install(m)
    pre = [
        (r"^<(String|str) as Index<(std::ops::)?Range(To|From|Full)?(<usize>)?>>::index$", m_str_index),
        (r"^(core::)?str::<impl str>::get::<(std::ops::)?Range(To|From)?<usize>>$", m_str_get_range),
        (r"^String::len$|^(core::)?str::<impl str>::len$", m_len),
        (r"^String::with_capacity$", m_with_capacity),
        (r"^(core::)?str::<impl str>::is_char_boundary$|^String::is_char_boundary$", m_is_char_boundary),
        (r"^String::insert_str$", m_insert_str),
        (r"^(core::)?str::<impl str>::split_at$", m_split_at),
        (r"^<Chars<'_> as Iterator>::rev$", m_chars_rev),
        (r"^<Rev<Chars<'_>> as Iterator>::collect::<String>$|^<Chars<'_> as Iterator>::collect::<String>$", m_chars_collect_string),
        (r"^Box::<\[.*; \d+\]>::new_uninit$", m_box_new_uninit),
        (r"^std::boxed::box_assume_init_into_vec_unsafe::<", m_box_assume_init_vec),
    ]
    m.table = [(re.compile(p), h) for p, h in pre] + m.table
    m.cache.clear()
    return m
