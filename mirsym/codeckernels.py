"""Codec kernels (C04/C18): the instruction-argument writer (`CompiledItem::repr`), the tokenizer (`split_string_v2`) and the
transpiler's re-encoder (`Instruction::repr`), executed over symbolic-char strings of concrete length (strmodels.py)."""
import os, time
import z3
import sym, models, strmodels, targets
from sym import Sc, Adt, Ref, Opaque, Inconclusive
from strmodels import sstr, ch


def box_of(cells, key, value):
    cells[key] = value
    return Adt("Box", None, [Adt("Unique", None, [Ref(key)]), Adt("Global", None, [])])


class Writer:
    """compiler crate: CompiledItem::repr(&Instruction{id, arguments}, use_string_version)"""

    def __init__(self, mf, repo, seed=0):
        self.mf = mf
        targets.register_enum_from_source(os.path.join(repo, "compiler/src/ast.rs"), "CompiledItem")
        m = strmodels.install(models.base_models())
        m.add(r"^raw_byte_instruction_to_string_representation$", m_opname)
        self.ex = sym.Executor(mf, True, m, targets.generic_resolver(mf, ["ast::", "CompiledItem", "fix_arg_if_needed"]), seed=seed)
        self.fn = targets.find_one(mf, r"ast\.rs.*>::repr$", lambda f: f.nargs == 2 and "CompiledItem" in f.locals[1])

    def run(self, opcode, args, text_mode, pc=None):
        """opcode: Sc u8; args: list of SStr -> list of (pc, SStr encoding | None on Err)"""
        cells = {}
        item = Adt("CompiledItem", "Instruction", [opcode, box_of(cells, ("heap", "args"), Adt("[]", None, args))])
        cells[("item",)] = item
        outs = self.ex.run(self.fn, [Ref(("item",)), sym.boolv(text_mode)], cells=cells, pc=pc)
        res = []
        for o in outs:
            if o.kind == "panic":
                res.append((o.pc, "panic", o.value.msg))
            elif o.value.variant == "Err":
                res.append((o.pc, "err", None))
            else:
                v = o.value.fields[0]
                if not strmodels.is_sstr(v):
                    raise Inconclusive("writer returned %r" % (v,))
                res.append((o.pc, "ok", v))
        return res


def m_opname(ex, st, callee, args):
    """bytecode::compilation_bridge::raw_byte_instruction_to_string_representation(id): Some(Cow::Borrowed(name)); the name is
    an opaque token here (a single private-use code point standing for the whole mnemonic, which contains no white space -
    checked natively on the finite opcode table)"""
    c = models.scalar(ex, st, args[0])
    tok = Sc("char", z3.ZeroExt(24, c.e) + z3.BitVecVal(0xF0000, 32))
    return [(None, models.some(Adt("Cow", "Borrowed", [sstr([tok])])))]


class Reader:
    """bytecode crate: split_string_v2(&str, multi_target)"""

    def __init__(self, mf, seed=0):
        self.mf = mf
        m = strmodels.install(models.base_models())
        self.ex = sym.Executor(mf, True, m, targets.generic_resolver(mf, ["instruction::", "variables::"]), seed=seed)
        self.fn = targets.find_one(mf, r"^split_string_v2$")

    def run(self, s, multi_target, pc):
        outs = self.ex.run(self.fn, [s, sym.boolv(multi_target)], pc=pc)
        res = []
        for o in outs:
            if o.kind == "panic":
                res.append((o.pc, "panic", o.value.msg))
            elif o.value.variant == "Err":
                res.append((o.pc, "err", None))
            else:
                v = o.value.fields[0]
                if not (isinstance(v, Adt) and v.ty in ("Vec", "[]")):
                    raise Inconclusive("reader returned %r" % (v,))
                res.append((o.pc, "ok", list(v.fields)))
        return res


class Transpiler:
    """bytecode_dev_transpiler crate: Instruction::repr(&Instruction{name, arguments})"""

    def __init__(self, mf, seed=0):
        self.mf = mf
        m = strmodels.install(models.base_models())
        self.ex = sym.Executor(mf, True, m, targets.generic_resolver(mf, ["Instruction"]), seed=seed)
        self.fn = targets.find_one(mf, r"lib\.rs.*>::repr$")

    def run(self, opcode, args, pc):
        cells = {}
        ins = Adt("Instruction", None, [opcode, box_of(cells, ("heap", "targs"), Adt("[]", None, args))])
        cells[("tins",)] = ins
        outs = self.ex.run(self.fn, [Ref(("tins",))], cells=cells, pc=pc)
        res = []
        for o in outs:
            if o.kind == "panic":
                res.append((o.pc, "panic", o.value.msg))
            else:
                if not strmodels.is_sstr(o.value):
                    raise Inconclusive("transpiler repr returned %r" % (o.value,))
                res.append((o.pc, "ok", o.value))
        return res
