"""Parser for the textual MIR that `rustc -Zunpretty=mir` prints (rustc 1.97 nightly).

Only the subset that occurs in the target functions is understood; anything else raises
MirError, which the drivers turn into an *inconclusive* result (never a pass).
"""
import re


class MirError(Exception):
    pass


# ---------------------------------------------------------------- data
class Place:
    __slots__ = ("local", "proj")

    def __init__(self, local, proj=()):
        self.local = local      # int
        self.proj = tuple(proj)  # ('deref',) | ('field', n) | ('downcast', name) | ('index', local) | ('constindex', n, fromend)

    def __repr__(self):
        return "Place(_%d%s)" % (self.local, "".join("/" + ":".join(map(str, p)) for p in self.proj))


class Operand:
    __slots__ = ("kind", "place", "const")

    def __init__(self, kind, place=None, const=None):
        self.kind = kind  # 'copy' | 'move' | 'const'
        self.place = place
        self.const = const  # raw text of the constant

    def __repr__(self):
        return "%s(%s)" % (self.kind, self.place if self.place is not None else self.const)


class Rvalue:
    __slots__ = ("kind", "a")

    def __init__(self, kind, *a):
        self.kind = kind
        self.a = a

    def __repr__(self):
        return "Rv(%s %s)" % (self.kind, ", ".join(map(repr, self.a)))


class Stmt:
    __slots__ = ("kind", "place", "rv", "text")

    def __init__(self, kind, place=None, rv=None, text=""):
        self.kind, self.place, self.rv, self.text = kind, place, rv, text


class Term:
    __slots__ = ("kind", "a", "text")

    def __init__(self, kind, text, **a):
        self.kind, self.a, self.text = kind, a, text


class Block:
    __slots__ = ("stmts", "term", "cleanup")

    def __init__(self):
        self.stmts, self.term, self.cleanup = [], None, False


class Func:
    def __init__(self, name, sig, nargs, ret_ty):
        self.name, self.sig, self.nargs, self.ret_ty = name, sig, nargs, ret_ty
        self.locals = {}   # n -> type text
        self.blocks = {}   # n -> Block
        self.first_line = 0
        self.nlines = 0
        self.debug = {}    # debug name -> place text


# ---------------------------------------------------------------- low-level scanning helpers
OPEN = "([{<"
CLOSE = ")]}>"


def _skip_str(s, i):
    """s[i] is a quote char (\" or b\" already consumed 'b'); return index after closing quote."""
    q = s[i]
    i += 1
    while i < len(s):
        c = s[i]
        if c == "\\":
            i += 2
            continue
        if c == q:
            return i + 1
        i += 1
    raise MirError("unterminated string in: " + s[:80])


def _char_lit_end(s, i):
    """if a char literal starts at s[i] (a quote), return index after it, else -1"""
    n = len(s)
    if i + 2 < n and s[i + 1] != "\\" and s[i + 2] == "'":
        return i + 3
    if i + 1 < n and s[i + 1] == "\\":
        j = s.find("'", i + 3)
        if j > 0:
            return j + 1
    return -1


def find_top(s, targets, start=0):
    """index of the first char in `targets` (or first occurrence of any string in targets) at bracket depth 0."""
    depth = 0
    i = start
    n = len(s)
    while i < n:
        c = s[i]
        if c == "'":
            j = _char_lit_end(s, i)
            if j > 0:
                i = j
                continue
        if c == '"':
            i = _skip_str(s, i)
            continue
        if depth == 0:
            for t in targets:
                if s.startswith(t, i):
                    return i
        if c == "-" and s.startswith("->", i):
            i += 2
            continue
        if c == "=" and s.startswith("=>", i):
            i += 2
            continue
        if c in OPEN:
            if c == "<" and (i + 1 < n and s[i + 1] in "= ") :
                i += 1
                continue
            depth += 1
        elif c in CLOSE:
            if c == ">" and depth == 0:
                i += 1
                continue
            depth -= 1
            if depth < 0:
                return -1
        i += 1
    return -1


def split_top(s, sep=","):
    out = []
    i = 0
    while True:
        j = find_top(s, [sep], i)
        if j < 0:
            tail = s[i:].strip()
            if tail:
                out.append(tail)
            return out
        out.append(s[i:j].strip())
        i = j + len(sep)


def match_close(s, i):
    """s[i] is an opening bracket; return index of its matching close."""
    depth = 0
    n = len(s)
    j = i
    while j < n:
        c = s[j]
        if c == "'":
            k = _char_lit_end(s, j)
            if k > 0:
                j = k
                continue
        if c == '"':
            j = _skip_str(s, j)
            continue
        if c == "-" and s.startswith("->", j):
            j += 2
            continue
        if c in OPEN:
            depth += 1
        elif c in CLOSE:
            depth -= 1
            if depth == 0:
                return j
        j += 1
    raise MirError("unbalanced: " + s[i:i + 80])


# ---------------------------------------------------------------- places / operands / rvalues
_local_re = re.compile(r"_(\d+)")


def parse_place(s):
    s = s.strip()
    p, rest = _parse_place_prefix(s)
    if rest.strip():
        raise MirError("trailing text after place: %r in %r" % (rest, s))
    return p


def _parse_place_prefix(s):
    """parse a place at the start of s, return (Place, rest)"""
    s = s.lstrip()
    if s.startswith("("):
        end = match_close(s, 0)
        inner = s[1:end]
        rest = s[end + 1:]
        if inner.startswith("*"):
            p = parse_place(inner[1:])
            base = Place(p.local, p.proj + (("deref",),))
        else:
            p, r2 = _parse_place_prefix(inner)
            r2 = r2.lstrip()
            if r2.startswith("as "):
                base = Place(p.local, p.proj + (("downcast", r2[3:].strip()),))
            elif r2.startswith("."):
                m = re.match(r"\.(\d+):", r2)
                if not m:
                    raise MirError("bad field projection: " + s)
                base = Place(p.local, p.proj + (("field", int(m.group(1))),))
            elif r2 == "":
                base = p
            else:
                raise MirError("bad place: " + s)
    else:
        m = _local_re.match(s)
        if not m:
            raise MirError("bad place: " + s)
        base = Place(int(m.group(1)))
        rest = s[m.end():]
    # postfix index projections
    while rest.startswith("["):
        end = match_close(rest, 0)
        idx = rest[1:end].strip()
        rest = rest[end + 1:]
        m = _local_re.fullmatch(idx)
        if m:
            base = Place(base.local, base.proj + (("index", int(m.group(1))),))
            continue
        m = re.fullmatch(r"(-?)(\d+) of (\d+)", idx)
        if m:
            base = Place(base.local, base.proj + (("constindex", int(m.group(2)), m.group(1) == "-"),))
            continue
        m = re.fullmatch(r"(\d+):(-?)(\d+)", idx)
        if m:
            base = Place(base.local, base.proj + (("subslice", int(m.group(1)), int(m.group(3)), m.group(2) == "-"),))
            continue
        raise MirError("bad index projection: " + idx)
    return base, rest


def parse_operand(s):
    s = s.strip()
    if s.startswith("no_retag "):
        s = s[9:].strip()
    if s.startswith("copy "):
        return Operand("copy", place=parse_place(s[5:]))
    if s.startswith("move "):
        return Operand("move", place=parse_place(s[5:]))
    if s.startswith("const "):
        return Operand("const", const=s[6:].strip())
    if re.match(r"[A-Za-z_<]", s):
        return Operand("const", const=s)   # fn item / unit constant used as an operand
    raise MirError("bad operand: " + s)


BINOPS = {"Add", "Sub", "Mul", "Div", "Rem", "BitAnd", "BitOr", "BitXor", "Shl", "Shr", "Eq", "Ne", "Lt", "Le", "Gt",
          "Ge", "AddWithOverflow", "SubWithOverflow", "MulWithOverflow", "Offset", "Cmp", "AddUnchecked",
          "SubUnchecked", "MulUnchecked", "ShlUnchecked", "ShrUnchecked"}
UNOPS = {"Not", "Neg", "PtrMetadata"}


def parse_rvalue(s):
    s = s.strip()
    if s.startswith("no_retag "):
        s = s[9:].strip()
    # references
    for pre, kind in (("&raw const (fake) ", "rawref"), ("&raw const ", "rawref"), ("&raw mut ", "rawref"), ("&mut ", "ref"), ("&fake shallow ", "ref"), ("&fake ", "ref"), ("&", "ref")):
        if s.startswith(pre):
            return Rvalue(kind, parse_place(s[len(pre):]))
    m = re.match(r"([A-Za-z]+)\(", s)
    if m and s.endswith(")"):
        name = m.group(1)
        inner = s[m.end():-1]
        if name in BINOPS:
            a, b = split_top(inner)
            return Rvalue("binop", name, parse_operand(a), parse_operand(b))
        if name in UNOPS:
            return Rvalue("unop", name, parse_operand(inner))
        if name == "discriminant":
            return Rvalue("discriminant", parse_place(inner))
        if name == "Len":
            return Rvalue("len", parse_place(inner))
    if s.startswith("copy ") or s.startswith("move ") or s.startswith("const "):
        # use or cast
        j = find_top(s, [" as "], 5 if not s.startswith("const ") else 6)
        if j > 0 and s.endswith(")"):
            k = s.rfind("(")
            castkind = s[k + 1:-1]
            ty = s[j + 4:k].strip()
            return Rvalue("cast", parse_operand(s[:j]), ty, castkind)
        return Rvalue("use", parse_operand(s))
    if s.startswith("("):
        end = match_close(s, 0)
        if end == len(s) - 1:
            inner = s[1:-1]
            items = split_top(inner)
            return Rvalue("tuple", [parse_operand(x) for x in items])
    if s.startswith("["):
        end = match_close(s, 0)
        if end == len(s) - 1:
            inner = s[1:-1]
            j = find_top(inner, ["; "])
            if j >= 0:
                return Rvalue("repeat", parse_operand(inner[:j]), inner[j + 2:].strip())
            return Rvalue("array", [parse_operand(x) for x in split_top(inner)])
    # closure / struct aggregate:  Path { f: op, .. }
    if s.endswith("}"):
        k = _find_struct_brace(s)
        if k is not None:
            path = s[:k].strip()
            inner = s[k + 1:-1].strip()
            fields = []
            for item in split_top(inner):
                j = find_top(item, [": "])
                if j < 0:
                    raise MirError("bad struct field: " + item)
                fields.append((item[:j].strip(), parse_operand(item[j + 2:])))
            return Rvalue("struct", path, fields)
    # enum variant / tuple struct with args: Path(args)  -- or unit variant: Path
    if s.endswith(")"):
        # find the '(' that opens the final arg list at depth 0
        k = _find_call_paren(s)
        if k is not None:
            path = s[:k].strip()
            inner = s[k + 1:-1]
            return Rvalue("adt", path, [parse_operand(x) for x in split_top(inner)])
    if re.fullmatch(r"[A-Za-z_<>:,& \[\]'()0-9;*+\-{}@/.#=]+", s):
        return Rvalue("adt", s, [])
    raise MirError("unparsed rvalue: " + s)


def _top_groups(s):
    """list of (open_index, close_index, open_char) of the top-level bracket groups of s (strings skipped)"""
    out = []
    depth = 0
    i = 0
    n = len(s)
    start = None
    while i < n:
        c = s[i]
        if c == "'":
            j = _char_lit_end(s, i)
            if j > 0:
                i = j
                continue
        if c == '"':
            i = _skip_str(s, i)
            continue
        if c == "-" and s.startswith("->", i):
            i += 2
            continue
        if c in OPEN:
            if depth == 0:
                start = i
            depth += 1
        elif c in CLOSE:
            depth -= 1
            if depth == 0:
                out.append((start, i, s[start]))
            if depth < 0:
                raise MirError("unbalanced: " + s[:80])
        i += 1
    return out


def _find_call_paren(s):
    """index of the '(' starting the last top-level (...) group that ends at the end of s"""
    g = _top_groups(s)
    if g and g[-1][1] == len(s) - 1 and g[-1][2] == "(":
        return g[-1][0]
    return None


def _find_struct_brace(s):
    g = _top_groups(s)
    if g and g[-1][1] == len(s) - 1 and g[-1][2] == "{" and g[-1][0] > 0 and s[g[-1][0] - 1] == " ":
        return g[-1][0]
    return None


# ---------------------------------------------------------------- terminators
_targets_re = re.compile(r"\[(.*)\]$")


def parse_targets(t):
    """'[return: bb3, unwind continue]' -> dict"""
    out = {}
    for item in split_top(t.strip()[1:-1]):
        if ":" in item:
            k, v = item.split(":", 1)
            out[k.strip()] = v.strip()
        else:
            out[item.split()[0]] = item.split()[1] if len(item.split()) > 1 else ""
    return out


def bbnum(s):
    m = re.fullmatch(r"bb(\d+)", s.strip())
    if not m:
        raise MirError("bad block ref: " + s)
    return int(m.group(1))


def parse_terminator(s):
    t = s.strip().rstrip(";")
    if t == "return":
        return Term("return", s)
    if t == "unreachable":
        return Term("unreachable", s)
    if t in ("resume", "unwind resume", "abort", "terminate(cleanup)", "terminate(abi)") or t.startswith("unwind terminate"):
        return Term("resume", s)
    if t.startswith("goto -> "):
        return Term("goto", s, target=bbnum(t[8:]))
    if t.startswith("switchInt("):
        end = match_close(t, len("switchInt"))
        op = parse_operand(t[len("switchInt("):end])
        rest = t[end + 1:].strip()
        assert rest.startswith("-> ")
        arms = []
        otherwise = None
        for item in split_top(rest[3:].strip()[1:-1]):
            k, v = item.rsplit(":", 1)
            k = k.strip()
            if k == "otherwise":
                otherwise = bbnum(v)
            else:
                arms.append((int(k), bbnum(v)))
        return Term("switch", s, op=op, arms=arms, otherwise=otherwise)
    if t.startswith("assert("):
        end = match_close(t, len("assert"))
        inner = t[len("assert("):end]
        parts = split_top(inner)
        cond = parts[0]
        expected = True
        if cond.startswith("!"):
            expected = False
            cond = cond[1:]
        msg = parts[1] if len(parts) > 1 else ""
        rest = t[end + 1:].strip()
        tg = parse_targets(rest[3:])
        return Term("assert", s, cond=parse_operand(cond), expected=expected, msg=msg,
                    msg_args=[parse_operand(p) for p in parts[2:]], target=bbnum(tg["success"]))
    if t.startswith("drop("):
        end = match_close(t, 4)
        rest = t[end + 1:].strip()
        tg = parse_targets(rest[3:])
        return Term("drop", s, place=parse_place(t[5:end]), target=bbnum(tg["return"]))
    if t.startswith("falseEdge") or t.startswith("falseUnwind"):
        raise MirError("unexpected pre-opt terminator: " + t)
    # call:  PLACE = callee(args) -> [return: bbN, unwind ...]   (or no return for diverging)
    j = find_top(t, [" = "])
    if j > 0:
        dest = parse_place(t[:j])
        rhs = t[j + 3:]
        k = find_top(rhs, [" -> "])
        if k < 0:
            raise MirError("bad call terminator: " + t)
        call = rhs[:k].strip()
        tg = parse_targets(rhs[k + 4:])
        p = _find_call_paren(call)
        if p is None:
            raise MirError("bad call: " + call)
        callee = call[:p].strip()
        args = [parse_operand(x) for x in split_top(call[p + 1:-1])]
        target = bbnum(tg["return"]) if "return" in tg else None
        return Term("call", s, dest=dest, callee=callee, args=args, target=target)
    raise MirError("unparsed terminator: " + t)


# ---------------------------------------------------------------- statements
def parse_statement(s):
    t = s.strip().rstrip(";")
    for pre in ("StorageLive(", "StorageDead(", "nop", "FakeRead(", "PlaceMention(", "AscribeUserType(", "Retag(",
                "Coverage", "ConstEvalCounter", "BackwardIncompatibleDropHint", "Deinit("):
        if t.startswith(pre):
            return Stmt("nop", text=s)
    if t.startswith("assume("):
        return Stmt("assume", rv=parse_operand(t[7:-1]), text=s)
    if t.startswith("discriminant("):
        j = find_top(t, [" = "])
        return Stmt("setdiscr", place=parse_place(t[len("discriminant("):match_close(t, len("discriminant"))]),
                    rv=int(t[j + 3:]), text=s)
    j = find_top(t, [" = "])
    if j < 0:
        raise MirError("unparsed statement: " + t)
    return Stmt("assign", place=parse_place(t[:j]), rv=parse_rvalue(t[j + 3:]), text=s)


# ---------------------------------------------------------------- file level
_fn_re = re.compile(r"^(fn|const|static|static mut) (.*)$")
_let_re = re.compile(r"^\s*let (?:mut )?_(\d+): (.*);$")
_bb_re = re.compile(r"^\s*bb(\d+)( \(cleanup\))?: \{$")


class MirFile:
    """Lazy index of a MIR dump: items are located by header line, bodies parsed on demand."""

    def __init__(self, path):
        self.path = path
        with open(path, encoding="utf-8", errors="replace") as f:
            self.lines = f.read().split("\n")
        self.items = {}    # full header name -> (start, end)
        self.order = []
        self._parsed = {}
        i = 0
        n = len(self.lines)
        while i < n:
            ln = self.lines[i]
            if ln and not ln[0].isspace() and (ln.startswith("fn ") or ln.startswith("const ") or ln.startswith("static ")) and ln.rstrip().endswith("{"):
                j = i + 1
                while j < n and self.lines[j] != "}":
                    j += 1
                name = self._header_name(ln)
                # macro-generated impls can share one header name (same `impl at` span): keep all, suffix `#n`
                if name in self.items:
                    k = 2
                    while "%s#%d" % (name, k) in self.items:
                        k += 1
                    name = "%s#%d" % (name, k)
                self.items[name] = (i, j)
                self.order.append(name)
                i = j + 1
            else:
                i += 1

    @staticmethod
    def _header_name(ln):
        if ln.startswith("fn "):
            rest = ln[3:]
            # name up to the '(' that opens the parameter list: first top-level '('
            k = find_top(rest, ["("])
            return rest[:k].strip()
        m = re.match(r"(?:const|static mut|static) (.*?): ", ln)
        # careful: names contain ': ' inside '<impl at file:1:2: 3:4>' -> use find_top
        rest = ln.split(" ", 1)[1]
        if rest.startswith("mut "):
            rest = rest[4:]
        k = find_top(rest, [": "])
        return rest[:k].strip()

    def find(self, pattern):
        """all item names matching regex"""
        r = re.compile(pattern)
        return [n for n in self.order if r.search(n)]

    def func(self, name):
        if name in self._parsed:
            return self._parsed[name]
        if name not in self.items:
            raise MirError("no MIR item named " + name)
        a, b = self.items[name]
        f = self._parse_item(name, a, b)
        self._parsed[name] = f
        return f

    def _parse_item(self, name, a, b):
        hdr = self.lines[a]
        nargs = 0
        ret = ""
        if hdr.startswith("fn "):
            rest = hdr[3:]
            k = find_top(rest, ["("])
            e = match_close(rest, k)
            params = split_top(rest[k + 1:e])
            nargs = len(params)
            tail = rest[e + 1:].strip()
            if tail.startswith("->"):
                ret = tail[2:].rstrip("{").strip()
        f = Func(name, hdr, nargs, ret)
        f.first_line = a + 1
        f.nlines = b - a + 1
        if hdr.startswith("fn "):
            for i, p in enumerate(params):
                m = re.match(r"_(\d+): (.*)$", p)
                if not m:
                    raise MirError("bad param: " + p)
                f.locals[int(m.group(1))] = m.group(2)
        cur = None
        i = a + 1
        while i < b:
            ln = self.lines[i]
            st = ln.strip()
            i += 1
            if not st or st == "}":
                continue
            m = _bb_re.match(ln)
            if m:
                cur = Block()
                cur.cleanup = bool(m.group(2))
                f.blocks[int(m.group(1))] = cur
                continue
            if cur is None:
                m = _let_re.match(ln)
                if m:
                    f.locals[int(m.group(1))] = m.group(2)
                    continue
                if st.startswith("debug "):
                    mm = re.match(r"debug (\S+) => (.*);", st)
                    if mm:
                        f.debug[mm.group(1)] = mm.group(2)
                    continue
                if st.startswith("scope ") or st.startswith("let "):
                    mm = _let_re.match(ln)
                    if mm:
                        f.locals[int(mm.group(1))] = mm.group(2)
                    continue
                continue
            # inside a block: statements end with ';'.  multi-line statements do not occur in this dump
            cur.stmts.append((i, st))
        # split statements / terminator lazily: last line of each block is the terminator
        for bn, blk in f.blocks.items():
            raw = blk.stmts
            blk.stmts = raw[:-1]
            blk.term = raw[-1]
        return f


_stmt_cache = {}


def stmt_of(raw):
    line, text = raw
    key = text
    s = _stmt_cache.get(key)
    if s is None:
        try:
            s = parse_statement(text)
        except MirError as e:
            raise MirError("line %d: %s" % (line, e))
        _stmt_cache[key] = s
    return s


_term_cache = {}


def term_of(raw):
    line, text = raw
    t = _term_cache.get(text)
    if t is None:
        try:
            t = parse_terminator(text)
        except MirError as e:
            raise MirError("line %d: %s" % (line, e))
        _term_cache[text] = t
    return t



def static_str(mf, alloc):
    """text of a `static NAME: &str` referenced as `{allocN: &&str}`: allocN holds (pointer to allocM, length), allocM the bytes.
    None when the dump does not determine it uniquely."""
    import re as _re
    cache = getattr(mf, "_static_str_cache", None)
    if cache is None:
        cache = mf._static_str_cache = {}
    if alloc in cache:
        return cache[alloc]
    found = set()
    lines = mf.lines
    for i, l in enumerate(lines):
        if l.startswith(alloc + " (static:") and i + 1 < len(lines):
            m = _re.search(r"(alloc\d+)<imm>[^0-9a-f]*((?:[0-9a-f]{2} ){8})", lines[i + 1])
            if not m:
                continue
            target = m.group(1)
            n = int.from_bytes(bytes(int(x, 16) for x in m.group(2).split()), "little")
            for j, l2 in enumerate(lines):
                if l2.startswith(target + " (size: %d," % n):
                    hexes = []
                    k = j + 1
                    while k < len(lines) and not lines[k].startswith("}"):
                        part = lines[k].split("\u2502")[0]
                        part = _re.sub(r"^\s*0x[0-9a-f]+\s*\u2502?", "", part) if "\u2502" in lines[k] and lines[k].strip().startswith("0x") else part
                        hexes += _re.findall(r"\b[0-9a-f]{2}\b", part)
                        k += 1
                    if len(hexes) >= n:
                        found.add(bytes(int(x, 16) for x in hexes[:n]).decode("utf-8", "replace"))
                    break
    res = found.pop() if len(found) == 1 else None
    cache[alloc] = res
    return res


def static_slice_len(mf, alloc):
    """length of a `static NAME: &[T]` referenced as `{allocN: &&[T]}`: allocN holds (pointer, length).  None when the dump does
    not determine it uniquely."""
    import re as _re
    found = set()
    lines = mf.lines
    for i, l in enumerate(lines):
        if l.startswith(alloc + " (static:") and "size: 16," in l and i + 1 < len(lines):
            m = _re.search(r"(alloc\d+)<imm>[^0-9a-f]*((?:[0-9a-f]{2} ){8})", lines[i + 1])
            if m:
                found.add(int.from_bytes(bytes(int(x, 16) for x in m.group(2).split()), "little"))
    return found.pop() if len(found) == 1 else None
