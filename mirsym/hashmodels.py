"""`HashMap<String, V>` with CONCRETE keys (variable names): an association list in insertion order.  Hashing and iteration order
are not modelled - operations whose result depends on iteration order over more than one entry make the run inconclusive."""
import re
import z3
from sym import Sc, Adt, Ref, Opaque, Panic, Inconclusive, UNIT, bv, boolv
from models import some, NONE
from strmodels import to_sstr, sstr


def _key_text(ex, st, v):
    s_ = to_sstr(ex, st, v)
    if s_ is None:
        raise Inconclusive("map key %r" % (v,))
    out = ""
    for c in s_.fields:
        e = z3.simplify(c.e)
        if not z3.is_bv_value(e):
            raise Inconclusive("symbolic map key")
        out += chr(e.as_long())
    return out


def hashmap(pairs):
    """pairs: [(text, value)]"""
    return Adt("HashMap", None, [Adt("()", None, [Opaque("key", k), v]) for k, v in pairs])


def entries(m):
    return [(e.fields[0].data, e.fields[1]) for e in m.fields]


def _map_at(ex, st, ref):
    if not isinstance(ref, Ref):
        raise Inconclusive("HashMap method on non-reference %r" % (ref,))
    v = ex.read(st, ref.cell, ref.path)
    n = 0
    while isinstance(v, Ref) and n < 6:
        ref = v
        v = ex.read(st, ref.cell, ref.path)
        n += 1
    if not (isinstance(v, Adt) and v.ty == "HashMap"):
        raise Inconclusive("expected a HashMap, got %r" % (v,))
    return ref, v


def m_new(ex, st, callee, args):
    return [(None, hashmap([]))]


def m_get(ex, st, callee, args):
    ref, m = _map_at(ex, st, args[0])
    k = _key_text(ex, st, args[1])
    for i, (kk, _) in enumerate(entries(m)):
        if kk == k:
            return [(None, some(Ref(ref.cell, ref.path + (i, 1))))]
    return [(None, NONE)]


def m_contains_key(ex, st, callee, args):
    _, m = _map_at(ex, st, args[0])
    k = _key_text(ex, st, args[1])
    return [(None, boolv(any(kk == k for kk, _ in entries(m))))]


def m_insert(ex, st, callee, args):
    ref, m = _map_at(ex, st, args[0])
    k = _key_text(ex, st, args[1])
    ents = entries(m)
    old = NONE
    new = []
    hit = False
    for kk, v in ents:
        if kk == k:
            old = some(v)
            new.append((kk, args[2]))
            hit = True
        else:
            new.append((kk, v))
    if not hit:
        new.append((k, args[2]))
    ex.write(st, ref.cell, ref.path, hashmap(new))
    return [(None, old)]


def m_remove(ex, st, callee, args):
    ref, m = _map_at(ex, st, args[0])
    k = _key_text(ex, st, args[1])
    ents = entries(m)
    old = NONE
    for kk, v in ents:
        if kk == k:
            old = some(v)
    ex.write(st, ref.cell, ref.path, hashmap([(kk, v) for kk, v in ents if kk != k]))
    return [(None, old)]


def m_len(ex, st, callee, args):
    _, m = _map_at(ex, st, args[0])
    return [(None, bv("usize", len(m.fields)))]


def m_clone(ex, st, callee, args):
    _, m = _map_at(ex, st, args[0])
    return [(None, m)]


def m_option_cloned(ex, st, callee, args):
    v = args[0]
    if not (isinstance(v, Adt) and v.ty == "Option"):
        raise Inconclusive("Option::cloned on %r" % (v,))
    if v.variant == "None":
        return [(None, NONE)]
    inner = v.fields[0]
    n = 0
    while isinstance(inner, Ref) and n < 1:
        inner = ex.read(st, inner.cell, inner.path)
        n += 1
    return [(None, some(inner))]


def m_refcell_borrow(ex, st, callee, args):
    """std RefCell::borrow / borrow_mut: a guard holding a reference to the content (borrow flags of std's RefCell are not
    modelled: the kernels that use it hold one borrow at a time, which the native validation confirms)"""
    ref = args[0]
    n = 0
    while n < 6:
        v = ex.read(st, ref.cell, ref.path)
        if isinstance(v, Ref):
            ref = v
            n += 1
            continue
        break
    if not (isinstance(v, Adt) and v.ty == "RefCell"):
        raise Inconclusive("RefCell borrow on %r" % (v,))
    return [(None, Adt("StdRef", None, [Ref(ref.cell, ref.path + (0,))]))]


def m_stdref_deref(ex, st, callee, args):
    g = args[0]
    n = 0
    while isinstance(g, Ref) and n < 6:
        g = ex.read(st, g.cell, g.path)
        n += 1
    if not (isinstance(g, Adt) and g.ty == "StdRef"):
        raise Inconclusive("Ref deref on %r" % (g,))
    return [(None, g.fields[0])]


def m_refcell_new(ex, st, callee, args):
    return [(None, Adt("RefCell", None, [args[0]]))]


def m_map_eq(ex, st, callee, args):
    """<HashMap<String, V> as PartialEq>::eq: same key set and equal values (the crate's `V::eq` is run per key)"""
    from sym import Invoke
    ra, a = _map_at(ex, st, args[0])
    rb, b = _map_at(ex, st, args[1])
    ka = {k: i for i, (k, _) in enumerate(entries(a))}
    kb = {k: i for i, (k, _) in enumerate(entries(b))}
    neg = callee.endswith("::ne")
    if set(ka) != set(kb):
        return [(None, boolv(neg))]
    m_ = re.match(r"^<(?:std::collections::)?HashMap<String, (.*)> as PartialEq>::", callee)
    fn = ex.resolver("<%s as PartialEq>::eq" % m_.group(1), 2) if m_ else None
    if fn is None:
        raise Inconclusive("value equality for " + callee)
    keys = sorted(ka)

    def step(i, acc):
        if i == len(keys):
            r = z3.And(*acc) if acc else z3.BoolVal(True)
            return Sc("bool", z3.Not(r) if neg else r)
        k = keys[i]
        return Invoke(fn, [Ref(ra.cell, ra.path + (ka[k], 1)), Ref(rb.cell, rb.path + (kb[k], 1))], lambda st2, val: step(i + 1, acc + [val.e]))
    return [(None, step(0, []))]


def m_into_identity(ex, st, callee, args):
    """<&String as Into<String>>::into / From conversions between string handles / HashMap -> VariableMapping wrappers are
    structural copies in this value model"""
    v = args[0]
    n = 0
    while isinstance(v, Ref) and n < 2:
        v = ex.read(st, v.cell, v.path)
        n += 1
    return [(None, v)]


def m_into_via_from(ex, st, callee, args):
    """<T as Into<U>>::into for a crate type U: run the crate's own `impl From<T> for U` (std's blanket impl forwards to it)"""
    from sym import Invoke
    import re as _re
    m_ = _re.match(r"^<(.*) as Into<(.*)>>::into$", callee)
    src, dst = m_.group(1), m_.group(2).split("::")[-1]
    cands = []
    for name in ex.mf.order:
        if name.endswith(">::from") and "::promoted[" not in name:
            f = ex.mf.func(name)
            if f.nargs == 1 and f.ret_ty.strip().split("::")[-1] == dst and f.locals[1].strip().split("<")[0].split("::")[-1] == src.split("<")[0].split("::")[-1]:
                cands.append(name)
    if len(cands) != 1:
        raise Inconclusive("no unique `impl From<%s> for %s` in the crate (%d)" % (src, dst, len(cands)))
    return [(None, Invoke(cands[0], [args[0]], lambda st2, val: val))]


def install(m):
    K = r"(std::collections::)?HashMap::<String, [^>]*(<.*>)?>"
    pre = [
        (r"^(std::collections::)?HashMap::<.*>::(new|with_capacity)$|^<(std::collections::)?HashMap<.*> as Default>::default$", m_new),
        (r"^(std::collections::)?HashMap::<String, .*>::get::<.*>$", m_get),
        (r"^(std::collections::)?HashMap::<String, .*>::contains_key::<.*>$", m_contains_key),
        (r"^(std::collections::)?HashMap::<String, .*>::insert$", m_insert),
        (r"^(std::collections::)?HashMap::<String, .*>::remove::<.*>$", m_remove),
        (r"^(std::collections::)?HashMap::<String, .*>::len$", m_len),
        (r"^<(std::collections::)?HashMap<String, .*> as Clone>::clone$", m_clone),
        (r"^Option::<&.*>::cloned$", m_option_cloned),
        (r"^<(std::collections::)?HashMap<String, .*> as PartialEq>::(eq|ne)$", m_map_eq),
        (r"^RefCell::<.*>::(borrow|borrow_mut)$", m_refcell_borrow),
        (r"^<(std::cell::)?Ref(Mut)?<'_, .*> as Deref(Mut)?>::deref(_mut)?$", m_stdref_deref),
        (r"^RefCell::<.*>::new$", m_refcell_new),
        (r"^<&String as Into<String>>::into$|^<String as From<&String>>::from$", m_into_identity),
        (r"^<(std::collections::)?HashMap<.*> as Into<stack::VariableMapping>>::into$", m_into_via_from),
    ]
    m.table = [(re.compile(p), h) for p, h in pre] + m.table
    m.cache.clear()
    return m
