"""C08 (kernel): objects have per-instance state, reference identity, and fields that are shared cells.

Real code executed from its MIR (crate `bytecode`), on the pointer model of `Gc`:
  ObjectBuilder::build            what `make_object` ends with: a new object over the constructor frame's variable cells
  <Object as Clone>::clone        what assigning / passing / returning / storing an object does
  Primitive::runtime_addr_check   the `is` operator
  instruction lookup <field>      `obj.f`: a pointer (HeapPrimitive::Lookup) to the field
  instruction ptr_mut             `obj.f = v` (and `list[i] = v`): write through such a pointer
An object is the real struct { name, object_variables: VariableMapping, debug_lock: Gc<DebugPrintableLock> }; its identity is the
address of `debug_lock`, its fields are the real `PrimitiveFlagsPair` cells (scopekernels' representation).

Meaning (property C08): every build yields a DISTINCT object (never `is`-equal to another build, whatever the field values) whose
fields are exactly the variables it was built from; a clone IS the same object (`is` true) and shares every field cell, so a write
through any alias is visible through all; `obj.f` designates the field's own cell of that object, an unknown field is an error;
writing through the pointer changes that cell and nothing else (no other field, no other object).
"""
import os, re, time
import z3
import sym, models, strmodels, stridx, gcmodels, utf8models as U, hashmodels as H, targets
import opcheck as Q
from sym import Sc, Adt, Ref, Opaque, Inconclusive
from opkernels import CRATE_PREFIXES, prim
from scopekernels import m_mem_replace

FIELDS = ("f", "g")


def _cls():
    return Adt("Option", "Some", [strmodels.sstr([Sc("char", z3.BitVecVal(ord("C"), 32))])])


class ObjKernels:
    def __init__(self, mf, overflow_checks, repo, seed=0):
        self.mf = mf
        targets.register_primitive_enum(repo)
        targets.register_enum_from_source(os.path.join(repo, "bytecode/src/variables/primitive.rs"), "HeapPrimitive")
        m = H.install(U.install(stridx.install(strmodels.install(models.base_models()))))
        m.table = [(r, h) for r, h in m.table if h.__name__ not in ("m_pair_primitive", "m_pair_set_primitive", "m_load_variable")]
        m.table = [(re.compile(r"^std::mem::replace::<.*>$"), m_mem_replace)] + m.table
        m.cache.clear()
        pre = CRATE_PREFIXES + ["GcVector", "PrimitiveFlagsPair", "VariableMapping", "VariableFlags", "Object", "ObjectBuilder", "DebugPrintableLock",
                                "HeapPrimitive", "TupleWithGcOpt", "object::"]
        self.ex = gcmodels.install_drop_hooks(sym.Executor(mf, overflow_checks, m, targets.generic_resolver(mf, pre), seed=seed))
        self.fn = {
            "lookup": targets.find_one(mf, r"^(implementations::)?lookup$"),
            "ptr_mut": targets.find_one(mf, r"^(implementations::)?ptr_mut$"),
            "is": targets.find_one(mf, r"primitive\.rs.*>::runtime_addr_check$"),
            "build": targets.find_one(mf, r"object\.rs.*>::build$"),
            "set_name": targets.find_one(mf, r"object\.rs.*>::name$"),
            "set_variables": targets.find_one(mf, r"object\.rs.*>::object_variables$", lambda f: f.nargs == 2),
        }
        self.fn["clone"] = self.ex.resolver("<variables::primitive::Primitive as Clone>::clone", 1)
        if self.fn["clone"] is None:
            raise Inconclusive("derived Clone of Primitive not found")

    def encoded_functions(self):
        return {k: {"mir_item": n, "mir_lines": self.mf.func(n).nlines} for k, n in self.fn.items()}

    # ------------------------------------------------------------ state
    def pair(self, cells, key, val, fl):
        cells[("gc", key)] = gcmodels.gccell(Adt("TupleWithGcOpt", None, [prim("Int", Sc("i32", val)), Adt("VariableFlags", None, [Sc("u8", fl)])]))
        return Adt("PrimitiveFlagsPair", None, [Adt("Gc", None, [Ref(("gc", key))])])

    def obj(self, cells, tag, vs, pc):
        ents = []
        for nm in FIELDS:
            val, fl = z3.BitVec("%s_%s" % (tag, nm), 32), z3.BitVec("fl_%s_%s" % (tag, nm), 8)
            pc.append(z3.Or(fl == 0, fl == 1))
            ents.append((nm, self.pair(cells, "%s.%s" % (tag, nm), val, fl)))
            vs[(tag, nm)] = (("gc", "%s.%s" % (tag, nm)), val, fl)
        cells[("gc", "lock." + tag)] = Adt("DebugPrintableLock", None, [Adt("Cell", None, [Sc("bool", z3.BoolVal(True))])])
        return Adt("Primitive", "Object", [Adt("Object", None, [_cls(), Adt("VariableMapping", None, [H.hashmap(ents)]), Adt("Gc", None, [Ref(("gc", "lock." + tag))])])])


def cellvals(o):
    out = {}
    for k, c in o.cells.items():
        if isinstance(k, tuple) and k and k[0] == "gc" and isinstance(c, Adt) and c.ty == "GcCell" and isinstance(c.fields[0], Adt) and c.fields[0].ty == "TupleWithGcOpt":
            t = c.fields[0]
            out[k] = (t.fields[0].fields[0].e if t.fields[0].variant == "Int" else None, t.fields[1].fields[0].e)
    return out


def _obj_shape(v):
    """(identity cell, {field: cell}) of an Object primitive value"""
    o = v.fields[0]
    return o.fields[2].fields[0].cell, {k: p.fields[0].fields[0].cell for k, p in H.entries(o.fields[1].fields[0])}


def _unchanged(vs, cv, except_key=None):
    conds = []
    for (tag, nm), (key, val, fl) in vs.items():
        if key == except_key:
            continue
        got = cv.get(key)
        if got is None or got[0] is None:
            return z3.BoolVal(False)
        conds += [got[0] == val, got[1] == fl]
    return z3.And(*conds) if conds else z3.BoolVal(True)


def _ask(qs, cond, label, timeout_ms, seed):
    qs.obligations += 1
    t = time.time()
    c = z3.simplify(cond)
    if z3.is_false(c):
        qs.discharged += 1
        return None
    r, m = Q.solve(c, timeout_ms, seed)
    qs.solver_s += time.time() - t
    if r == z3.unsat:
        qs.discharged += 1
        if len(qs.samples) < 12:
            qs.samples.append({"obligation": label, "result": "unsat"})
        return None
    if r == z3.sat:
        qs.violated += 1
        return m
    qs.undecided.append(label)
    return None


def check_all(ok_, profile, qs, timeout_ms, seed):
    """-> list of (operation, class, detail, model, vs)"""
    bad = []

    def fail(op, lab, pcz, cls, detail, vs, cond=None):
        m = _ask(qs, pcz if cond is None else z3.And(pcz, cond), "object.%s/%s:%s:%s" % (op, profile, lab, cls), timeout_ms, seed)
        if m is not None:
            bad.append((op, cls, detail, m, vs))

    ex = ok_.ex
    # ---- clone = the same object
    cells, vs, pc = {}, {}, []
    o1 = ok_.obj(cells, "a", vs, pc)
    cells[("in",)] = o1
    for pi, o in enumerate(ex.run(ok_.fn["clone"], [Ref(("in",))], cells=cells, pc=pc)):
        pcz = z3.And(*o.pc) if o.pc else z3.BoolVal(True)
        if o.kind == "panic":
            fail("clone", "p%d" % pi, pcz, "panic", "Rust panic `%s`" % o.value.msg, vs)
            continue
        if not (isinstance(o.value, Adt) and o.value.variant == "Object") or _obj_shape(o.value) != _obj_shape(o1):
            fail("clone", "p%d" % pi, pcz, "alias-is-a-copy", "an alias of an object does not share its identity and every field cell", vs)
        else:
            qs.obligations += 1
            qs.discharged += 1
            fail("clone", "p%d" % pi, pcz, "alias-changes-state", "making an alias changes a field", vs, z3.Not(_unchanged(vs, cellvals(o))))
    # ---- `is`
    for other in ("alias", "other-build"):
        cells, vs, pc = {}, {}, []
        o1 = ok_.obj(cells, "a", vs, pc)
        o2 = o1 if other == "alias" else ok_.obj(cells, "b", vs, pc)
        cells[("l",)], cells[("r",)] = o1, o2
        for pi, o in enumerate(ex.run(ok_.fn["is"], [Ref(("l",)), Ref(("r",))], cells=cells, pc=pc)):
            pcz = z3.And(*o.pc) if o.pc else z3.BoolVal(True)
            lab = "%s:p%d" % (other, pi)
            if o.kind == "panic":
                fail("is", lab, pcz, "panic", "Rust panic `%s`" % o.value.msg, vs)
            elif o.value.variant != "Ok" or o.value.fields[0].variant != "Bool":
                fail("is", lab, pcz, "fails", "`is` on two objects does not yield a boolean", vs)
            else:
                b = o.value.fields[0].fields[0].e
                want = other == "alias"
                fail("is", lab, pcz, "wrong-identity", "`is` is %s for %s" % ("false" if want else "true", "two references to one object" if want else "two separately built objects (whatever their field values)"),
                     vs, b != z3.BoolVal(want))
    # ---- build: distinct identity, fields = the given variables
    cells, vs, pc = {}, {}, []
    ents = []
    for nm in FIELDS:
        val, fl = z3.BitVec("c_%s" % nm, 32), z3.BitVec("fl_c_%s" % nm, 8)
        pc.append(z3.Or(fl == 0, fl == 1))
        ents.append((nm, ok_.pair(cells, "ctor.%s" % nm, val, fl)))
        vs[("ctor", nm)] = (("gc", "ctor.%s" % nm), val, fl)
    cells[("builder",)] = Adt("ObjectBuilder", None, [_cls(), Adt("Option", "Some", [Adt("VariableMapping", None, [H.hashmap(ents)])]), H.hashmap([])])
    firsts = ex.run(ok_.fn["build"], [Ref(("builder",))], cells=cells, pc=pc)
    for pi, o in enumerate(firsts):
        pcz = z3.And(*o.pc) if o.pc else z3.BoolVal(True)
        if o.kind == "panic":
            fail("build", "p%d" % pi, pcz, "panic", "Rust panic `%s`" % o.value.msg, vs)
            continue
        ident, fields = _obj_shape(Adt("Primitive", "Object", [o.value]))
        if fields != {nm: ("gc", "ctor.%s" % nm) for nm in FIELDS}:
            fail("build", "p%d" % pi, pcz, "fields-not-the-constructor-variables", "the object's fields are not the very variables it was built from", vs)
        else:
            qs.obligations += 1
            qs.discharged += 1
        # a second build from the same builder state is another object
        for qi, o2 in enumerate(ex.run(ok_.fn["build"], [Ref(("builder",))], cells=dict(o.cells), pc=list(o.pc))):
            if o2.kind == "panic":
                continue
            ident2, _ = _obj_shape(Adt("Primitive", "Object", [o2.value]))
            pcz2 = z3.And(*o2.pc) if o2.pc else z3.BoolVal(True)
            if ident2 == ident:
                fail("build", "p%d.%d" % (pi, qi), pcz2, "same-identity-twice", "two constructor calls yield the same object identity", vs)
            else:
                qs.obligations += 1
                qs.discharged += 1
    # ---- two constructor calls in a row through the long-lived builder: name(..).object_variables(frame).build()
    cells, vs, pc = {}, {}, []
    maps = []
    for tag in ("k1", "k2"):
        ents = []
        for nm in FIELDS:
            val, fl = z3.BitVec("%s_%s" % (tag, nm), 32), z3.BitVec("fl_%s_%s" % (tag, nm), 8)
            pc.append(z3.Or(fl == 0, fl == 1))
            ents.append((nm, ok_.pair(cells, "%s.%s" % (tag, nm), val, fl)))
            vs[(tag, nm)] = (("gc", "%s.%s" % (tag, nm)), val, fl)
        maps.append(Adt("VariableMapping", None, [H.hashmap(ents)]))
    cells[("builder",)] = Adt("ObjectBuilder", None, [Adt("Option", "None", []), Adt("Option", "None", []), H.hashmap([])])
    states = [(cells, pc, [])]
    for step, mp in enumerate(maps):
        nxt = []
        for c0, p0, objs in states:
            for o_a in ex.run(ok_.fn["set_name"], [Ref(("builder",)), strmodels.sstr([Sc("char", z3.BitVecVal(ord("C"), 32))])], cells=dict(c0), pc=list(p0)):
                if o_a.kind == "panic":
                    continue
                for o_b in ex.run(ok_.fn["set_variables"], [Ref(("builder",)), mp], cells=dict(o_a.cells), pc=list(o_a.pc)):
                    if o_b.kind == "panic":
                        continue
                    for o_c in ex.run(ok_.fn["build"], [Ref(("builder",))], cells=dict(o_b.cells), pc=list(o_b.pc)):
                        pcz = z3.And(*o_c.pc) if o_c.pc else z3.BoolVal(True)
                        if o_c.kind == "panic":
                            fail("construct", "step%d" % step, pcz, "panic", "Rust panic `%s`" % o_c.value.msg, vs)
                            continue
                        nxt.append((o_c.cells, list(o_c.pc), objs + [_obj_shape(Adt("Primitive", "Object", [o_c.value]))]))
        states = nxt
    if not states:
        raise Inconclusive("vacuity: the construction sequence has no surviving path")
    for si, (c_, p_, objs) in enumerate(states):
        pcz = z3.And(*p_) if p_ else z3.BoolVal(True)
        want = [{nm: ("gc", "%s.%s" % (tag, nm)) for nm in FIELDS} for tag in ("k1", "k2")]
        if [o_[1] for o_ in objs] != want or objs[0][0] == objs[1][0]:
            fail("construct", "s%d" % si, pcz, "instances-share-state", "two constructor calls in a row do not yield two objects over their own constructor variables (fields or identity shared)", vs)
        else:
            qs.obligations += 1
            qs.discharged += 1
    # ---- a list-valued field re-pointed at ANOTHER list (possibly of equal contents): the field must then hold that list
    cells, vs, pc = {}, {}, []
    e1, e2 = z3.BitVec("le1", 32), z3.BitVec("le2", 32)
    cells[("gc", "L1")] = gcmodels.gccell(Adt("Vec", None, [prim("Int", Sc("i32", e1))]))
    cells[("gc", "L2")] = gcmodels.gccell(Adt("Vec", None, [prim("Int", Sc("i32", e2))]))
    vec = lambda key: Adt("Primitive", "Vector", [Adt("GcVector", None, [Adt("Gc", None, [Ref(("gc", key))])])])
    cells[("gc", "fld")] = gcmodels.gccell(Adt("TupleWithGcOpt", None, [vec("L1"), Adt("VariableFlags", None, [Sc("u8", z3.BitVecVal(0, 8))])]))
    ptr = Adt("Primitive", "HeapPrimitive", [Adt("HeapPrimitive", "Lookup", [Adt("PrimitiveFlagsPair", None, [Adt("Gc", None, [Ref(("gc", "fld"))])])])])
    cells[("ctx",)] = Adt("Ctx", None, [Adt("Vec", None, [ptr, vec("L2")])] + [Opaque("ctx-field", i) for i in range(1, 6)])
    cells[("iargs",)] = Adt("[]", None, [])
    for pi, o in enumerate(ex.run(ok_.fn["ptr_mut"], [Ref(("ctx",)), Ref(("iargs",))], cells=cells, pc=pc)):
        pcz = z3.And(*o.pc) if o.pc else z3.BoolVal(True)
        if o.kind == "panic":
            fail("field-write-list", "p%d" % pi, pcz, "panic", "Rust panic `%s`" % o.value.msg, vs)
            continue
        if o.value.variant != "Ok":
            fail("field-write-list", "p%d" % pi, pcz, "spurious-failure", "writing a list into a field fails", vs)
            continue
        held = o.cells[("gc", "fld")].fields[0].fields[0]
        okh = isinstance(held, Adt) and held.variant == "Vector" and held.fields[0].fields[0].fields[0].cell == ("gc", "L2")
        if not okh:
            fail("field-write-list", "p%d" % pi, pcz, "keeps-old-list", "after `obj.f = other_list` the field still refers to the old list (aliasing with `other_list` is lost)", vs)
        else:
            qs.obligations += 1
            qs.discharged += 1
    # ---- lookup and write through the pointer
    for field in FIELDS + ("zz",):
        cells, vs, pc = {}, {}, []
        o1 = ok_.obj(cells, "a", vs, pc)
        o2 = ok_.obj(cells, "b", vs, pc)
        cells[("ctx",)] = Adt("Ctx", None, [Adt("Vec", None, [o1])] + [Opaque("ctx-field", i) for i in range(1, 6)])
        cells[("iargs",)] = Adt("[]", None, [Opaque("strlit", '"%s"' % field)])
        for pi, o in enumerate(ex.run(ok_.fn["lookup"], [Ref(("ctx",)), Ref(("iargs",))], cells=cells, pc=pc)):
            pcz = z3.And(*o.pc) if o.pc else z3.BoolVal(True)
            lab = "%s:p%d" % (field, pi)
            if o.kind == "panic":
                fail("lookup", lab, pcz, "panic", "Rust panic `%s`" % o.value.msg, vs)
                continue
            if field == "zz":
                if o.value.variant != "Err":
                    fail("lookup", lab, pcz, "finds-unknown-field", "looking up a name that is neither a field nor a method succeeds", vs)
                else:
                    qs.obligations += 1
                    qs.discharged += 1
                continue
            if o.value.variant != "Ok":
                fail("lookup", lab, pcz, "spurious-failure", "looking up an existing field fails", vs)
                continue
            stack = o.cells[("ctx",)].fields[0]
            top = stack.fields[0] if len(stack.fields) == 1 else None
            okp = isinstance(top, Adt) and top.variant == "HeapPrimitive" and top.fields[0].variant == "Lookup" \
                and top.fields[0].fields[0].fields[0].fields[0].cell == ("gc", "a.%s" % field)
            if not okp:
                fail("lookup", lab, pcz, "wrong-field", "`obj.%s` does not designate that object's own field cell" % field, vs)
                continue
            qs.obligations += 1
            qs.discharged += 1
            fail("lookup", lab, pcz, "lookup-changes-state", "reading a field changes a field", vs, z3.Not(_unchanged(vs, cellvals(o))))
            # write through it
            v = z3.BitVec("v", 32)
            cells2 = dict(o.cells)
            cells2[("ctx",)] = Adt("Ctx", None, [Adt("Vec", None, [top, prim("Int", Sc("i32", v))])] + [Opaque("ctx-field", i) for i in range(1, 6)])
            cells2[("iargs",)] = Adt("[]", None, [])
            for qi, o2 in enumerate(ex.run(ok_.fn["ptr_mut"], [Ref(("ctx",)), Ref(("iargs",))], cells=cells2, pc=list(o.pc))):
                pcz2 = z3.And(*o2.pc) if o2.pc else z3.BoolVal(True)
                lab2 = "%s:p%d.%d" % (field, pi, qi)
                if o2.kind == "panic":
                    fail("field-write", lab2, pcz2, "panic", "Rust panic `%s`" % o2.value.msg, vs)
                    continue
                if o2.value.variant != "Ok":
                    fail("field-write", lab2, pcz2, "spurious-failure", "writing a field fails", vs)
                    continue
                key, _, fl = vs[("a", field)]
                cv = cellvals(o2)
                fail("field-write", lab2, pcz2, "wrong-value", "the field does not hold the written value (flags kept)", vs,
                     z3.Not(z3.And(cv[key][0] == v, cv[key][1] == fl)) if cv.get(key) and cv[key][0] is not None else None)
                fail("field-write", lab2, pcz2, "touches-other-state", "writing one field changes another field or another object", vs,
                     z3.Not(_unchanged(vs, cv, except_key=key)))
    return bad
