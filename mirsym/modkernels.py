"""C11 (kernel): modules initialise exactly once and all importers share one instance.

Real code executed from its MIR:
 (a) the instruction `module_entry <path>`: signals exactly one JumpRequest{destination: Module(path)} and clears the operand stack;
 (b) `Program::process_jump_request` for a Module destination, from an ARBITRARY module cache (the requested path cached or not,
     0..2 other modules cached).  `process_standard_jump_request` - running the module's top-level code - is an environment stub:
     a recorded effect that yields a fresh module instance, no value, or an error (arbitrary).
A module instance is the real `ExportMap = Gc<GcCell<VariableMapping>>` on the pointer model of Gc: "the same instance" is "the same
cell".  Meaning: cache hit => the cached instance is returned, the module's code is NOT run, the cache is unchanged; miss => the
code runs exactly once (the stub registers the file's export map under the path, as `add_file` does, and `ret_mod` yields that same
map); if it yields a module, that instance is what the cache holds under the path (other entries untouched) and what is returned;
if it fails or yields no module, the import fails and the cache holds at most the loader's registration.  By induction over imports: every module is initialised by
its first successful import only, and every importer receives that one instance.
"""
import os, re, time
import z3
import sym, models, strmodels, stridx, gcmodels, utf8models as U, hashmodels as H, targets
import opcheck as Q
from sym import Sc, Adt, Ref, Opaque, Inconclusive
from opkernels import CRATE_PREFIXES, prim
from models import ok, err

PATH = "m.mmm#__module__"
OTHERS = ["o1.mmm#__module__", "o2.mmm#__module__"]


def m_std_jump(ex, st, callee, args):
    """process_standard_jump_request for `<file>#__module__`: `add_file` loads the file and registers ITS export map under the
    module's path in the module cache (if the path is not registered yet), then the module's top-level code runs and - if it
    ends normally - `ret_mod` returns that same export map"""
    st.effects.append(("run-module-code",))
    k = ex.fresh("u8", "init_result").e
    fresh = gcmodels.new_gc(st, gcmodels.gccell(Adt("VariableMapping", None, [H.hashmap([])])))
    st.cells[("fresh-instance",)] = fresh
    prog = st.cells[("prog",)]
    cache = prog.fields[2].fields[0]
    if PATH not in [kk for kk, _ in H.entries(cache)]:
        new = H.hashmap(H.entries(cache) + [(PATH, Adt("RefCell", None, [fresh]))])
        st.cells[("prog",)] = Adt("Program", None, [prog.fields[0], prog.fields[1], Adt("RefCell", None, [new])])
    return [(k == 0, ok(Adt("ReturnValue", "Value", [Adt("Primitive", "Module", [fresh])]))),
            (k == 1, ok(Adt("ReturnValue", "NoValue", []))),
            (k == 2, ok(Adt("ReturnValue", "Value", [prim("Int", ex.fresh("i32", "not_a_module"))]))),
            (z3.UGE(k, 3), err(Opaque("anyhow", "module initialisation failed")))]


class ModKernels:
    def __init__(self, mf, overflow_checks, repo, seed=0):
        self.mf = mf
        targets.register_primitive_enum(repo)
        targets.register_enum_from_source(os.path.join(repo, "bytecode/src/function.rs"), "ReturnValue")
        targets.register_enum_from_source(os.path.join(repo, "bytecode/src/instruction.rs"), "JumpRequestDestination")
        m = H.install(U.install(stridx.install(strmodels.install(models.base_models()))))
        m.table = [(re.compile(r"(^|::)process_standard_jump_request$"), m_std_jump)] + m.table
        m.cache.clear()
        self.ex = gcmodels.install_drop_hooks(sym.Executor(mf, overflow_checks, m, targets.generic_resolver(mf, CRATE_PREFIXES + ["Program", "interpreter::", "GcVector"]), seed=seed))
        self.pjr = targets.find_one(mf, r"interpreter\.rs.*>::process_jump_request$")
        self.entry = targets.find_one(mf, r"^(implementations::)?module_entry$")

    def encoded_functions(self):
        return {"Program::process_jump_request (Module arm)": {"mir_item": self.pjr, "mir_lines": self.mf.func(self.pjr).nlines},
                "instruction module_entry": {"mir_item": self.entry, "mir_lines": self.mf.func(self.entry).nlines}}

    def run_import(self, cached, n_others):
        cells = {}
        ents = []
        for i in range(n_others):
            cells[("gc", "other%d" % i)] = gcmodels.gccell(Adt("VariableMapping", None, [H.hashmap([])]))
            ents.append((OTHERS[i], Adt("RefCell", None, [Adt("Gc", None, [Ref(("gc", "other%d" % i))])])))
        if cached:
            cells[("gc", "cached")] = gcmodels.gccell(Adt("VariableMapping", None, [H.hashmap([])]))
            ents.insert(min(1, len(ents)), (PATH, Adt("RefCell", None, [Adt("Gc", None, [Ref(("gc", "cached"))])])))
        cells[("prog",)] = Adt("Program", None, [Opaque("Weak", "entry"), Opaque("files", None), Adt("RefCell", None, [H.hashmap(ents)])])
        cells[("req",)] = Adt("JumpRequest", None, [Adt("JumpRequestDestination", "Module", [strmodels.sstr([Sc("char", z3.BitVecVal(ord(c), 32)) for c in PATH])]),
                                                     Adt("Option", "None", []), Opaque("call-stack", None), Adt("Vec", None, [])])
        return self.ex.run(self.pjr, [Ref(("prog",)), Ref(("req",))], cells=cells)

    def run_entry(self, n):
        vals = [z3.BitVec("a%d" % i, 32) for i in range(n)]
        cells = {("ctx",): Adt("Ctx", None, [Adt("Vec", None, [prim("Int", Sc("i32", v)) for v in vals])] + [Opaque("ctx-field", i) for i in range(1, 6)]),
                 ("iargs",): Adt("[]", None, [Opaque("strlit", '"%s"' % PATH)])}
        return vals, self.ex.run(self.entry, [Ref(("ctx",)), Ref(("iargs",))], cells=cells)


def _cache(o):
    return {k: v.fields[0].fields[0].cell for k, v in H.entries(o.cells[("prog",)].fields[2].fields[0])}


def _solve(cond, qs, label, timeout_ms, seed):
    qs.obligations += 1
    t = time.time()
    c = z3.simplify(cond)
    if z3.is_false(c):
        qs.discharged += 1
        return "unsat"
    r, _ = Q.solve(c, timeout_ms, seed)
    qs.solver_s += time.time() - t
    if r == z3.unsat:
        qs.discharged += 1
        if len(qs.samples) < 10:
            qs.samples.append({"obligation": label, "result": "unsat"})
        return "unsat"
    if r == z3.sat:
        qs.violated += 1
        return "sat"
    qs.undecided.append(label)
    return "unknown"


def check_import(mk, cached, n_others, profile, qs, timeout_ms, seed):
    bad = []
    outs = mk.run_import(cached, n_others)
    before = {OTHERS[i]: ("gc", "other%d" % i) for i in range(n_others)}
    if cached:
        before[PATH] = ("gc", "cached")
    arm = "%s,others=%d" % ("cached" if cached else "not-cached", n_others)
    seen_ok = False
    for pi, o in enumerate(outs):
        pcz = z3.And(*o.pc) if o.pc else z3.BoolVal(True)
        lab = "import[%s]/%s:path%d" % (arm, profile, pi)
        runs = len([e for e in o.effects if e[0] == "run-module-code"])
        problem = None
        if o.kind == "panic":
            problem = ("panic", "Rust panic `%s`" % o.value.msg)
        else:
            cache = _cache(o)
            if cached:
                if runs != 0:
                    problem = ("initialised-again", "the module's code is run although the module is cached")
                elif o.value.variant != "Ok" or o.value.fields[0].variant != "Value" or o.value.fields[0].fields[0].variant != "Module" \
                        or o.value.fields[0].fields[0].fields[0].fields[0].cell != ("gc", "cached"):
                    problem = ("not-the-cached-instance", "a cache hit does not return the cached module instance")
                elif cache != before:
                    problem = ("cache-changed", "a cache hit changes the cache")
                else:
                    seen_ok = True
            else:
                if runs != 1:
                    problem = ("not-initialised-once", "the module's code is run %d times on a cache miss" % runs)
                elif o.value.variant == "Ok":
                    rv = o.value.fields[0]
                    fresh = o.cells.get(("fresh-instance",))
                    if not (rv.variant == "Value" and rv.fields[0].variant == "Module"):
                        problem = ("non-module-accepted", "an import succeeds although the module's code yielded no module")
                    elif fresh is None or rv.fields[0].fields[0].fields[0].cell != fresh.fields[0].cell:
                        problem = ("not-the-initialised-instance", "the import does not return the instance the initialisation produced")
                    else:
                        want = dict(before)
                        want[PATH] = fresh.fields[0].cell
                        if cache != want:
                            problem = ("not-cached", "the initialised instance is not stored under the module's path (or other entries changed)")
                        else:
                            seen_ok = True
                else:
                    fresh = o.cells.get(("fresh-instance",))
                    with_reg = dict(before)
                    if fresh is not None:
                        with_reg[PATH] = fresh.fields[0].cell
                    if cache != before and cache != with_reg:
                        problem = ("cache-changed", "a failed import changes the cache beyond the loader's registration of the file")
                    else:
                        # failing is legitimate only if the module's code failed or yielded no module
                        from z3 import z3util
                        ks = [x for x in z3util.get_vars(pcz) if "init_result" in str(x)]
                        if ks and _solve(z3.And(pcz, ks[0] == 0), qs, lab + ":fails-only-if-init-failed", timeout_ms, seed) == "sat":
                            bad.append(("spurious-failure", "the import fails although the module's code yielded a module", arm))
                        continue
        if problem is None:
            qs.obligations += 1
            qs.discharged += 1
            continue
        if _solve(pcz, qs, lab + ":" + problem[0], timeout_ms, seed) == "sat":
            bad.append((problem[0], problem[1], arm))
    if not seen_ok and not bad:
        raise Inconclusive("vacuity: no successful import path for %s" % arm)
    return bad


def check_entry(mk, n, profile, qs, timeout_ms, seed):
    bad = []
    vals, outs = mk.run_entry(n)
    for pi, o in enumerate(outs):
        pcz = z3.And(*o.pc) if o.pc else z3.BoolVal(True)
        lab = "module_entry[args=%d]/%s:path%d" % (n, profile, pi)
        problem = None
        if o.kind == "panic":
            problem = ("panic", "Rust panic `%s`" % o.value.msg)
        elif o.value.variant != "Ok":
            problem = ("fails", "module_entry fails")
        else:
            sig = [e for e in o.effects if e[0] == "signal"]
            if len(sig) != 1:
                problem = ("no-single-request", "%d requests signalled" % len(sig))
            else:
                req = sig[0][1][0]
                while isinstance(req, Adt) and len(req.fields) == 1 and isinstance(req.fields[0], Adt):
                    req = req.fields[0]
                dest = req.fields[0]
                p = dest.fields[0] if isinstance(dest, Adt) and dest.fields else None
                text = p.data.strip('"') if isinstance(p, Opaque) and p.tag == "strlit" else None
                if not (isinstance(dest, Adt) and "Module" in (dest.variant, dest.ty) and text == PATH):
                    problem = ("wrong-destination", "the request is not a Module request for the named path: %r" % (dest,))
                elif len(o.cells[("ctx",)].fields[0].fields) != 0:
                    problem = ("stack-not-cleared", "the operand stack is not cleared")
        if problem is None:
            qs.obligations += 1
            qs.discharged += 1
            continue
        if _solve(pcz, qs, lab + ":" + problem[0], timeout_ms, seed) == "sat":
            bad.append((problem[0], problem[1], "module_entry,args=%d" % n))
    return bad
