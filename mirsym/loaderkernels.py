"""C04 (file structure kernel): a whole bytecode file is loaded into the same function table that in-memory packaging builds.

Real code executed from its MIR:
  writer   compiler::ast::CompiledItem::repr(Function{id, content}, false)  (with the crate's Display for CompiledFunctionId and the
           recursive repr of every instruction) - one call per function, concatenated, as perform_file_io_out writes them;
  loader   bytecode::file::MScriptFile::get_functions - the record loop, its `in_function` state machine, split_string,
           Instruction::new, Function::new, the HashMap of functions;
  memory   bytecode::file::MScriptFileBuilder::add_function -> Functions::add_function, once per function in the same order
           (what seal_compiled_items does for `run`).
Environment (contracts, listed in the evidence): File::open succeeds and yields the bytes the writer produced; BufReader::read_until
(0) returns the bytes up to and including the next NUL, 0 at the end; logging is arbitrary; String::from_utf8 / from_utf8_lossy are
the identity on ASCII (the bytes of this kernel are ASCII: the character-level codec for all of Unicode is the per-instruction
kernel of this check).
Function labels are CONCRETE (the HashMap model needs concrete keys) and enumerated with repetition; opcodes and argument characters
are symbolic.  Obligation: both tables have the same labels, and under every label the same instruction sequence (opcode and
arguments) - for every value of the symbolic opcodes / characters.
"""
import os, re, time
import z3
import sym, models, strmodels, stridx, hashmodels as H, targets, gcmodels
from sym import Sc, Adt, Ref, Opaque, Inconclusive, UNIT, bv, boolv, Invoke
from models import ok, err, some, NONE
from strmodels import sstr, is_sstr, ch


def _val(ex, st, v, depth=6):
    n = 0
    while isinstance(v, Ref) and n < depth:
        v = ex.read(st, v.cell, v.path)
        n += 1
    return v


def _ref_to(ex, st, ref, ty):
    """follow references until the referenced value is an Adt of type ty; returns (ref, value)"""
    n = 0
    while n < 8:
        v = ex.read(st, ref.cell, ref.path)
        if isinstance(v, Ref):
            ref = v
            n += 1
            continue
        break
    if not (isinstance(v, Adt) and v.ty == ty):
        raise Inconclusive("expected %s, got %r" % (ty, v))
    return ref, v


# ---------------------------------------------------------------- environment: the file
def m_file_open(ex, st, callee, args):
    st.effects.append(("open",))
    return [(None, ok(Opaque("File", "the written file")))]


def m_bufreader_new(ex, st, callee, args):
    return [(None, Adt("BufReader", None, [bv("usize", 0)]))]


def m_read_until(ex, st, callee, args):
    """<BufReader<File> as BufRead>::read_until(&mut reader, 0, &mut buf): appends the next record (up to and including the
    delimiter, or up to the end of the file) to buf, returns Ok(number of bytes appended); Ok(0) at the end of the file"""
    d = models.scalar(ex, st, args[1])
    if not (z3.is_bv_value(z3.simplify(d.e)) and z3.simplify(d.e).as_long() == 0):
        raise Inconclusive("read_until with a delimiter other than NUL")
    rref, rd = _ref_to(ex, st, args[0], "BufReader")
    bref, buf = _ref_to(ex, st, args[2], "Vec")
    recs = st.cells[("fs", "records")].fields
    i = z3.simplify(rd.fields[0].e).as_long()
    st.effects.append(("read_until", i))
    if i >= len(recs):
        return [(None, ok(bv("usize", 0)))]
    ex.write(st, rref.cell, rref.path, Adt("BufReader", None, [bv("usize", i + 1)]))
    rec = list(recs[i].fields)
    ex.write(st, bref.cell, bref.path, Adt("Vec", None, list(buf.fields) + rec))
    return [(None, ok(bv("usize", len(rec))))]


def m_stream_position(ex, st, callee, args):
    return [(None, ok(Sc("u64", z3.BitVec("stream_pos", 64))))]


def _bytes_of(ex, st, v):
    v = _val(ex, st, v)
    if isinstance(v, Adt) and v.ty in ("Vec", "[]"):
        return list(v.fields)
    raise Inconclusive("expected bytes, got %r" % (v,))


def m_to_vec(ex, st, callee, args):
    return [(None, Adt("Vec", None, _bytes_of(ex, st, args[0])))]


def _ascii_text(bs):
    conds, cs = [], []
    for b in bs:
        if not (isinstance(b, Sc) and b.ty == "u8"):
            raise Inconclusive("byte %r" % (b,))
        e = z3.simplify(b.e)
        if z3.is_bv_value(e):
            if e.as_long() >= 0x80:
                raise Inconclusive("non-ASCII byte in the structure kernel")
        else:
            conds.append(z3.ULT(e, 0x80))
        cs.append(Sc("char", z3.simplify(z3.ZeroExt(24, e))))
    return (z3.And(*conds) if conds else None), sstr(cs)


def m_from_utf8(ex, st, callee, args):
    """String::from_utf8(Vec<u8>): on ASCII bytes Ok(the same characters); the non-ASCII case is outside this kernel"""
    cond, s_ = _ascii_text(_bytes_of(ex, st, args[0]))
    if cond is None:
        return [(None, ok(s_))]
    return [(cond, ok(s_)), (z3.Not(cond), Opaque("outside-kernel", "non-ASCII bytes"))]


def m_from_utf8_lossy(ex, st, callee, args):
    cond, s_ = _ascii_text(_bytes_of(ex, st, args[0]))
    v = Adt("Cow", "Borrowed", [s_])
    if cond is None:
        return [(None, v)]
    return [(cond, v), (z3.Not(cond), Opaque("outside-kernel", "non-ASCII bytes"))]


# ---------------------------------------------------------------- Rc<MScriptFile>
def m_rc_deref(ex, st, callee, args):
    v = _val(ex, st, args[0])
    if isinstance(v, Adt) and v.ty == "Rc":
        return [(None, v.fields[0])]
    raise Inconclusive("Rc deref on %r" % (v,))


def m_rc_downgrade(ex, st, callee, args):
    return [(None, Opaque("Weak", "this file"))]


def m_rc_clone(ex, st, callee, args):
    return [(None, _val(ex, st, args[0], 1))]


def m_log_enabled_once(ex, st, callee, args):
    """the logging configuration does not change while one file is loaded: one arbitrary boolean"""
    return [(None, Sc("bool", z3.Bool("log_enabled")))]


def m_option_as_mut(ex, st, callee, args):
    ref = args[0]
    n = 0
    while n < 6:
        v = ex.read(st, ref.cell, ref.path)
        if isinstance(v, Ref):
            ref = v
            n += 1
            continue
        break
    if not (isinstance(v, Adt) and v.ty == "Option"):
        raise Inconclusive("as_mut on %r" % (v,))
    if v.variant == "None":
        return [(None, NONE)]
    return [(None, some(Ref(ref.cell, ref.path + (0,))))]


# ---------------------------------------------------------------- HashMap entry API (concrete keys)
def m_entry(ex, st, callee, args):
    ref, m = H._map_at(ex, st, args[0])
    k = H._key_text(ex, st, args[1])
    return [(None, Adt("Entry", None, [ref, Opaque("key", k)]))]


def m_or_insert(ex, st, callee, args):
    e = _val(ex, st, args[0])
    if not (isinstance(e, Adt) and e.ty == "Entry"):
        raise Inconclusive("or_insert on %r" % (e,))
    ref, k = e.fields[0], e.fields[1].data
    m = ex.read(st, ref.cell, ref.path)
    ents = H.entries(m)
    for i, (kk, _) in enumerate(ents):
        if kk == k:
            return [(None, Ref(ref.cell, ref.path + (i, 1)))]
    ex.write(st, ref.cell, ref.path, H.hashmap(ents + [(k, args[1])]))
    return [(None, Ref(ref.cell, ref.path + (len(ents), 1)))]


def m_or_insert_with(ex, st, callee, args):
    e = _val(ex, st, args[0])
    if not (isinstance(e, Adt) and e.ty == "Entry"):
        raise Inconclusive("or_insert_with on %r" % (e,))
    ref, k = e.fields[0], e.fields[1].data
    m = ex.read(st, ref.cell, ref.path)
    ents = H.entries(m)
    for i, (kk, _) in enumerate(ents):
        if kk == k:
            return [(None, Ref(ref.cell, ref.path + (i, 1)))]
    fn = ex.closure_fn(callee)
    if fn is None:
        raise Inconclusive("no MIR item for the closure in " + callee)

    def then(st2, val):
        m2 = ex.read(st2, ref.cell, ref.path)
        e2 = H.entries(m2)
        ex.write(st2, ref.cell, ref.path, H.hashmap(e2 + [(k, val)]))
        return Ref(ref.cell, ref.path + (len(e2), 1))
    return [(None, Invoke(fn, [args[1]], then))]


# ---------------------------------------------------------------- Display through a Formatter (writer side)
def m_to_string_via_display(ex, st, callee, args):
    """<T as ToString>::to_string for a crate type: run the crate's `impl Display for T` against a formatter that collects text"""
    m_ = re.match(r"^<(.*) as ToString>::to_string$", callee)
    ty = m_.group(1).split("::")[-1]
    cands = _display_impls(ex.mf, ty)
    if len(cands) != 1:
        raise Inconclusive("no unique Display impl for %s (%d)" % (ty, len(cands)))
    key = ("fmtbuf", len([k for k in st.cells if k and k[0] == "fmtbuf"]))
    st.cells[key] = Adt("Formatter", None, [sstr([])])

    def then(st2, val):
        return ex.read(st2, key, ()).fields[0]
    return [(None, Invoke(cands[0], [args[0], Ref(key)], then))]


_DISPLAY_CACHE = {}


def _display_impls(mf, ty):
    """`impl Display for ty`: the fmt item whose source span is a Display impl (the MIR names impls by span only, so the source
    line of the span is read)"""
    k = (id(mf), ty)
    if k in _DISPLAY_CACHE:
        return _DISPLAY_CACHE[k]
    out = []
    for n in mf.order:
        if not n.endswith(">::fmt") or "promoted" in n:
            continue
        f = mf.func(n)
        if f.nargs != 2 or f.locals[1].strip().lstrip("&").split("::")[-1] != ty:
            continue
        m_ = re.search(r"<impl at ([^:]+):(\d+):", n)
        if not m_:
            continue
        src = os.path.join(mf.repo_root, m_.group(1)) if getattr(mf, "repo_root", None) else None
        line = ""
        if src and os.path.exists(src):
            with open(src) as fh:
                lines = fh.read().split("\n")
            line = lines[int(m_.group(2)) - 1]
        if re.search(r"\bDisplay\b", line):
            out.append(n)
    _DISPLAY_CACHE[k] = out
    return out


def m_write_fmt(ex, st, callee, args):
    """Formatter::write_fmt(f, Arguments): appends the formatted text to the collecting formatter"""
    ref, f = _ref_to(ex, st, args[0], "Formatter")
    res = strmodels.m_format(ex, st, "format", [args[1]])
    out = []
    for cond, v in res:
        if not is_sstr(v):
            raise Inconclusive("write_fmt: formatting produced %r" % (v,))
        out.append((cond, ("write+", ref, Adt("Formatter", None, [sstr(list(f.fields[0].fields) + list(v.fields))]), ok(UNIT))))
    if len(out) == 1 and out[0][0] is None:
        ex.write(st, ref.cell, ref.path, out[0][1][2])
        return [(None, ok(UNIT))]
    return out

# ---------------------------------------------------------------- environment: the output file (writer side)
# std::fs::OpenOptions / File contract (std documentation):
#   open: create_new -> Err if the file exists, else a new empty file; !exists && !create -> Err(NotFound);
#         truncate (with write access) -> length 0; otherwise the old content stays; the cursor starts at 0
#   write_all: needs write or append access; append writes at the end, otherwise at the cursor; bytes beyond the written
#         region keep their old values
# The old file is an environment input: absent, or present and LONGER than anything written (its surviving tail is two more
# bytes: one arbitrary non-NUL byte and a NUL) - shorter old files are covered by "absent" once everything is overwritten.
OO_FLAGS = ("read", "write", "append", "truncate", "create", "create_new")


def m_file_options(ex, st, callee, args):
    key = ("oo", len([k for k in st.cells if k and k[0] == "oo"]))
    st.cells[key] = Adt("OpenOptions", None, [boolv(False) for _ in OO_FLAGS])
    return [(None, Ref(key)) if callee.endswith("options") else (None, Adt("OpenOptions", None, [boolv(False) for _ in OO_FLAGS]))]


def m_oo_flag(ex, st, callee, args):
    name = callee.rsplit("::", 1)[1]
    ref, oo = _ref_to(ex, st, args[0], "OpenOptions")
    b = models.scalar(ex, st, args[1])
    fs = list(oo.fields)
    fs[OO_FLAGS.index(name)] = b
    ex.write(st, ref.cell, ref.path, Adt("OpenOptions", None, fs))
    return [(None, ref)]


def _flag(v):
    e = z3.simplify(v.e)
    if z3.is_true(e):
        return True
    if z3.is_false(e):
        return False
    raise Inconclusive("symbolic OpenOptions flag")


def m_oo_open(ex, st, callee, args):
    _, oo = _ref_to(ex, st, args[0], "OpenOptions")
    fl = {n: _flag(v) for n, v in zip(OO_FLAGS, oo.fields)}
    exists = z3.Bool("old_file_exists")
    st.effects.append(("open-for-writing", dict(fl)))
    can_write = fl["write"] or fl["append"]

    def handle(old_kept):
        key = ("outfile",)
        return ("write+", Ref(("outfile-slot",)), Adt("FileState", None, [Opaque("flags", tuple(sorted(fl.items()))), Adt("[]", None, []), bv("usize", 0), boolv(old_kept)]),
                ok(Adt("File", None, [Ref(("outfile-slot",))])))
    st.cells.setdefault(("outfile-slot",), Adt("FileState", None, [Opaque("flags", ()), Adt("[]", None, []), bv("usize", 0), boolv(False)]))
    out = []
    if fl["create_new"]:
        out.append((exists, err(Opaque("io::Error", "AlreadyExists"))))
        out.append((z3.Not(exists), handle(False)))
        return out
    if not (fl["create"] and can_write):
        out.append((z3.Not(exists), err(Opaque("io::Error", "NotFound"))))
    else:
        out.append((z3.Not(exists), handle(False)))
    out.append((exists, handle(not (fl["truncate"] and can_write))))
    return out


def m_write_all(ex, st, callee, args):
    f = _val(ex, st, args[0])
    if not (isinstance(f, Adt) and f.ty == "File"):
        raise Inconclusive("write_all on %r" % (f,))
    ref = f.fields[0]
    stt = ex.read(st, ref.cell, ref.path)
    fl = dict(stt.fields[0].data)
    data = _val(ex, st, args[1])
    if is_sstr(data):
        bs = []
        for c in data.fields:
            bs.append(Sc("u8", z3.simplify(z3.Extract(7, 0, c.e))))
    elif isinstance(data, Adt) and data.ty in ("Vec", "[]"):
        bs = list(data.fields)
    else:
        raise Inconclusive("write_all of %r" % (data,))
    if not (fl.get("write") or fl.get("append")):
        return [(None, err(Opaque("io::Error", "not opened for writing")))]
    content = list(stt.fields[1].fields)
    pos = z3.simplify(stt.fields[2].e).as_long()
    if fl.get("append"):
        pos = len(content)          # (an old tail, if kept, lies before: handled by old_kept at the end)
    new = content[:pos] + bs + content[pos + len(bs):]
    ex.write(st, ref.cell, ref.path, Adt("FileState", None, [stt.fields[0], Adt("[]", None, new), bv("usize", pos + len(bs)), stt.fields[3]]))
    st.effects.append(("write_all", len(bs)))
    return [(None, ok(UNIT))]


def m_flush(ex, st, callee, args):
    return [(None, ok(UNIT))]


def m_logger(ex, st, callee, args):
    """compiler::logger(): the global logger; quiet (no progress bars), as installed by `compile(.., verbose = false, ..)`"""
    st.cells.setdefault(("logger",), Adt("VerboseLogger", None, [NONE]))
    return [(None, Ref(("logger",)))]


def m_call_concrete_closure(ex, st, callee, args):
    """<{closure@..} as FnMut<(A,)>>::call_mut(&mut closure, (a,)): run the closure's own MIR item"""
    fn = ex.closure_fn(callee)
    if fn is None:
        raise Inconclusive("no MIR item for the closure in " + callee)
    tup = _val(ex, st, args[1]) if isinstance(args[1], Ref) else args[1]
    params = list(tup.fields) if isinstance(tup, Adt) and tup.ty == "()" else [tup]
    return [(None, Invoke(fn, [args[0]] + params, lambda st2, val: val))]


def m_trait_method_unique(ex, st, callee, args):
    """<T as Trait<..>>::method::<..> of a crate trait with a single generic impl: run that impl's MIR item"""
    meth = re.sub(r"::<.*$", "", callee.rsplit(">::", 1)[1])
    cands = [n for n in ex.mf.order if re.search(r">::%s$" % re.escape(meth), n) and "promoted" not in n and "{closure" not in n
             and ex.mf.func(n).nargs == len(args)]
    if len(cands) != 1:
        raise Inconclusive("no unique impl for %s (%d)" % (callee, len(cands)))
    return [(None, Invoke(cands[0], list(args), lambda st2, val: val))]


def m_as_bytes(ex, st, callee, args):
    return [(None, args[0])]


def m_bytes_len(ex, st, callee, args):
    v = _val(ex, st, args[0])
    if is_sstr(v) or (isinstance(v, Adt) and v.ty in ("Vec", "[]")):
        return [(None, bv("usize", len(v.fields)))]
    raise Inconclusive("len of %r" % (v,))


def install(m):
    pre = [
        (r"^(std::fs::)?File::options$|^(std::fs::)?OpenOptions::new$", m_file_options),
        (r"^(std::fs::)?OpenOptions::(read|write|append|truncate|create|create_new)$", m_oo_flag),
        (r"^(std::fs::)?OpenOptions::open::<", m_oo_open),
        (r"^<(std::fs::)?File as (std::io::)?Write>::write_all$", m_write_all),
        (r"^<(std::fs::)?File as (std::io::)?Write>::flush$", m_flush),
        (r"^logger$", m_logger),
        (r"^<Option<.*> as Maybe<.*>>::maybe::<", m_trait_method_unique),
        (r"^<\{closure@[^}]*\} as Fn(Mut|Once)?<.*>>::call(_mut|_once)?$", m_call_concrete_closure),
        (r"^<impl Fn(Once|Mut)?\(.*\) as Fn(Once|Mut)?<.*>>::call(_once|_mut)?$", gcmodels.m_call_closure_value),
        (r"^String::as_bytes$|^(core::)?str::<impl str>::as_bytes$", m_as_bytes),
        (r"^(core::)?slice::<impl \[u8\]>::len$", m_bytes_len),
        (r"^Path::display$", lambda ex, st, c, a: [(None, Opaque("path-display", None))]),
        (r"^File::open::<", m_file_open),
        (r"^BufReader::<File>::new$", m_bufreader_new),
        (r"^<BufReader<File> as BufRead>::read_until$", m_read_until),
        (r"^<BufReader<File> as Seek>::stream_position$", m_stream_position),
        (r"^(core::|alloc::)?slice::<impl \[u8\]>::to_vec$", m_to_vec),
        (r"^String::from_utf8$", m_from_utf8),
        (r"^String::from_utf8_lossy$", m_from_utf8_lossy),
        (r"^<Rc<.*> as Deref>::deref$", m_rc_deref),
        (r"^Rc::<.*>::downgrade$", m_rc_downgrade),
        (r"^<Rc<.*> as Clone>::clone$", m_rc_clone),
        (r"^<Level as PartialOrd<LevelFilter>>::le$", m_log_enabled_once),
        (r"^Option::<.*>::as_mut$", m_option_as_mut),
        (r"^(std::collections::)?HashMap::<String, .*>::entry$", m_entry),
        (r"^(std::collections::hash_map::)?Entry::<'_, String, .*>::or_insert$", m_or_insert),
        (r"^(std::collections::hash_map::)?Entry::<'_, String, .*>::or_insert_with::<", m_or_insert_with),
        (r"^<(ast::)?CompiledFunctionId as ToString>::to_string$", m_to_string_via_display),
        (r"^(std::fmt::|core::fmt::)?Formatter::<'_>::write_fmt$", m_write_fmt),
    ]
    m.table = [(re.compile(p), h) for p, h in pre] + m.table
    m.cache.clear()
    return m


# ---------------------------------------------------------------- the kernel
def text(s_):
    return sstr([ch(ord(c)) for c in s_])


def box_of(cells, key, value):
    cells[key] = value
    return Adt("Box", None, [Adt("Unique", None, [Ref(key)]), Adt("Global", None, [])])


class FileShape:
    """names: tuple of labels (repetition allowed); instrs: per function a tuple of argument-length tuples"""

    def __init__(self, names, instrs):
        self.names, self.instrs = tuple(names), tuple(tuple(tuple(a) for a in f) for f in instrs)

    @property
    def arm(self):
        return "labels=%s;instr=%s" % (",".join(self.names), "|".join("+".join("(" + ",".join(map(str, a)) + ")" for a in f) or "-" for f in self.instrs))


class LoaderKernels:
    def __init__(self, mf_compiler, mf_bytecode, repo, seed=0):
        self.mfc, self.mfb = mf_compiler, mf_bytecode
        mf_compiler.repo_root = repo
        targets.register_enum_from_source(os.path.join(repo, "compiler/src/ast.rs"), "CompiledItem")
        targets.register_enum_from_source(os.path.join(repo, "compiler/src/ast.rs"), "CompiledFunctionId")
        import codeckernels as C
        mw = install(strmodels.install(models.base_models()))
        mw.add(r"^raw_byte_instruction_to_string_representation$", C.m_opname)
        self.exw = sym.Executor(mf_compiler, True, mw, targets.generic_resolver(mf_compiler, ["ast::", "CompiledItem", "CompiledFunctionId", "fix_arg_if_needed", "perform_file_io_out", "VerboseLogger", "Maybe"]), seed=seed)
        self.w_fn = targets.find_one(mf_compiler, r"ast\.rs.*>::repr$", lambda f: f.nargs == 2 and "CompiledItem" in f.locals[1])
        self.io_fn = targets.find_one(mf_compiler, r"^perform_file_io_out$")
        mb = install(H.install(stridx.install(strmodels.install(models.base_models()))))
        self.exb = sym.Executor(mf_bytecode, True, mb, targets.generic_resolver(mf_bytecode, ["file::", "function::", "instruction::", "variables::", "MScriptFile", "Functions", "Function", "Instruction"]), seed=seed)
        self.load_fn = targets.find_one(mf_bytecode, r"file\.rs.*>::get_functions$")
        self.add_fn = targets.find_one(mf_bytecode, r"file\.rs.*>::add_function$")
        self.inner_add_fn = targets.find_one(mf_bytecode, r"function\.rs.*>::add_function$")
        self.ins_new = targets.find_one(mf_bytecode, r"instruction\.rs.*>::new$", lambda f: f.nargs == 2 and f.locals[1].strip() == "u8")

    def encoded_functions(self):
        d = {}
        for label, mf, n in (("writer perform_file_io_out (with its per-item closure)", self.mfc, self.io_fn),
                             ("writer CompiledItem::repr (Function and Instruction arms)", self.mfc, self.w_fn),
                             ("loader MScriptFile::get_functions", self.mfb, self.load_fn),
                             ("memory MScriptFileBuilder::add_function", self.mfb, self.add_fn),
                             ("memory Functions::add_function", self.mfb, self.inner_add_fn),
                             ("Instruction::new", self.mfb, self.ins_new)):
            d[label] = {"mir_item": n, "mir_lines": mf.func(n).nlines}
        return d

    # -- inputs
    def inputs(self, shape):
        ops, args, pc = [], [], []
        for fi, f in enumerate(shape.instrs):
            fo, fa = [], []
            for ii, alens in enumerate(f):
                o = z3.BitVec("op_%d_%d" % (fi, ii), 8)
                pc += [z3.UGE(o, 1), z3.ULE(o, 62)]
                fo.append(Sc("u8", o))
                ia = []
                for ai, n in enumerate(alens):
                    cs = [z3.BitVec("c_%d_%d_%d_%d" % (fi, ii, ai, j), 32) for j in range(n)]
                    pc += [z3.And(c != 0, z3.ULT(c, 0x80)) for c in cs]
                    ia.append(sstr([Sc("char", c) for c in cs]))
                fa.append(ia)
            ops.append(fo)
            args.append(fa)
        return ops, args, pc

    # -- writer: one repr call per function
    def write_function(self, name, ops, args, pc, tag):
        cells = {}
        items = []
        for ii, (o, ia) in enumerate(zip(ops, args)):
            items.append(Adt("CompiledItem", "Instruction", [o, box_of(cells, ("heap", "w", tag, ii), Adt("[]", None, ia))]))
        item = Adt("CompiledItem", "Function", [Adt("CompiledFunctionId", "Custom", [text(name)]),
                                                 some(Adt("Vec", None, items)), Opaque("Arc<PathBuf>", None)])
        cells[("witem", tag)] = item
        outs = self.exw.run(self.w_fn, [Ref(("witem", tag)), boolv(False)], cells=cells, pc=pc)
        res = []
        for o in outs:
            if o.kind == "panic":
                res.append((o.pc, "panic", o.value.msg))
            elif o.value.variant == "Err":
                res.append((o.pc, "err", None))
            else:
                v = o.value.fields[0]
                if not is_sstr(v):
                    raise Inconclusive("writer returned %r" % (v,))
                res.append((o.pc, "ok", v))
        return res

    # -- writer: the real perform_file_io_out over all functions, against the output-file environment
    def write_file(self, shape, ops, args, pc):
        """-> [(pc, kind, final file bytes (list of u8 Sc) | None, info)]; the final bytes include the surviving tail of an
        older, longer file when the code did not truncate it"""
        cells = {}
        fns = []
        for fi, name in enumerate(shape.names):
            items = []
            for ii, (o, ia) in enumerate(zip(ops[fi], args[fi])):
                items.append(Adt("CompiledItem", "Instruction", [o, box_of(cells, ("heap", "w", fi, ii), Adt("[]", None, ia))]))
            fns.append(Adt("CompiledItem", "Function", [Adt("CompiledFunctionId", "Custom", [text(name)]),
                                                         some(Adt("Vec", None, items)), Opaque("Arc<PathBuf>", None)]))
        cells[("wvec",)] = Adt("Vec", None, fns)
        outs = self.exw.run(self.io_fn, [Opaque("output-path", None), Ref(("wvec",)), boolv(True)], cells=cells, pc=pc)
        res = []
        tail = [Sc("u8", z3.BitVec("old_tail_byte", 8)), Sc("u8", z3.BitVecVal(0, 8))]
        for o in outs:
            if o.kind == "panic":
                res.append((o.pc, "panic", None, o.value.msg))
                continue
            if o.value.variant == "Err":
                res.append((o.pc, "err", None, None))
                continue
            stt = o.cells.get(("outfile-slot",))
            if stt is None or not [e for e in o.effects if e[0] == "open-for-writing"]:
                res.append((o.pc, "no-file", None, None))
                continue
            content = list(stt.fields[1].fields)
            old_kept = z3.is_true(z3.simplify(stt.fields[3].e))
            if old_kept:
                res.append((o.pc + [tail[0].e != 0, z3.ULT(tail[0].e, 0x80)], "ok", content + tail, "old-tail"))
            else:
                res.append((o.pc, "ok", content, None))
        return res

    @staticmethod
    def records_of_bytes(bs):
        recs, cur = [], []
        for b in bs:
            e = z3.simplify(b.e)
            cur.append(Sc("u8", e))
            if z3.is_bv_value(e) and e.as_long() == 0:
                recs.append(cur)
                cur = []
        if cur:
            recs.append(cur)
        return recs

    @staticmethod
    def records(chars):
        """split the file at NUL as read_until does; symbolic characters are constrained non-NUL/ASCII by the inputs"""
        recs, cur = [], []
        for c in chars:
            e = z3.simplify(c.e)
            cur.append(Sc("u8", z3.simplify(z3.Extract(7, 0, e))))
            if z3.is_bv_value(e) and e.as_long() == 0:
                recs.append(cur)
                cur = []
        if cur:
            recs.append(cur)
        return recs

    # -- loader
    def load(self, recs, pc):
        cells = {("file",): Adt("MScriptFile", None, [Adt("Rc", None, [text("f.mmm")]), Adt("RefCell", None, [NONE]), Opaque("exports", None)]),
                 ("selfrc",): Adt("Rc", None, [Ref(("file",))]),
                 ("fs", "records"): Adt("[]", None, [Adt("[]", None, r) for r in recs])}
        return self.exb.run(self.load_fn, [Ref(("selfrc",))], cells=cells, pc=pc)

    # -- in-memory packaging: add_function once per function, continuing from the cells of the previous call
    def build(self, shape, ops, args, pc):
        cells = {("file",): Adt("MScriptFile", None, [Adt("Rc", None, [text("f.mmm")]),
                                                       Adt("RefCell", None, [some(Adt("Functions", None, [H.hashmap([])]))]), Opaque("exports", None)]),
                 ("bldr",): Adt("MScriptFileBuilder", None, [Adt("Rc", None, [Ref(("file",))])])}
        states = [(list(pc), cells)]
        for fi, name in enumerate(shape.names):
            nxt = []
            for pcs, cs in states:
                # the instructions of this function: Instruction::new(op, args) as `impl From<CompiledItem> for Instruction` does
                variants = [(pcs, cs, [])]
                for ii, (o, ia) in enumerate(zip(ops[fi], args[fi])):
                    v2 = []
                    for p1, c1, done in variants:
                        c1 = dict(c1)
                        b = box_of(c1, ("heap", "m", fi, ii), Adt("[]", None, ia))
                        for out in self.exb.run(self.ins_new, [o, b], cells=c1, pc=p1):
                            if out.kind != "return":
                                raise Inconclusive("Instruction::new did not return")
                            v2.append((out.pc, out.cells, done + [out.value]))
                    variants = v2
                for p1, c1, ins in variants:
                    c1 = dict(c1)
                    b = box_of(c1, ("heap", "mf", fi), Adt("[]", None, ins))
                    for out in self.exb.run(self.add_fn, [Ref(("bldr",)), text(name), b], cells=c1, pc=p1):
                        if out.kind != "return":
                            nxt.append((out.pc, out.cells, out))
                        else:
                            nxt.append((out.pc, out.cells, None))
            states = []
            for p1, c1, bad in nxt:
                if bad is not None:
                    raise Inconclusive("in-memory packaging did not return: %r" % (bad.value,))
                states.append((p1, c1))
        return states


def resolve(cells, v, depth=8):
    """follow references and boxes in the final store of a path"""
    n = 0
    while n < depth:
        if isinstance(v, Ref):
            x = cells[v.cell]
            for i in v.path:
                x = x.fields[i]
            v = x
        elif isinstance(v, Adt) and v.ty == "Box":
            v = v.fields[0].fields[0]
        else:
            return v
        n += 1
    return v


def describe_function(cells, f):
    """Function{location, instructions, name} -> (name SStr, [(op Sc, [arg SStr])])"""
    f = resolve(cells, f)
    loc, instrs, name = f.fields
    out = []
    for ins in resolve(cells, instrs).fields:
        ins = resolve(cells, ins)
        av = resolve(cells, ins.fields[1])
        if isinstance(av, Opaque) and av.tag == "const" and str(av.data).strip() == "[]":
            av = Adt("[]", None, [])
        if not isinstance(av, Adt):
            raise Inconclusive("instruction arguments %r" % (av,))
        out.append((resolve(cells, ins.fields[0]), [resolve(cells, x) for x in av.fields]))
    return resolve(cells, name), out
