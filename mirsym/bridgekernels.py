"""C13 / C17: `list.map(f)` and `list.filter(f)` - the built-in plus its callback bridge (RuntimeExecutionBridgeNotifier).

`BuiltInFunction::run` returns a boxed `MapOp` / `FilterOp`; `Function::run` then drives it:

        loop { let to_call = bridge.wait_for()?;  let rv = jump_callback(&to_call)?;  if !bridge.then(rv)? { break } }
        if let Some(v) = bridge.finish()? { push v }

The three trait methods are executed from their own MIR on the real struct value; the six-line driver loop above is REPLICATED
here (stated: a change to that loop in Function::run is outside this kernel) and the callback is an environment stub that returns
an arbitrary `ReturnValue::Value(Int r_i)` (map) / `Value(Bool b_i)` (filter).  Receiver: shared Gc cell, 0..N symbolic Int elements.

Meaning: the callback is invoked exactly once per element, in order, with that element as its only argument; map yields the list
of callback results in order; filter yields the elements whose callback result is true, in order; both yield a NEW list and
leave the receiver unchanged; nothing panics - in particular not on the empty list.
"""
import os, time
import z3
import sym, models, strmodels, stridx, gcmodels, targets
import opcheck as Q
from sym import Sc, Adt, Ref, Opaque, Inconclusive
from opkernels import prim, CRATE_PREFIXES
from listkernels import vecp, RECV, _cell_contents

NMAX = {"quick": 3, "thorough": 4}
VARIANT = {"map": "VecMap", "filter": "VecFilter"}


class BridgeSummary:
    def __init__(self, method, n, elems, rets, paths, dt):
        self.method, self.n, self.elems, self.rets, self.paths, self.seconds = method, n, elems, rets, paths, dt

    @property
    def arm(self):
        return "len=%d" % self.n

    def native_spec(self):
        return "M:%s:%d" % (VARIANT[self.method], self.n)


class BridgeKernels:
    def __init__(self, mf, overflow_checks, repo, seed=0):
        self.mf = mf
        targets.register_primitive_enum(repo)
        targets.register_enum_from_source(os.path.join(repo, "bytecode/src/function.rs"), "BuiltInFunction")
        targets.register_enum_from_source(os.path.join(repo, "bytecode/src/function.rs"), "ReturnValue")
        m = stridx.install(strmodels.install(models.base_models()))
        pre = CRATE_PREFIXES + ["GcVector", "PrimitiveFunction", "MapOp", "FilterOp"]
        self.ex = gcmodels.install_drop_hooks(sym.Executor(mf, overflow_checks, m, targets.generic_resolver(mf, pre), seed=seed))
        self.fn = targets.find_one(mf, r"function\.rs.*>::run$", lambda f: f.locals[1].strip() == "&function::BuiltInFunction")
        self.tm = {}
        for op in ("MapOp", "FilterOp"):
            for meth in ("wait_for", "then", "finish"):
                self.tm[(op, meth)] = targets.find_one(mf, r"function\.rs.*>::run::<impl at .*>::%s$" % meth,
                                                       lambda f, op=op: f.locals[1].strip() == "&" + op)

    def encoded_functions(self):
        out = {"BuiltInFunction::run (map / filter arms)": {"mir_item": self.fn, "mir_lines": self.mf.func(self.fn).nlines}}
        for (op, meth), name in self.tm.items():
            out["%s::%s" % (op, meth)] = {"mir_item": name, "mir_lines": self.mf.func(name).nlines}
        return out

    def summarize(self, method, n):
        t = time.time()
        elems = [z3.BitVec("e%d" % i, 32) for i in range(n)]
        rets = [z3.BitVec("r%d" % i, 32) if method == "map" else z3.Bool("b%d" % i) for i in range(n + 1)]
        # the callback is a closure: its captured variables (an opaque mapping) must travel with every invocation
        cb = Adt("Primitive", "Function", [Adt("PrimitiveFunction", None, [Opaque("String", "callback-path"),
                                                                             Adt("Option", "Some", [Opaque("VariableMapping", "captured-variables")])])])
        cells = {RECV: gcmodels.gccell(Adt("Vec", None, [prim("Int", Sc("i32", e)) for e in elems]))}
        cells[("ctx",)] = Adt("Ctx", None, [Adt("Vec", None, [vecp(RECV), cb])] + [Opaque("ctx-field", i) for i in range(1, 6)])
        cells[("self",)] = Adt("BuiltInFunction", VARIANT[method], [])
        op = "MapOp" if method == "map" else "FilterOp"
        paths = []
        for o in self.ex.run(self.fn, [Ref(("self",)), Ref(("ctx",))], cells=cells):
            if o.kind == "panic":
                paths.append((o.pc, "panic", o.value.msg, None, [], None))
                continue
            v = o.value
            if v.variant == "Err":
                paths.append((o.pc, "err", "run", None, [], _cell_contents(o, RECV)))
                continue
            res, bridge = v.fields[0].fields
            if bridge.variant == "None":
                # the built-in answered directly (e.g. an empty receiver)
                paths.append((o.pc, "ok", None, self._vector(o, res), [], _cell_contents(o, RECV)))
                continue
            box = bridge.fields[0]
            target = box.fields[0].fields[0]
            paths += self._drive(op, method, o, target, rets, n)
        return BridgeSummary(method, n, elems, rets, paths, time.time() - t)

    def _vector(self, o, res):
        if res.variant != "Some":
            return None
        p = res.fields[0]
        if p.variant != "Vector":
            raise Inconclusive("bridge result %r" % (p,))
        ref = p.fields[0].fields[0].fields[0]
        return (ref.cell, _cell_contents(o, ref.cell))

    def _drive(self, op, method, o0, target, rets, n):
        """the driver loop of Function::run, replicated; -> paths"""
        out = []
        work = [(o0.cells, list(o0.pc), [], 0)]
        while work:
            cells, pc, calls, i = work.pop()
            if i > n + 1:
                raise Inconclusive("bridge does not terminate within %d callbacks" % (n + 1))
            for ow in self.ex.run(self.tm[(op, "wait_for")], [target], cells=dict(cells), pc=list(pc)):
                if ow.kind == "panic":
                    out.append((ow.pc, "panic", ow.value.msg, None, calls, None))
                    continue
                if ow.value.variant == "Err":
                    out.append((ow.pc, "err", "wait_for", None, calls, _cell_contents(ow, RECV)))
                    continue
                req = ow.value.fields[0]
                args_vec = req.fields[3]
                dest, cbs = req.fields[0], req.fields[1]
                dest_ok = isinstance(dest, Adt) and "Standard" in (dest.variant, dest.ty) and isinstance(dest.fields[0], Opaque) and dest.fields[0].data == "callback-path"
                cbs_ok = isinstance(cbs, Adt) and cbs.variant == "Some" and isinstance(cbs.fields[0], Opaque) and cbs.fields[0].data == "captured-variables"

                argv = []
                for a in args_vec.fields:
                    if not (isinstance(a, Adt) and a.variant == "Int"):
                        raise Inconclusive("callback argument %r" % (a,))
                    argv.append(a.fields[0].e)
                calls2 = calls + [(argv, dest_ok, cbs_ok)]
                rv = Adt("ReturnValue", "Value", [prim("Int", Sc("i32", rets[i])) if method == "map" else Adt("Primitive", "Bool", [Sc("bool", rets[i])])])
                for ot in self.ex.run(self.tm[(op, "then")], [target, rv], cells=dict(ow.cells), pc=list(ow.pc)):
                    if ot.kind == "panic":
                        out.append((ot.pc, "panic", ot.value.msg, None, calls2, None))
                        continue
                    if ot.value.variant == "Err":
                        out.append((ot.pc, "err", "then", None, calls2, _cell_contents(ot, RECV)))
                        continue
                    more = ot.value.fields[0]
                    c = z3.simplify(more.e)
                    if z3.is_true(c):
                        work.append((ot.cells, list(ot.pc), calls2, i + 1))
                        continue
                    if not z3.is_false(c):
                        raise Inconclusive("bridge continuation depends on symbolic data: %s" % c)
                    for of in self.ex.run(self.tm[(op, "finish")], [target], cells=dict(ot.cells), pc=list(ot.pc)):
                        if of.kind == "panic":
                            out.append((of.pc, "panic", of.value.msg, None, calls2, None))
                        elif of.value.variant == "Err":
                            out.append((of.pc, "err", "finish", None, calls2, _cell_contents(of, RECV)))
                        else:
                            out.append((of.pc, "ok", None, self._vector(of, of.value.fields[0]), calls2, _cell_contents(of, RECV)))
        return out


# ---------------------------------------------------------------- meaning / obligations
def _seq_eq(a, b):
    if len(a) != len(b):
        return z3.BoolVal(False)
    return z3.And(*[p == q for p, q in zip(a, b)]) if a else z3.BoolVal(True)


def expected_result(s):
    """[(condition, expected contents)]"""
    if s.method == "map":
        return [(z3.BoolVal(True), list(s.rets[:s.n]))]
    out = []
    import itertools
    for bits in itertools.product((False, True), repeat=s.n):
        cond = z3.And(*[(s.rets[i] if b else z3.Not(s.rets[i])) for i, b in enumerate(bits)]) if s.n else z3.BoolVal(True)
        out.append((cond, [s.elems[i] for i, b in enumerate(bits) if b]))
    return out


def native_args(s, ev, rv):
    args = [("Int", v & 0xFFFFFFFF) for v in ev]
    for r in rv[:s.n + 1]:
        args.append(("Int", r & 0xFFFFFFFF) if s.method == "map" else ("Bool", 1 if r else 0))
    return args


def _subs(s, ev, rv):
    out = [(a, z3.BitVecVal(v, 32)) for a, v in zip(s.elems, ev)]
    for a, v in zip(s.rets, rv):
        out.append((a, z3.BitVecVal(v, 32) if s.method == "map" else z3.BoolVal(bool(v))))
    return out


def _items(es, subs):
    return ",".join("Int:%x" % z3.simplify(z3.substitute(e, *subs)).as_long() for e in es)


def render(path, subs):
    pc, kind, msg, res, calls, post = path
    callstr = ";".join("%s@%s%s" % (_items(c[0], subs), "cb" if c[1] else "other", "+captured" if c[2] else "") for c in calls)
    if kind == "panic":
        return "PANIC"
    if kind == "err":
        return "ERR | %s | calls=%s" % (_items(post, subs), callstr)
    head = "OK none" if res is None else "OK Vector:%s:%s" % ("same" if res[0] == RECV else "fresh", _items(res[1], subs))
    return "%s | %s | calls=%s" % (head, _items(post, subs), callstr)


def eval_summary(s, ev, rv):
    subs = _subs(s, ev, rv)
    hits = []
    for p in s.paths:
        pcz = z3.And(*p[0]) if p[0] else z3.BoolVal(True)
        if z3.is_true(z3.simplify(z3.substitute(pcz, *subs))):
            hits.append(render(p, subs))
    if not hits or any(h != hits[0] for h in hits):
        raise Inconclusive("list.%s[%s]: %d paths enabled on %r %r" % (s.method, s.arm, len(hits), ev, rv))
    return hits[0]


def norm(text):
    return " ".join(text.split())


def grid(s):
    ev = [10 + i for i in range(s.n)]
    if s.method == "map":
        return [(ev, [100 + i for i in range(s.n + 1)]), (ev, [7] * (s.n + 1))]
    import itertools
    return [(ev, list(bits) + [True]) for bits in itertools.product((False, True), repeat=s.n)]


def validate(summaries, nat_eval_raw, release):
    vecs, want = [], {}
    for si, s in enumerate(summaries):
        for gi, (ev, rv) in enumerate(grid(s)):
            vid = "m%d_%d" % (si, gi)
            vecs.append((vid, s.native_spec(), native_args(s, ev, rv)))
            want[vid] = (s, ev, rv)
    res = nat_eval_raw(vecs, release)
    mism = []
    for vid, (s, ev, rv) in want.items():
        pred = norm(eval_summary(s, ev, rv))
        got = norm(res[vid])
        if pred != got:
            mism.append((s.method, s.arm, ev, rv, "engine", pred, "real", got))
    return len(vecs), mism


def check_summary(s, profile, qs, timeout_ms, seed, prop):
    out = []
    lab0 = "list.%s[%s]/%s" % (s.method, s.arm, profile)
    exp = expected_result(s)

    def ask(cond, label):
        qs.obligations += 1
        t = time.time()
        c = z3.simplify(cond)
        if z3.is_false(c):
            qs.discharged += 1
            return None
        r, m = Q.solve(c, timeout_ms, seed)
        qs.solver_s += time.time() - t
        if r == z3.unsat:
            qs.discharged += 1
            return None
        if r == z3.sat:
            qs.violated += 1

            def val(e, d):
                v = m.eval(e, model_completion=False)
                if z3.is_bv_value(v):
                    v = v.as_long()
                    return v - (1 << 32) if v >= 1 << 31 else v
                if z3.is_true(v):
                    return True
                if z3.is_false(v):
                    return False
                return d
            return [val(e, 10 + i) for i, e in enumerate(s.elems)], [val(r_, (100 + i) if s.method == "map" else True) for i, r_ in enumerate(s.rets)]
        qs.undecided.append(label)
        return None

    def finding(cls, w, detail):
        ev, rv = w
        f = Q.Finding(prop, "list." + s.method, s.arm, cls, profile, native_args(s, ev, rv), detail)
        f.native_op = s.native_spec()
        f.predicted_text = norm(eval_summary(s, ev, rv))
        f.predicted = None
        f.via = "built-in + callback bridge"
        f.human = "%r.%s(callback returning %r)" % (ev, s.method, rv[:s.n])
        return f

    for pi, p in enumerate(s.paths):
        pc, kind, msg, res, calls, post = p
        pcz = z3.And(*pc) if pc else z3.BoolVal(True)
        lab = "%s:path%d" % (lab0, pi)
        if prop == "C17":
            if kind == "panic":
                w = ask(pcz, lab + ":no-panic")
                if w:
                    out.append(finding("panic:" + Q.panic_class(msg), w, "Rust panic `%s` in list.%s" % (msg, s.method)))
            else:
                qs.obligations += 1
                qs.discharged += 1
            continue
        if kind != "ok":
            w = ask(pcz, lab + ":never-fails")
            if w:
                out.append(finding("spurious-failure", w, "list.%s fails (%s%s) although it is defined for every list" % (s.method, kind, "" if kind == "panic" else " in " + str(msg))))
            continue
        # callback protocol: once per element, in order, with the element
        good_calls = len(calls) == s.n and all(len(c[0]) == 1 for c in calls)
        w = ask(z3.And(pcz, z3.Not(z3.And(*[c[0][0] == e for c, e in zip(calls, s.elems)]) if (good_calls and s.n) else z3.BoolVal(good_calls))), lab + ":callback-once-per-element")
        if w:
            out.append(finding("wrong-callback-sequence", w, "the callback is not invoked exactly once per element, in order, with that element"))
        if not all(c[1] and c[2] for c in calls):
            w = ask(pcz, lab + ":callback-request")
            if w:
                out.append(finding("wrong-callback-request", w, "a callback invocation does not name the callback function together with its captured variables"))
        else:
            qs.obligations += 1
            qs.discharged += 1
        ok_res = res is not None and res[0] != RECV
        w = ask(z3.And(pcz, z3.Not(z3.Or(*[z3.And(c, _seq_eq(res[1], want)) for c, want in exp]) if ok_res else z3.BoolVal(False))), lab + ":result")
        if w:
            out.append(finding("wrong-result", w, "the list returned differs from the model (or is not a new list)"))
        w = ask(z3.And(pcz, z3.Not(_seq_eq(post, s.elems))), lab + ":receiver-unchanged")
        if w:
            out.append(finding("wrong-contents", w, "the receiver is changed"))
    return out
