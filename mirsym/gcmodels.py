"""`gc` crate containers and the Vec operations of the list built-ins (C13 list kernel / C17).

A `Gc<T>` is a pointer to a store cell (like Box): clones share the cell, which is what makes aliasing observable.
`GcCell` carries its borrow flag (0 = free, n > 0 = n shared borrows, -1 = mutably borrowed): `borrow`/`borrow_mut` panic like the
real crate when the flag forbids the borrow, and the guards release it when the executor runs their `drop` (Executor.drop_hooks)."""
import re
import z3
from sym import Sc, Adt, Ref, Opaque, Panic, Inconclusive, UNIT, bv
from models import some, NONE, scalar, _vec_at


def _val(ex, st, v, depth=6):
    n = 0
    while isinstance(v, Ref) and n < depth:
        v = ex.read(st, v.cell, v.path)
        n += 1
    return v


def new_gc(st, value):
    st.nframe += 1
    key = ("gc", st.nframe)
    st.cells[key] = value
    return Adt("Gc", None, [Ref(key)])


def m_gc_new(ex, st, callee, args):
    return [(None, new_gc(st, args[0]))]


def _flag(cell):
    return z3.simplify(cell.fields[1].e).as_signed_long()


def gccell(inner):
    return Adt("GcCell", None, [inner, bv("i32", 0)])


def m_gccell_new(ex, st, callee, args):
    return [(None, gccell(args[0]))]


def _gc(ex, st, v):
    v = _val(ex, st, v)
    if not (isinstance(v, Adt) and v.ty == "Gc"):
        raise Inconclusive("expected a Gc, got %r" % (v,))
    return v


def m_gc_deref(ex, st, callee, args):
    return [(None, _gc(ex, st, args[0]).fields[0])]


def m_gc_clone(ex, st, callee, args):
    return [(None, _gc(ex, st, args[0]))]


def _cell_ref(ex, st, ref):
    """reference to the place holding a GcCell value"""
    n = 0
    while isinstance(ref, Ref) and n < 6:
        v = ex.read(st, ref.cell, ref.path)
        if isinstance(v, Adt) and v.ty == "GcCell":
            return ref
        if isinstance(v, Adt) and v.ty == "Gc":
            ref = v.fields[0]
            n += 1
            continue
        if isinstance(v, Ref):
            ref = v
            n += 1
            continue
        break
    raise Inconclusive("expected a GcCell, got %r" % (ref,))


def m_gccell_borrow(ex, st, callee, args):
    r = _cell_ref(ex, st, args[0])
    cell = ex.read(st, r.cell, r.path)
    flag = _flag(cell)
    mut = "borrow_mut" in callee
    if mut and flag != 0:
        return [(None, Panic("GcCell<T> already borrowed"))]
    if not mut and flag < 0:
        return [(None, Panic("GcCell<T> already mutably borrowed"))]
    ex.write(st, r.cell, r.path, Adt("GcCell", None, [cell.fields[0], bv("i32", -1 if mut else flag + 1)]))
    return [(None, Adt("GcCellRefMut" if mut else "GcCellRef", None, [Ref(r.cell, r.path + (0,)), Ref(r.cell, r.path)]))]


def release_guard(ex, st, g):
    if len(g.fields) < 2:
        return          # a borrow of a variable cell (models.m_pair_primitive): no flag modelled
    r = g.fields[1]
    cell = ex.read(st, r.cell, r.path)
    if isinstance(cell, Adt) and cell.ty == "GcCell":
        flag = _flag(cell)
        ex.write(st, r.cell, r.path, Adt("GcCell", None, [cell.fields[0], bv("i32", 0 if g.ty == "GcCellRefMut" else max(flag - 1, 0))]))


def m_guard_deref(ex, st, callee, args):
    g = _val(ex, st, args[0])
    if not (isinstance(g, Adt) and g.ty in ("GcCellRef", "GcCellRefMut")):
        raise Inconclusive("guard deref on %r" % (g,))
    return [(None, g.fields[0])]


def m_vec_remove(ex, st, callee, args):
    ref, v = _vec_at(ex, st, args[0])
    idx = scalar(ex, st, args[1])
    n = len(v.fields)
    out = []
    for k in range(n):
        out.append((idx.e == k, ("write+", ref, Adt(v.ty, None, v.fields[:k] + v.fields[k + 1:]), v.fields[k])))
    out.append((z3.UGE(idx.e, n), Panic("removal index (is {index}) should be < len (is {len}) (Vec::remove)")))
    return out


def m_vec_insert(ex, st, callee, args):
    ref, v = _vec_at(ex, st, args[0])
    idx = scalar(ex, st, args[1])
    n = len(v.fields)
    out = []
    for k in range(n + 1):
        out.append((idx.e == k, ("write", ref, Adt(v.ty, None, v.fields[:k] + (args[2],) + v.fields[k:]))))
    out.append((z3.UGT(idx.e, n), Panic("insertion index (is {index}) should be <= len (is {len}) (Vec::insert)")))
    return out


def m_vec_reverse(ex, st, callee, args):
    ref, v = _vec_at(ex, st, args[0])
    ex.write(st, ref.cell, ref.path, Adt(v.ty, None, tuple(reversed(v.fields))))
    return [(None, UNIT)]


def m_vec_swap_remove(ex, st, callee, args):
    ref, v = _vec_at(ex, st, args[0])
    idx = scalar(ex, st, args[1])
    n = len(v.fields)
    out = []
    for k in range(n):
        rest = list(v.fields)
        rest[k] = rest[-1]
        out.append((idx.e == k, ("write+", ref, Adt(v.ty, None, tuple(rest[:-1])), v.fields[k])))
    out.append((z3.UGE(idx.e, n), Panic("swap_remove index (is {index}) should be < len (is {len})")))
    return out


def m_identity(ex, st, callee, args):
    return [(None, args[0])]


def m_vec_append(ex, st, callee, args):
    """Vec::append(&mut self, &mut other): moves every element of `other` to the end of `self`, leaving `other` empty"""
    ra, a = _vec_at(ex, st, args[0])
    rb, b = _vec_at(ex, st, args[1])
    if (ra.cell, ra.path) == (rb.cell, rb.path):
        raise Inconclusive("Vec::append of a vector to itself (two &mut to one place)")
    ex.write(st, ra.cell, ra.path, Adt(a.ty, None, a.fields + b.fields))
    ex.write(st, rb.cell, rb.path, Adt(b.ty, None, ()))
    return [(None, UNIT)]


def m_to_vec(ex, st, callee, args):
    """<[T]>::to_vec / Vec::clone: a new vector holding clones of the elements (scalar elements: copies)"""
    _, v = _vec_at(ex, st, args[0])
    return [(None, Adt("Vec", None, v.fields))]


def m_vec_extend(ex, st, callee, args):
    ra, a = _vec_at(ex, st, args[0])
    src = _val(ex, st, args[1])
    if not (isinstance(src, Adt) and src.ty in ("Vec", "[]")):
        raise Inconclusive("Vec::extend from %r" % (src,))
    ex.write(st, ra.cell, ra.path, Adt(a.ty, None, a.fields + src.fields))
    return [(None, UNIT)]


def m_enumerate(ex, st, callee, args):
    return [(None, Adt("EnumIter", None, [args[0]]))]


def m_enum_find_position(ex, st, callee, args):
    """Enumerate<slice::Iter>::find(pred) / Iter::position(pred): the first element on which the (pure) closure is true"""
    from sym import Invoke, Forks
    from strmodels import _iter_items
    fn = ex.closure_fn(callee)
    if fn is None:
        raise Inconclusive("no MIR item for the closure in " + callee)
    it = _val(ex, st, args[0])
    enum = isinstance(it, Adt) and it.ty == "EnumIter"
    items = _iter_items(ex, st, it.fields[0] if enum else args[0])
    env = args[1]
    if ex.mf.func(fn).locals[1].strip().startswith("&") and not isinstance(env, Ref):
        # FnMut / Fn closures receive `&mut self` / `&self`: park the closure value in a cell
        st.nframe += 1
        st.cells[("tmp", st.nframe)] = env
        env = Ref(("tmp", st.nframe))
    is_position = "::position::<" in callee

    def item_arg(st2, i):
        if not enum:
            return items[i]
        st2.nframe += 1
        key = ("tmp", st2.nframe)
        st2.cells[key] = Adt("()", None, [bv("usize", i), items[i]])
        return Ref(key)

    def finish(preds):
        forks, none_before = [], []
        for i, p in enumerate(preds):
            cond = z3.And(*(none_before + [p])) if none_before else p
            val = some(bv("usize", i)) if is_position else some(Adt("()", None, [bv("usize", i), items[i]]))
            forks.append((cond, val))
            none_before.append(z3.Not(p))
        forks.append((z3.And(*none_before) if none_before else z3.BoolVal(True), NONE))
        return Forks(forks)

    def step(st2, i, preds):
        if i == len(items):
            return finish(preds)
        return Invoke(fn, [env, item_arg(st2, i)], lambda st3, val: step(st3, i + 1, preds + [val.e]))

    if not items:
        return [(None, NONE)]
    return [(None, step(st, 0, []))]


def m_vec_index(ex, st, callee, args):
    """<Vec<T> as Index<usize>>::index: &v[i], panics when i >= len"""
    ref, v = _vec_at(ex, st, args[0])
    idx = scalar(ex, st, args[1])
    n = len(v.fields)
    out = [(idx.e == k, Ref(ref.cell, ref.path + (k,))) for k in range(n)]
    out.append((z3.UGE(idx.e, n), Panic("index out of bounds: the len is {} but the index is {}")))
    return out


def m_gc_default_vec(ex, st, callee, args):
    return [(None, new_gc(st, gccell(Adt("Vec", None, ()))))]


def m_call_closure_value(ex, st, callee, args):
    """<impl FnOnce(..) as FnOnce<(..)>>::call_once(closure, (args..)) in generic crate code: run the MIR item of the closure VALUE"""
    from sym import Invoke
    clo = args[0]
    cv = _val(ex, st, clo) if isinstance(clo, Ref) else clo
    if not (isinstance(cv, Adt) and cv.ty == "{closure}" and cv.variant):
        raise Inconclusive("call of a closure value %r" % (cv,))
    ex.closure_fn("{closure@none}")          # builds the index
    fn = ex._closure_index.get(cv.variant)
    if fn is None:
        raise Inconclusive("no MIR item for closure %s" % cv.variant)
    tup = args[1]
    tup = _val(ex, st, tup) if isinstance(tup, Ref) else tup
    params = list(tup.fields) if isinstance(tup, Adt) and tup.ty == "()" else [tup]
    env = clo
    if ex.mf.func(fn).locals[1].strip().startswith("&") and not isinstance(env, Ref):
        st.nframe += 1
        st.cells[("tmp", st.nframe)] = env
        env = Ref(("tmp", st.nframe))
    return [(None, Invoke(fn, [env] + params, lambda st2, val: val))]


def m_dyn_deref(ex, st, callee, args):
    """<dyn Deref<Target = T> as Deref>::deref on a trait object: dispatch on the concrete pointee (a reference, or a borrow guard)"""
    v = _val(ex, st, args[0], depth=1)
    if isinstance(v, Ref):
        return [(None, v)]
    if isinstance(v, Adt) and v.ty in ("GcCellRef", "GcCellRefMut"):
        return [(None, v.fields[0])]
    if isinstance(v, Adt) and v.ty == "Primitive" and isinstance(args[0], Ref):
        # the executor collapses `&&T` built from `&*r`: the trait object already designates the target
        return [(None, args[0])]
    raise Inconclusive("dyn Deref on %r" % (v,))


def m_vec_get(ex, st, callee, args):
    """<[T]>::get / get_mut (usize) -> Option<&T>"""
    ref, v = _vec_at(ex, st, args[0])
    idx = scalar(ex, st, args[1])
    n = len(v.fields)
    out = [(idx.e == k, some(Ref(ref.cell, ref.path + (k,)))) for k in range(n)]
    out.append((z3.UGE(idx.e, n), NONE))
    return out


def m_guard_map(ex, st, callee, args):
    """GcCellRefMut::map(guard, |inner| -> &mut U): a guard for the part the closure selects"""
    from sym import Invoke
    g = args[0]
    fn = ex.closure_fn(callee)
    if fn is None or not (isinstance(g, Adt) and g.ty in ("GcCellRef", "GcCellRefMut")):
        raise Inconclusive("guard map on %r" % (g,))
    return [(None, Invoke(fn, [args[1], g.fields[0]], lambda st2, val: Adt(g.ty, None, [val, g.fields[1]])))]


def m_vec_range_index(ex, st, callee, args):
    """<Vec<T> as Index<Range*<usize>>>::index: a sub-slice view (bounds concrete on the path); std's panic contract"""
    ref, v = _vec_at(ex, st, args[0])
    r = _val(ex, st, args[1]) if isinstance(args[1], Ref) else args[1]
    n = len(v.fields)

    def conc(x):
        c = z3.simplify(x.e)
        if not z3.is_bv_value(c):
            raise Inconclusive("symbolic slice bound")
        return c.as_long()
    lo, hi = 0, n
    if "RangeFull" in callee or not isinstance(r, Adt):
        if "RangeFull" not in callee:
            raise Inconclusive("slice index %r" % (r,))
        return [(None, ref)]
    if r.ty == "Range":
        lo, hi = conc(r.fields[0]), conc(r.fields[1])
    elif r.ty == "RangeTo":
        hi = conc(r.fields[0])
    elif r.ty == "RangeFrom":
        lo = conc(r.fields[0])
    elif r.ty != "RangeFull":
        raise Inconclusive("slice index %r" % (r,))
    if lo > hi or hi > n:
        return [(None, Panic("range end index %d out of range for slice of length %d" % (hi, n)))]
    st.nframe += 1
    key = ("view", st.nframe)
    st.cells[key] = Adt("[]", None, v.fields[lo:hi])
    return [(None, Ref(key))]


def m_slice_get_range(ex, st, callee, args):
    """<[T]>::get(range) -> Option<&[T]> (bounds concrete on the path)"""
    res = m_vec_range_index(ex, st, callee, args)
    return [(c, NONE if isinstance(v, Panic) else some(v)) for c, v in res]


def m_iter_rev(ex, st, callee, args):
    it = args[0]
    if not (isinstance(it, Adt) and it.ty == "SliceIter"):
        raise Inconclusive("rev on %r" % (it,))
    seq_ref, idx = it.fields
    ref, v = _vec_at(ex, st, seq_ref)
    i = z3.simplify(idx.e).as_long()
    st.nframe += 1
    key = ("view", st.nframe)
    st.cells[key] = Adt("[]", None, tuple(reversed(v.fields[i:])))
    return [(None, Adt("SliceIter", None, [Ref(key), bv("usize", 0)]))]


def m_iter_into_iter(ex, st, callee, args):
    return [(None, args[0])]


def m_rev_next(ex, st, callee, args):
    from models import m_iter_next
    return m_iter_next(ex, st, callee, args)


def m_option_filter(ex, st, callee, args):
    """Option::filter(pred): Some(x) if pred(&x) else None"""
    from sym import Invoke, Forks
    v = args[0]
    if not (isinstance(v, Adt) and v.ty == "Option"):
        raise Inconclusive("Option::filter on %r" % (v,))
    if v.variant == "None":
        return [(None, NONE)]
    fn = ex.closure_fn(callee)
    if fn is None:
        raise Inconclusive("no MIR item for the closure in " + callee)
    st.nframe += 1
    key = ("tmp", st.nframe)
    st.cells[key] = v.fields[0]
    return [(None, Invoke(fn, [args[1], Ref(key)], lambda st2, val: Forks([(val.e, v), (z3.Not(val.e), NONE)])))]


def _seq_items(ex, st, v):
    ref, seq = _vec_at(ex, st, v) if isinstance(v, Ref) else (None, v)
    if ref is None:
        raise Inconclusive("sequence by value %r" % (v,))
    return [Ref(ref.cell, ref.path + (i,)) for i in range(len(seq.fields))]


def m_slice_eq(ex, st, callee, args):
    """<[T] as PartialEq>::eq / Vec eq: equal lengths and element-wise `T::eq` (the crate's own impl is run per pair)"""
    from sym import Invoke
    a, b = _seq_items(ex, st, args[0]), _seq_items(ex, st, args[1])
    if len(a) != len(b):
        return [(None, Sc("bool", z3.BoolVal(callee.endswith("::ne"))))]
    m_ = re.search(r"\[(.*?)\]|Vec<(.*?)>", callee)
    elem = (m_.group(1) or m_.group(2)) if m_ else None
    fn = ex.resolver("<%s as PartialEq>::eq" % elem, 2) if elem else None
    if fn is None:
        raise Inconclusive("element equality for " + callee)

    def step(i, acc):
        if i == len(a):
            r = z3.And(*acc) if acc else z3.BoolVal(True)
            return Sc("bool", z3.Not(r) if callee.endswith("::ne") else r)
        return Invoke(fn, [a[i], b[i]], lambda st2, val: step(i + 1, acc + [val.e]))
    return [(None, step(0, []))]


def m_gc_vec_eq(ex, st, callee, args):
    """<Gc<GcCell<Vec<T>>> as PartialEq>::eq: the gc crate compares the pointees (GcCell compares its borrowed contents)"""
    refs = []
    for a_ in args[:2]:
        g = _gc(ex, st, a_)
        r = g.fields[0]
        refs.append(Ref(r.cell, r.path + (0,)))
    m_ = re.search(r"Vec<(.*)>>> as PartialEq", callee)
    return m_slice_eq(ex, st, "<[%s] as PartialEq>::%s" % (m_.group(1), "ne" if callee.endswith("::ne") else "eq"), refs)


def m_vec_as_ptr(ex, st, callee, args):
    """Vec::as_ptr: the address of the buffer.  Two vectors have the same buffer address iff they are the same vector - except that
    every vector that never allocated (empty, capacity 0) returns the same dangling address; whether an EMPTY vector has capacity is
    not part of this value model, so both answers are explored"""
    ref, v = _vec_at(ex, st, args[0])
    own = Ref(ref.cell, ref.path)
    if v.fields:
        return [(None, own)]
    st.cells.setdefault(("dangling-buffer",), Adt("()", None, []))
    b = z3.Bool("never_allocated_%s" % re.sub(r"[^A-Za-z0-9]+", "_", repr((ref.cell, ref.path))))     # one choice per vector
    return [(b, Ref(("dangling-buffer",), ())), (z3.Not(b), own)]


def m_gc_ptr_eq(ex, st, callee, args):
    a_, b_ = _gc(ex, st, args[0]), _gc(ex, st, args[1])
    ra, rb = a_.fields[0], b_.fields[0]
    return [(None, Sc("bool", z3.BoolVal((ra.cell, ra.path) == (rb.cell, rb.path))))]


def m_gc_as_ref(ex, st, callee, args):
    """<Gc<T> as AsRef<T>>::as_ref / Borrow: a reference to the pointee"""
    return [(None, _gc(ex, st, args[0]).fields[0])]


def m_option_ok_or(ex, st, callee, args):
    from models import ok, err
    v = args[0]
    if not (isinstance(v, Adt) and v.ty == "Option"):
        raise Inconclusive("Option::ok_or on %r" % (v,))
    return [(None, ok(v.fields[0]) if v.variant == "Some" else err(args[1]))]


def m_option_string_as_deref(ex, st, callee, args):
    v = _val(ex, st, args[0], depth=2) if isinstance(args[0], Ref) else args[0]
    if not (isinstance(v, Adt) and v.ty == "Option"):
        raise Inconclusive("Option::as_deref on %r" % (v,))
    return [(None, v)]


def m_option_map_closure(ex, st, callee, args):
    """Option::map(closure): Some(f(x)) / None"""
    from sym import Invoke
    v = args[0]
    if not (isinstance(v, Adt) and v.ty == "Option"):
        raise Inconclusive("Option::map on %r" % (v,))
    if v.variant == "None":
        return [(None, NONE)]
    fn = ex.closure_fn(callee)
    if fn is None:
        raise Inconclusive("no MIR item for the closure in " + callee)
    return [(None, Invoke(fn, [args[1], v.fields[0]], lambda st2, val: some(val)))]


def m_option_string_eq(ex, st, callee, args):
    from strmodels import to_sstr
    a_, b_ = _val(ex, st, args[0]), _val(ex, st, args[1])
    if not all(isinstance(x, Adt) and x.ty == "Option" for x in (a_, b_)):
        raise Inconclusive("Option<String> comparison of %r and %r" % (a_, b_))
    if a_.variant != b_.variant:
        r = z3.BoolVal(False)
    elif a_.variant == "None":
        r = z3.BoolVal(True)
    else:
        x, y = to_sstr(ex, st, a_.fields[0]), to_sstr(ex, st, b_.fields[0])
        if x is None or y is None:
            raise Inconclusive("Option<String> comparison of abstract strings")
        r = z3.BoolVal(False) if len(x.fields) != len(y.fields) else (z3.And(*[p.e == q.e for p, q in zip(x.fields, y.fields)]) if x.fields else z3.BoolVal(True))
    if callee.endswith("::ne"):
        r = z3.Not(r)
    return [(None, Sc("bool", z3.simplify(r)))]


def m_default_ne(ex, st, callee, args):
    """`<T as PartialEq>::ne` of a crate type that only defines `eq` (derive / manual impl): the trait's default `!self.eq(other)`"""
    from sym import Invoke
    own = ex.resolver(callee, 2)
    if own is not None:
        return [(None, Invoke(own, list(args), lambda st2, val: val))]
    eq = ex.resolver(callee[:-4] + "::eq", 2)
    if eq is None:
        raise Inconclusive("unknown callee: " + callee)
    return [(None, Invoke(eq, list(args), lambda st2, val: Sc("bool", z3.Not(val.e))))]


def m_option_ref_eq(ex, st, callee, args):
    """<Option<&T> as PartialEq>::eq / ne for a crate type T: variants must agree; two `Some` compare with `T::eq`"""
    from sym import Invoke
    a_, b_ = _val(ex, st, args[0], depth=1), _val(ex, st, args[1], depth=1)
    if not all(isinstance(x, Adt) and x.ty == "Option" for x in (a_, b_)):
        raise Inconclusive("Option comparison of %r and %r" % (a_, b_))
    neg = callee.endswith("::ne")
    if a_.variant != b_.variant:
        return [(None, Sc("bool", z3.BoolVal(neg)))]
    if a_.variant == "None":
        return [(None, Sc("bool", z3.BoolVal(not neg)))]
    m_ = re.match(r"^<Option<&(.*)> as PartialEq>::", callee)
    eq = ex.resolver("<%s as PartialEq>::eq" % m_.group(1), 2) if m_ else None
    if eq is None:
        raise Inconclusive("element equality for " + callee)
    return [(None, Invoke(eq, [a_.fields[0], b_.fields[0]], lambda st2, val: Sc("bool", z3.Not(val.e)) if neg else val))]


def m_as_slice(ex, st, callee, args):
    return [(None, args[0])]


def m_zip(ex, st, callee, args):
    return [(None, Adt("ZipIter", None, [args[0], args[1]]))]


def m_zip_all_any(ex, st, callee, args):
    from sym import Invoke
    from strmodels import _iter_items
    z_ = args[0]
    if not (isinstance(z_, Adt) and z_.ty == "ZipIter"):
        z_ = _val(ex, st, z_)
    if not (isinstance(z_, Adt) and z_.ty == "ZipIter"):
        raise Inconclusive("zip adaptor %r" % (z_,))
    xs, ys = _iter_items(ex, st, z_.fields[0]), _iter_items(ex, st, z_.fields[1])
    pairs = list(zip(xs, ys))
    fn = ex.closure_fn(callee)
    if fn is None:
        raise Inconclusive("no MIR item for the closure in " + callee)
    env = args[1]
    if ex.mf.func(fn).locals[1].strip().startswith("&") and not isinstance(env, Ref):
        st.nframe += 1
        st.cells[("tmp", st.nframe)] = env
        env = Ref(("tmp", st.nframe))
    is_any = "::any::<" in callee

    def step(i, acc):
        if i == len(pairs):
            if not acc:
                return Sc("bool", z3.BoolVal(not is_any))
            return Sc("bool", z3.Or(*acc) if is_any else z3.And(*acc))
        return Invoke(fn, [env, Adt("()", None, [pairs[i][0], pairs[i][1]])], lambda st2, val: step(i + 1, acc + [val.e]))
    return [(None, step(0, []))]


def m_unwrap_or_else(ex, st, callee, args):
    from sym import Invoke
    v = args[0]
    if not (isinstance(v, Adt) and v.ty in ("Result", "Option")):
        raise Inconclusive("unwrap_or_else on %r" % (v,))
    if v.variant in ("Ok", "Some"):
        return [(None, v.fields[0])]
    fn = ex.closure_fn(callee)
    if fn is None:
        raise Inconclusive("no MIR item for the closure in " + callee)
    return [(None, Invoke(fn, [args[1]] + ([v.fields[0]] if v.ty == "Result" else []), lambda st2, val: val))]


def m_clone_structural(ex, st, callee, args):
    """Clone of a value whose model is an immutable tree (Option<..>, String, Rc handles: the handle is the value)"""
    return [(None, _val(ex, st, args[0], depth=1) if isinstance(args[0], Ref) else args[0])]


def m_cell_new(ex, st, callee, args):
    return [(None, Adt("Cell", None, [args[0]]))]


def m_cell_get(ex, st, callee, args):
    c = _val(ex, st, args[0])
    if not (isinstance(c, Adt) and c.ty == "Cell"):
        raise Inconclusive("Cell::get on %r" % (c,))
    return [(None, c.fields[0])]


def m_cell_set(ex, st, callee, args):
    ref = args[0]
    n = 0
    while n < 6:
        v = ex.read(st, ref.cell, ref.path)
        if isinstance(v, Ref):
            ref = v
            n += 1
            continue
        break
    if not (isinstance(v, Adt) and v.ty == "Cell"):
        raise Inconclusive("Cell::set on %r" % (v,))
    ex.write(st, ref.cell, ref.path, Adt("Cell", None, [args[1]]))
    return [(None, UNIT)]


def m_opaque_handle(tag):
    def h(ex, st, callee, args):
        return [(None, Opaque(tag, None))]
    return h


def m_gcvector_with_capacity(ex, st, callee, args):
    return [(None, Adt("Vec", None, ()))]


def install(m):
    pre = [
        (r"^<Option<.*> as Clone>::clone$|^<Rc<.*> as Clone>::clone$|^<String as Clone>::clone$", m_clone_structural),
        (r"^<Vec<.*> as Index(Mut)?<usize>>::index(_mut)?$", m_vec_index),
        (r"^<Gc<GcCell<Vec<.*>>> as Default>::default$", m_gc_default_vec),
        (r"^<impl Fn(Once|Mut)?\(.*\) -> .* as Fn(Once|Mut)?<\(.*\)>>::call(_once|_mut)?$", m_call_closure_value),
        (r"^<dyn Deref<Target = .*> as Deref>::deref$", m_dyn_deref),
        (r"^(core::)?slice::<impl \[.*\]>::(get|get_mut)::<usize>$|^Vec::<.*>::(get|get_mut)$", m_vec_get),
        (r"^GcCellRef(Mut)?::<.*>::map::<", m_guard_map),
        (r"^<\[.*\] as Index<(std::ops::)?Range(To|From|Full)?(<usize>)?>>::index$|^<Vec<.*> as Index<(std::ops::)?Range(To|From|Full)?(<usize>)?>>::index$|^(core::)?slice::index::<impl Index<(std::ops::)?Range(To|From|Full)?(<usize>)?> for \[.*\]>::index$", m_vec_range_index),
        (r"^(core::)?slice::<impl \[.*\]>::get::<(std::ops::)?Range(To|From|Full)?(<usize>)?>$", m_slice_get_range),
        (r"^<std::slice::Iter<'_, .*> as Iterator>::rev$", m_iter_rev),
        (r"^<Rev<std::slice::Iter<'_, .*>> as IntoIterator>::into_iter$", m_iter_into_iter),
        (r"^<Rev<std::slice::Iter<'_, .*>> as Iterator>::next$", m_rev_next),
        (r"^Option::<.*>::filter::<", m_option_filter),
        (r"^<\[.*\] as PartialEq>::(eq|ne)$|^<Vec<.*> as PartialEq>::(eq|ne)$|^core::slice::cmp::<impl PartialEq<\[.*\]> for \[.*\]>::(eq|ne)$", m_slice_eq),
        (r"^<Gc<GcCell<Vec<.*>>> as PartialEq>::(eq|ne)$", m_gc_vec_eq),
        (r"^<Option<&(variables|stack|function)::.*> as PartialEq>::(eq|ne)$", m_option_ref_eq),
        (r"^Option::<.*>::ok_or::<", m_option_ok_or),
        (r"^Option::<.*>::map::<.*\{closure@", m_option_map_closure),
        (r"^<Option<String> as PartialEq>::(eq|ne)$", m_option_string_eq),
        (r"^Option::<String>::as_deref$", m_option_string_as_deref),
        (r"^Gc::<.*>::ptr_eq$", m_gc_ptr_eq),
        (r"^Vec::<.*>::as_ptr$|^(core::)?slice::<impl \[.*\]>::as_ptr$", m_vec_as_ptr),
        (r"^<Gc<.*> as (AsRef|Borrow)<.*>>::(as_ref|borrow)$", m_gc_as_ref),
        (r"^Vec::<.*>::as_slice$", m_as_slice),
        (r"^<std::slice::Iter<'_, .*> as Iterator>::zip::<", m_zip),
        (r"^<Zip<.*> as Iterator>::(all|any)::<", m_zip_all_any),
        (r"^(std::(result|option)::)?(Result|Option)::<.*>::unwrap_or_else::<", m_unwrap_or_else),
        (r"^Cell::<.*>::new$", m_cell_new),
        (r"^Cell::<.*>::get$", m_cell_get),
        (r"^Cell::<.*>::set$", m_cell_set),
        (r"^context::Ctx::<'_>::rced_call_stack$", m_opaque_handle("call-stack")),
        (r"^Vec::<.*>::with_capacity$", m_gcvector_with_capacity),
        (r"^<Vec<.*> as AsMut<Vec<.*>>>::as_mut$|^<Vec<.*> as AsMut<\[.*\]>>::as_mut$", m_identity),
        (r"^Vec::<.*>::append$", m_vec_append),
        (r"^(core::)?slice::<impl \[.*\]>::to_vec$|^<Vec<.*> as Clone>::clone$", m_to_vec),
        (r"^<Vec<.*> as Extend<.*>>::extend::<Vec<.*>>$|^Vec::<.*>::extend_from_slice$", m_vec_extend),
        (r"^<std::slice::Iter<'_, .*> as Iterator>::enumerate$", m_enumerate),
        (r"^<Enumerate<std::slice::Iter<'_, .*>> as Iterator>::find::<", m_enum_find_position),
        (r"^<std::slice::Iter<'_, .*> as Iterator>::position::<", m_enum_find_position),
        (r"^Gc::<.*>::new$", m_gc_new),
        (r"^GcCell::<.*>::new$", m_gccell_new),
        (r"^<Gc<.*> as Deref>::deref$", m_gc_deref),
        (r"^<Gc<.*> as Clone>::clone$", m_gc_clone),
        (r"^GcCell::<.*>::(borrow|borrow_mut)$", m_gccell_borrow),
        (r"^<GcCellRef(Mut)?<.*> as Deref(Mut)?>::deref(_mut)?$", m_guard_deref),
        (r"^Vec::<.*>::remove$", m_vec_remove),
        (r"^Vec::<.*>::insert$", m_vec_insert),
        (r"^Vec::<.*>::swap_remove$", m_vec_swap_remove),
        (r"^core::slice::<impl \[.*\]>::reverse$|^Vec::<.*>::reverse$", m_vec_reverse),
    ]
    m.table = [(re.compile(p), h) for p, h in pre] + m.table
    # lowest priority: the default `ne` of crate types
    m.table = m.table + [(re.compile(r"^<(variables|stack|function|instruction|context|file)::.* as PartialEq(<.*>)?>::ne$"), m_default_ne)]
    m.cache.clear()
    return m


def install_drop_hooks(ex):
    ex.drop_hooks = {"GcCellRef": release_guard, "GcCellRefMut": release_guard}
    return ex
