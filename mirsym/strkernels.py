"""String built-in methods with index arithmetic (`len`, `substring`, `delete`, `insert`, `split`, `reverse`), executed from the
real `BuiltInFunction::run` entry point on SStr receivers (concrete length, symbolic characters) and symbolic i32 indices.

Claim bounds: receiver length 0..LMAX, inserted text length 0..IMAX, every character symbolic in 0x20..=0x7E (printable ASCII,
so byte offsets and character offsets coincide - multi-byte text is OUTSIDE the claim), every index a full-width symbolic i32.

Meaning of the methods (oracle), from the test-suite's own examples (compiler/src/tests/builtins.rs) and the method names:
    len()            number of characters
    substring(b, t)  characters b..t           defined iff 0 <= b <= t <= len
    delete(b, t)     s[..b] + s[t..]           defined iff 0 <= b <= t <= len   ("hello world".delete(5, 7) == "helloorld")
    insert(x, i)     s[..i] + x + s[i..]       defined iff 0 <= i <= len
    split(m)         [s[..m], s[m..]] for 0 <= m < len, otherwise [s, ""]       (total; "goodwill".split(100) / split(-1))
    reverse()        characters in reverse order
Outside the domain the call must fail (C14) and the failure must be an MScript error, not a Rust panic (C17).
"""
import os, time
import z3
import sym, models, strmodels, stridx, targets
import opcheck as Q
from sym import Sc, Adt, Ref, Opaque, Inconclusive
from opkernels import prim, CRATE_PREFIXES

METHODS = {  # method -> (BuiltInFunction variant, argument kinds after the receiver)
    "len": ("StrLen", []), "substring": ("StrSubstring", ["Int", "Int"]), "delete": ("StrDelete", ["Int", "Int"]),
    "insert": ("StrInsert", ["Str", "Int"]), "split": ("StrSplit", ["Int"]), "reverse": ("StrReverse", []),
}
LMAX = {"quick": 3, "thorough": 5}
IMAX = {"quick": 2, "thorough": 2}
LO, HI = 0x20, 0x7E


class StrSummary:
    def __init__(self, method, variant, n, m, chars, ins, idx, paths, dt):
        self.method, self.variant, self.n, self.m = method, variant, n, m
        self.chars, self.ins, self.idx, self.paths, self.seconds = chars, ins, idx, paths, dt

    @property
    def arm(self):
        return "len=%d" % self.n + (",ins=%d" % self.m if self.method == "insert" else "")


def _decode(o):
    """path outcome -> ('panic', msg) | ('err', None) | ('ok', value) ; value = ('Int', e) | ('Str', [e..]) | ('Vector', [[e..], [e..]])"""
    if o.kind == "panic":
        return "panic", o.value.msg
    v = o.value
    if not (isinstance(v, Adt) and v.ty == "Result"):
        raise Inconclusive("string built-in returned %r" % (v,))
    if v.variant == "Err":
        return "err", None
    res = v.fields[0].fields[0]
    if not (isinstance(res, Adt) and res.ty == "Option" and res.variant == "Some"):
        raise Inconclusive("string built-in returned %r" % (res,))
    p = res.fields[0]

    def chars(s_):
        if not strmodels.is_sstr(s_):
            raise Inconclusive("string result is %r" % (s_,))
        return [c.e for c in s_.fields]
    if p.variant == "Int":
        return "ok", ("Int", p.fields[0].e)
    if p.variant == "Str":
        return "ok", ("Str", chars(p.fields[0]))
    if p.variant == "Vector":
        x = p.fields[0]
        for _ in range(3):      # GcVector(Gc -> cell: GcCell(Vec))
            x = x.fields[0]
            if isinstance(x, Ref):
                x = o.cells[x.cell]
        if not (isinstance(x, Adt) and x.ty == "Vec"):
            raise Inconclusive("vector result is %r" % (x,))
        items = []
        for it in x.fields:
            if not (isinstance(it, Adt) and it.variant == "Str"):
                raise Inconclusive("vector item is %r" % (it,))
            items.append(chars(it.fields[0]))
        return "ok", ("Vector", items)
    raise Inconclusive("string built-in returned a %s" % p.variant)


class StrKernels:
    def __init__(self, mf, overflow_checks, repo, seed=0):
        self.mf = mf
        targets.register_primitive_enum(repo)
        targets.register_enum_from_source(os.path.join(repo, "bytecode/src/function.rs"), "BuiltInFunction")
        m = stridx.install(strmodels.install(models.base_models()))
        self.ex = sym.Executor(mf, overflow_checks, m, targets.generic_resolver(mf, CRATE_PREFIXES + ["GcVector"]), seed=seed)
        self.fn = targets.find_one(mf, r"function\.rs.*>::run$", lambda f: f.locals[1].strip() == "&function::BuiltInFunction")

    def encoded_functions(self):
        return {"BuiltInFunction::run (string methods)": {"mir_item": self.fn, "mir_lines": self.mf.func(self.fn).nlines}}

    def summarize(self, method, variant, n, m=0):
        t = time.time()
        _, argk = METHODS[method]
        chars = [z3.BitVec("c%d" % i, 32) for i in range(n)]
        ins = [z3.BitVec("x%d" % i, 32) for i in range(m)] if "Str" in argk else []
        idx = [z3.BitVec("i%d" % i, 32) for i in range(argk.count("Int"))]
        ops = [Adt("Primitive", "Str", [strmodels.sstr([Sc("char", c) for c in chars])])]
        k = 0
        for a in argk:
            if a == "Str":
                ops.append(Adt("Primitive", "Str", [strmodels.sstr([Sc("char", c) for c in ins])]))
            else:
                ops.append(prim("Int", Sc("i32", idx[k])))
                k += 1
        cells = {("ctx",): Adt("Ctx", None, [Adt("Vec", None, ops)] + [Opaque("ctx-field", i) for i in range(1, 6)]),
                 ("self",): Adt("BuiltInFunction", variant, [])}
        pc = [z3.And(z3.UGE(c, LO), z3.ULE(c, HI)) for c in chars + ins]
        outs = self.ex.run(self.fn, [Ref(("self",)), Ref(("ctx",))], cells=cells, pc=pc)
        paths = []
        for o in outs:
            kind, val = _decode(o)
            paths.append((z3.And(*o.pc) if o.pc else z3.BoolVal(True), kind, val))
        return StrSummary(method, variant, n, m, chars, ins, idx, paths, time.time() - t)


def summarize_multibyte(sk, method, variant, widths, ins_widths=()):
    """the same entry point on text of the given UTF-8 width classes (utf8models): used for panic freedom only (C17) - what the
    byte-indexed methods *mean* on multi-byte text is outside the value claim"""
    import utf8models as U
    U.install(sk.ex.models)
    t = time.time()
    _, argk = METHODS[method]
    chars = [z3.BitVec("m%d_%d" % (i, w), 32) for i, w in enumerate(widths)]
    ins = [z3.BitVec("mx%d_%d" % (i, w), 32) for i, w in enumerate(ins_widths)] if "Str" in argk else []
    pc = []
    for c, w in list(zip(chars, widths)) + list(zip(ins, ins_widths)):
        U.register_width(c, w)
        pc += [U.class_constraint(c, w), z3.UGE(c, 0x20)]
    idx = [z3.BitVec("i%d" % i, 32) for i in range(argk.count("Int"))]
    ops = [Adt("Primitive", "Str", [strmodels.sstr([Sc("char", c) for c in chars])])]
    k = 0
    for a_ in argk:
        if a_ == "Str":
            ops.append(Adt("Primitive", "Str", [strmodels.sstr([Sc("char", c) for c in ins])]))
        else:
            ops.append(prim("Int", Sc("i32", idx[k])))
            k += 1
    cells = {("ctx",): Adt("Ctx", None, [Adt("Vec", None, ops)] + [Opaque("ctx-field", i) for i in range(1, 6)]),
             ("self",): Adt("BuiltInFunction", variant, [])}
    outs = sk.ex.run(sk.fn, [Ref(("self",)), Ref(("ctx",))], cells=cells, pc=pc)
    paths = []
    for o in outs:
        pcz = z3.And(*o.pc) if o.pc else z3.BoolVal(True)
        paths.append((pcz, "panic" if o.kind == "panic" else "other", o.value.msg if o.kind == "panic" else None))
    s_ = StrSummary(method, variant, len(widths), len(ins_widths), chars, ins, idx, paths, time.time() - t)
    s_.widths = tuple(widths)
    return s_


def multibyte_shapes(tier):
    import itertools
    out = []
    for m, (variant, argk) in METHODS.items():
        if m in ("len", "reverse"):
            continue
        for n in (1, 2):
            for ws in itertools.product((1, 2, 3, 4), repeat=n):
                if all(w == 1 for w in ws):
                    continue
                out.append((m, variant, ws, (2,) if m == "insert" else ()))
    return out


def check_multibyte_panics(s, profile, qs, timeout_ms, seed):
    out = []
    for pi, (pc, kind, msg) in enumerate(s.paths):
        qs.obligations += 1
        if kind != "panic":
            qs.discharged += 1
            continue
        t = time.time()
        r, m = Q.solve(z3.simplify(pc), timeout_ms, seed)
        qs.solver_s += time.time() - t
        if r == z3.unsat:
            qs.discharged += 1
            continue
        if r != z3.sat:
            qs.undecided.append("str.%s[widths=%s]/%s:path%d" % (s.method, s.widths, profile, pi))
            continue
        qs.violated += 1

        def val(e, d):
            y = m.eval(e, model_completion=False)
            return y.as_long() if z3.is_bv_value(y) else d
        sample = {1: 0x61, 2: 0xE9, 3: 0x4E16, 4: 0x1F600}
        cps = [val(c, sample[w]) for c, w in zip(s.chars, s.widths)]
        xps = [val(c, 0xE9) for c in s.ins]
        iv = [val(e, 0) for e in s.idx]
        text = "".join(chr(c) for c in cps).encode("utf-8")
        args = [("Str", int.from_bytes(text, "big"))]
        k = 0
        for a_ in METHODS[s.method][1]:
            if a_ == "Str":
                args.append(("Str", int.from_bytes("".join(chr(c) for c in xps).encode("utf-8"), "big") if xps else 0))
            else:
                args.append(("Int", iv[k] & 0xFFFFFFFF))
                k += 1
        f = Q.Finding("C17", "str." + s.method, "widths=%s" % "".join(map(str, s.widths)), "panic:" + Q.panic_class(msg), profile, args,
                      "Rust panic `%s` in built-in str.%s on multi-byte text" % (msg, s.method))
        f.native_op = "B:" + s.variant
        f.predicted = ["PANIC"]
        f.via = "built-in"
        f.summ_uninterpreted = False
        f.human = "%r.%s(..%r)" % ("".join(chr(c) for c in cps), s.method, [x - (1 << 32) if x >= 1 << 31 else x for x in iv])
        out.append(f)
    return out


# ---------------------------------------------------------------- meaning
def oracle(s):
    """-> [(condition over the indices, expected value)] covering exactly the method's domain"""
    n, c = s.n, s.chars
    if s.method == "len":
        return [(z3.BoolVal(True), ("Int", z3.BitVecVal(n, 32)))]
    if s.method == "reverse":
        return [(z3.BoolVal(True), ("Str", list(reversed(c))))]
    if s.method == "substring":
        b, t = s.idx
        return [(z3.And(b == i, t == j), ("Str", c[i:j])) for i in range(n + 1) for j in range(i, n + 1)]
    if s.method == "delete":
        b, t = s.idx
        return [(z3.And(b == i, t == j), ("Str", c[:i] + c[j:])) for i in range(n + 1) for j in range(i, n + 1)]
    if s.method == "insert":
        (i_,) = s.idx
        return [(i_ == i, ("Str", c[:i] + s.ins + c[i:])) for i in range(n + 1)]
    if s.method == "split":
        (m_,) = s.idx
        out = [(m_ == k, ("Vector", [c[:k], c[k:]])) for k in range(n)]
        out.append((z3.Or(m_ < 0, m_ >= n), ("Vector", [c, []])))
        return out
    raise ValueError(s.method)


def _eq(a, b):
    if a[0] != b[0]:
        return z3.BoolVal(False)
    if a[0] == "Int":
        return a[1] == b[1]
    if a[0] == "Str":
        if len(a[1]) != len(b[1]):
            return z3.BoolVal(False)
        return z3.And(*[x == y for x, y in zip(a[1], b[1])]) if a[1] else z3.BoolVal(True)
    if len(a[1]) != len(b[1]):
        return z3.BoolVal(False)
    return z3.And(*[_eq(("Str", x), ("Str", y)) for x, y in zip(a[1], b[1])])


# ---------------------------------------------------------------- concrete evaluation / native vectors
def _text(vals):
    return bytes(vals).decode("ascii")


def _strbits(text):
    return int.from_bytes(text.encode(), "big") if text else 0


def native_args(s, cv, xv, iv):
    """operand list in the vocabulary of the native harness"""
    args = [("Str", _strbits(_text(cv)))]
    k = 0
    for a in METHODS[s.method][1]:
        if a == "Str":
            args.append(("Str", _strbits(_text(xv))))
        else:
            args.append(("Int", iv[k] & 0xFFFFFFFF))
            k += 1
    return args


def _subs(s, cv, xv, iv):
    return [(e, z3.BitVecVal(v, 32)) for e, v in list(zip(s.chars, cv)) + list(zip(s.ins, xv)) + list(zip(s.idx, iv))]


def _show(val, subs):
    def txt(es):
        return "".join("%02x" % z3.simplify(z3.substitute(e, *subs)).as_long() for e in es)
    if val[0] == "Int":
        return ["OK", "Int", z3.simplify(z3.substitute(val[1], *subs)).as_long()]
    if val[0] == "Str":
        return ["OK", "Str", txt(val[1])]
    return ["OK", "Vector", ",".join("Str:" + txt(x) for x in val[1])]


def eval_summary(s, cv, xv, iv):
    """what engine B predicts the real code returns on concrete operands (result in the native harness' vocabulary)"""
    subs = _subs(s, cv, xv, iv)
    hits = []
    for pc, kind, val in s.paths:
        if z3.is_true(z3.simplify(z3.substitute(pc, *subs))):
            hits.append(["PANIC"] if kind == "panic" else ["ERR"] if kind == "err" else _show(val, subs))
    if not hits or any(h != hits[0] for h in hits):
        raise Inconclusive("%s[%s]: %d paths enabled on %r %r %r" % (s.method, s.arm, len(hits), cv, xv, iv))
    return hits[0]


def norm_native(r):
    r = list(r)
    if r and r[0] == "OK" and len(r) == 2:
        r.append("")
    return r


def grid(s):
    base = [0x61 + i for i in range(s.n)]
    alt = [0x7E - i for i in range(s.m)]
    n = s.n
    ivals = sorted({-1, 0, 1, n - 1, n, n + 1, 2, 0x7FFFFFFF, -0x80000000} - {-2})
    k = len(s.idx)
    if k == 0:
        return [(base, alt, [])]
    if k == 1:
        return [(base, alt, [i]) for i in ivals]
    return [(base, alt, [i, j]) for i in ivals for j in ivals]


def validate(summaries, nat_eval, release):
    vecs, want = [], {}
    for si, s in enumerate(summaries):
        for gi, (cv, xv, iv) in enumerate(grid(s)):
            vid = "s%d_%d" % (si, gi)
            vecs.append((vid, "B:" + s.variant, native_args(s, cv, xv, iv)))
            want[vid] = (s, cv, xv, iv)
    res = nat_eval(vecs, release)
    mism = []
    for vid, (s, cv, xv, iv) in want.items():
        pred = eval_summary(s, cv, xv, iv)
        got = norm_native(res[vid])
        if pred != got:
            mism.append((s.method, s.arm, _text(cv), _text(xv), iv, "engine", pred, "real", got))
    return len(vecs), mism


# ---------------------------------------------------------------- obligations
def _witness(s, model):
    def val(e, dflt):
        v = model.eval(e, model_completion=False)
        return v.as_long() if z3.is_bv_value(v) else dflt
    cv = [val(c, 0x61 + i) for i, c in enumerate(s.chars)]
    xv = [val(c, 0x78) for c in s.ins]
    iv = []
    for e in s.idx:
        v = val(e, 0)
        iv.append(v - (1 << 32) if v >= 1 << 31 else v)
    return cv, xv, iv


def check_summary(s, profile, qs, timeout_ms, seed, prop):
    """prop == 'C14': every Ok result is the defined value, and no in-domain call fails; prop == 'C17': no feasible path panics"""
    out = []
    orc = oracle(s)
    domain = z3.Or(*[c for c, _ in orc])
    lab0 = "str.%s[%s]/%s" % (s.method, s.arm, profile)

    def ask(cond, label):
        qs.obligations += 1
        t = time.time()
        c = z3.simplify(cond)
        if z3.is_false(c):
            qs.discharged += 1
            return None
        r, m = Q.solve(c, timeout_ms, seed)
        qs.solver_s += time.time() - t
        if r == z3.unsat:
            qs.discharged += 1
            if len(qs.samples) < 12 and "str." in label:
                qs.samples.append({"obligation": label, "result": "unsat", "smt_size": len(c.sexpr())})
            return None
        if r == z3.sat:
            qs.violated += 1
            return _witness(s, m)
        qs.undecided.append(label)
        return None

    def finding(cls, w, detail):
        cv, xv, iv = w
        f = Q.Finding(prop, "str." + s.method, s.arm, cls, profile, native_args(s, cv, xv, iv), detail)
        f.native_op = "B:" + s.variant
        f.predicted = eval_summary(s, cv, xv, iv)
        f.via = "built-in"
        f.summ_uninterpreted = False
        f.human = "%r.%s(%s)" % (_text(cv), s.method, ", ".join([repr(_text(xv))] * (1 if s.ins or "Str" in METHODS[s.method][1] else 0) + [str(i) for i in iv]))
        return f

    for pi, (pc, kind, val) in enumerate(s.paths):
        lab = "%s:path%d" % (lab0, pi)
        if prop == "C17":
            if kind == "panic":
                w = ask(pc, lab + ":no-panic")
                if w:
                    out.append(finding("panic:" + Q.panic_class(val), w, "Rust panic `%s` in built-in str.%s" % (val, s.method)))
            else:
                qs.obligations += 1
                qs.discharged += 1
            continue
        if kind == "ok":
            good = z3.Or(*[z3.And(c, _eq(val, exp)) for c, exp in orc])
            w = ask(z3.And(pc, z3.Not(good)), lab + ":ok=>defined-value")
            if w:
                subs = _subs(s, *w)
                indom = z3.is_true(z3.simplify(z3.substitute(domain, *subs)))
                out.append(finding("wrong-value" if indom else "ok-on-undefined:range", w,
                                   "the result differs from the method's meaning" if indom else "a value is produced although the indices are outside the method's domain"))
        else:
            w = ask(z3.And(pc, domain), lab + ":fail=>outside-domain")
            if w:
                out.append(finding("spurious-failure", w, "the call fails (%s) although the indices are inside the method's domain" % kind))
    return out
