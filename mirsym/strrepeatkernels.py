"""String repetition `s * n` / `n * s` (C14): the real `impl Mul for &Primitive` on a symbolic-character string and a count of kind
int or bigint holding ANY value of its kind.

`str::repeat(n)` is a contract model: for n <= RMAX the concrete repetition, for larger n an opaque term `repeat(s, n)` that keeps
the count (the length of a huge result is not materialised).  Meaning: defined iff 0 <= n < 2^64 (the count must be the operand's
value, not a truncation of it); the result is s repeated n times; otherwise the operation fails.  No path may panic (C17) -
`repeat`'s own capacity-overflow abort for astronomically large results is outside (it needs n * len >= 2^63).
"""
import re, time
import z3
import sym, models, strmodels, stridx, gcmodels, utf8models as U, targets
import opcheck as Q
from sym import Sc, Adt, Ref, Opaque, Inconclusive, INT_TYPES
from opkernels import CRATE_PREFIXES, prim, sym_payload, KTY, FN_PATTERNS

RMAX = 3
LMAX = {"quick": 2, "thorough": 3}
SHAPES = [("Str", "Int"), ("Str", "BigInt"), ("Int", "Str"), ("BigInt", "Str")]


def m_repeat(ex, st, callee, args):
    s_ = strmodels.need(ex, st, args[0], callee)
    n = models.scalar(ex, st, args[1])
    out = [(n.e == k, strmodels.sstr(list(s_.fields) * k)) for k in range(RMAX + 1)]
    out.append((z3.UGT(n.e, RMAX), Opaque("repeat", (s_, n))))
    return out


class RepSummary:
    def __init__(self, shape, n, chars, cnt, kind, paths, fn, dt):
        self.shape, self.n, self.chars, self.cnt, self.kind, self.paths, self.fn, self.seconds = shape, n, chars, cnt, kind, paths, fn, dt

    @property
    def arm(self):
        return "%s*%s,len=%d" % (self.shape[0], self.shape[1], self.n)


class RepeatKernels:
    def __init__(self, mf, overflow_checks, repo, seed=0):
        self.mf = mf
        targets.register_primitive_enum(repo)
        m = U.install(stridx.install(strmodels.install(models.base_models())))
        m.table = [(re.compile(r"^(core::)?str::<impl str>::repeat$|^String::repeat$"), m_repeat)] + m.table
        m.cache.clear()
        self.ex = gcmodels.install_drop_hooks(sym.Executor(mf, overflow_checks, m, targets.generic_resolver(mf, CRATE_PREFIXES + ["GcVector"]), seed=seed))
        self.fn = targets.find_one(mf, FN_PATTERNS["mul"], targets.by_ref_args)

    def encoded_functions(self):
        return {"impl Mul for &Primitive (string repetition arms)": {"mir_item": self.fn, "mir_lines": self.mf.func(self.fn).nlines}}

    def summarize(self, shape, n):
        t = time.time()
        chars = [z3.BitVec("c%d" % i, 32) for i in range(n)]
        pc = []
        for c in chars:
            U.register_width(c, 1)
            pc.append(z3.And(z3.UGE(c, 0x20), z3.ULE(c, 0x7E)))
        kind = shape[0] if shape[1] == "Str" else shape[1]
        cnt = sym_payload(kind, "n")
        sval = Adt("Primitive", "Str", [strmodels.sstr([Sc("char", c) for c in chars])])
        vals = [sval if k == "Str" else prim(kind, cnt) for k in shape]
        cells = {("in", i): v for i, v in enumerate(vals)}
        outs = self.ex.run(self.fn, [Ref(("in", 0)), Ref(("in", 1))], cells=cells, pc=pc)
        paths = []
        for o in outs:
            pcz = z3.And(*o.pc) if o.pc else z3.BoolVal(True)
            if o.kind == "panic":
                paths.append((pcz, "panic", o.value.msg))
                continue
            v = o.value
            if v.variant == "Err":
                paths.append((pcz, "err", None))
                continue
            p = v.fields[0]
            if not (isinstance(p, Adt) and p.variant == "Str"):
                raise Inconclusive("repetition returned %r" % (p,))
            r = p.fields[0]
            if strmodels.is_sstr(r):
                paths.append((pcz, "ok", ("chars", [c.e for c in r.fields])))
            elif isinstance(r, Opaque) and r.tag == "repeat":
                paths.append((pcz, "ok", ("repeat", [c.e for c in r.data[0].fields], r.data[1].e)))
            else:
                raise Inconclusive("repetition returned %r" % (r,))
        return RepSummary(shape, n, chars, cnt, kind, paths, self.fn, time.time() - t)


def shapes(tier):
    return [(sh, n) for sh in SHAPES for n in range(LMAX.get(tier, 2) + 1)]


def _value128(s):
    bits, signed = INT_TYPES[KTY[s.kind]]
    return z3.SignExt(128 - bits, s.cnt.e) if bits < 128 else s.cnt.e


def native_args(s, cv, nv):
    bits, _ = INT_TYPES[KTY[s.kind]]
    text = bytes(cv)
    sarg = ("Str", int.from_bytes(text, "big") if text else 0)
    narg = (s.kind, nv & ((1 << bits) - 1))
    return [sarg if k == "Str" else narg for k in s.shape]


def eval_summary(s, cv, nv):
    bits, _ = INT_TYPES[KTY[s.kind]]
    subs = [(c, z3.BitVecVal(v, 32)) for c, v in zip(s.chars, cv)] + [(s.cnt.e, z3.BitVecVal(nv, bits))]
    hits = []
    for pc, kind, val in s.paths:
        if z3.is_true(z3.simplify(z3.substitute(pc, *subs))):
            if kind != "ok":
                hits.append(["PANIC"] if kind == "panic" else ["ERR"])
            elif val[0] == "chars":
                hits.append(["OK", "Str", bytes(z3.simplify(z3.substitute(e, *subs)).as_long() for e in val[1]).hex()])
            else:
                hits.append(["OK", "Str", "<repeat x%d>" % z3.simplify(z3.substitute(val[2], *subs)).as_long()])
    if not hits or any(h != hits[0] for h in hits):
        raise Inconclusive("repeat[%s]: %d paths enabled" % (s.arm, len(hits)))
    return hits[0]


def norm_native(r):
    r = list(r)
    if r and r[0] == "OK" and len(r) == 2:
        r.append("")
    return r


def validate(summaries, nat_eval, release):
    vecs, want = [], {}
    for si, s in enumerate(summaries):
        bits, _ = INT_TYPES[KTY[s.kind]]
        cv = [0x61 + i for i in range(s.n)]
        ns = {0, 1, 2, 3, (1 << bits) - 1, 1 << (bits - 1)}
        if s.n == 0:
            ns |= {5, 1000}
        if bits > 64 and s.n == 0:
            ns |= {1 << 64, (1 << 64) + 2}
        for gi, nv in enumerate(sorted(ns)):
            vid = "q%d_%d" % (si, gi)
            vecs.append((vid, "mul", native_args(s, cv, nv)))
            want[vid] = (s, cv, nv)
    res = nat_eval(vecs, release)
    mism = []
    for vid, (s, cv, nv) in want.items():
        pred = eval_summary(s, cv, nv)
        got = norm_native(res[vid])
        if pred[0] == "OK" and pred[2].startswith("<repeat"):
            # a repetition beyond RMAX: only the empty string is replayed at such counts (the result stays empty)
            pred = ["OK", "Str", ""] if s.n == 0 else pred
        if pred != got:
            mism.append((s.arm, cv, hex(nv), "engine", pred, "real", got))
    return len(vecs), mism


def check_summary(s, profile, qs, timeout_ms, seed, prop):
    out = []
    v128 = _value128(s)
    defined = z3.And(v128 >= 0, v128 < z3.BitVecVal(1 << 64, 128))
    lab0 = "str.repeat[%s]/%s" % (s.arm, profile)

    def ask(cond, label, prefer=None):
        qs.obligations += 1
        t = time.time()
        c = z3.simplify(cond)
        if z3.is_false(c):
            qs.discharged += 1
            return None
        r, m = (z3.unknown, None)
        if prefer is not None:
            r, m = Q.solve(z3.And(c, prefer), timeout_ms, seed)
        if r != z3.sat:
            r, m = Q.solve(c, timeout_ms, seed)
        qs.solver_s += time.time() - t
        if r == z3.unsat:
            qs.discharged += 1
            if len(qs.samples) < 12:
                qs.samples.append({"obligation": label, "result": "unsat", "smt_size": len(c.sexpr())})
            return None
        if r == z3.sat:
            qs.violated += 1
            cv = []
            for i, c_ in enumerate(s.chars):
                y = m.eval(c_, model_completion=False)
                cv.append(y.as_long() if z3.is_bv_value(y) else 0x61 + i)
            return cv, m.eval(s.cnt.e, model_completion=True).as_long()
        qs.undecided.append(label)
        return None

    def finding(cls, w, detail):
        cv, nv = w
        bits, signed = INT_TYPES[KTY[s.kind]]
        f = Q.Finding(prop, "str.repeat", s.arm, cls, profile, native_args(s, cv, nv), detail)
        f.native_op = "mul"
        pred = eval_summary(s, cv, nv)
        f.predicted = None if (pred[0] == "OK" and pred[2].startswith("<repeat")) else pred
        f.via = "function"
        f.summ_uninterpreted = False
        sv = nv - (1 << bits) if nv >= 1 << (bits - 1) else nv
        f.human = "%r * %s %d" % (bytes(cv).decode(), s.kind, sv)
        return f

    for pi, (pc, kind, val) in enumerate(s.paths):
        lab = "%s:path%d" % (lab0, pi)
        if prop == "C17":
            if kind == "panic":
                w = ask(pc, lab + ":no-panic")
                if w is not None:
                    out.append(finding("panic:" + Q.panic_class(val), w, "Rust panic `%s` in string repetition" % val))
            else:
                qs.obligations += 1
                qs.discharged += 1
            continue
        if kind == "ok":
            if val[0] == "chars":
                L = len(s.chars)
                reps = [z3.And(v128 == k, z3.BoolVal(len(val[1]) == L * k), *[val[1][j] == s.chars[j % L] for j in range(len(val[1]))] if len(val[1]) == L * k else [])
                        for k in range(RMAX + 1)]
                good = z3.And(defined, z3.Or(*reps))
            else:
                good = z3.And(defined, z3.ZeroExt(64, val[2]) == v128, z3.BoolVal(len(val[1]) == len(s.chars)),
                              *[a == b for a, b in zip(val[1], s.chars)])
            bad = z3.And(pc, z3.Not(good))
            if val[0] == "repeat" and s.n:
                # the witness is replayed on the real code: the count that really reaches `repeat` must stay small enough to allocate
                small = z3.And(bad, z3.ULE(val[2], 4096))
                r0, _ = Q.solve(z3.simplify(bad), timeout_ms, seed)
                r1, _ = Q.solve(z3.simplify(small), timeout_ms, seed)
                if r0 == z3.sat and r1 != z3.sat:
                    qs.obligations += 1
                    qs.undecided.append(lab + ":ok=>s-repeated-n-times (violated only by counts too large to replay)")
                    continue
                bad = small if r0 == z3.sat else bad
            w = ask(bad, lab + ":ok=>s-repeated-n-times")
            if w is not None:
                bits, _ = INT_TYPES[KTY[s.kind]]
                indom = z3.is_true(z3.simplify(z3.substitute(defined, (s.cnt.e, z3.BitVecVal(w[1], bits)))))
                out.append(finding("wrong-value" if indom else "ok-on-undefined:range", w,
                                   "the result is not the string repeated n times" if indom else "a value is produced although the count is negative or not representable"))
        else:
            w = ask(z3.And(pc, defined), lab + ":fail=>count-invalid", prefer=v128 <= 3)
            if w is not None:
                out.append(finding("spurious-failure", w, "repetition fails (%s) although the count is a valid size" % kind))
    return out
