"""C19 (kernel): `call_lib` hands the operand stack, in order and unchanged, to the named function of the named library and
delivers its result or its failure.

Two pieces of real code are executed from their MIR:
 (a) the instruction `call_lib <lib> <fn>` on an operand stack of 0..N symbolic values: it must signal exactly one
     `JumpRequest { destination: Library { lib_name, func_name }, arguments }` whose `arguments` are the operand stack in order
     (same values), clear the operand stack and succeed;
 (b) `Program::process_library_jump_request(lib, fn, args)` against an ENVIRONMENT STUB of the `libloading` crate:
     `Library::new` and `Library::get` each succeed or fail (arbitrary), the loaded symbol is an opaque function pointer, and calling
     it is a recorded effect returning an arbitrary `ReturnValue`.  Obligations: library or symbol missing => `Err` and the foreign
     function is NOT called; otherwise it is called exactly once, with the given argument slice itself (same reference, hence in
     order and unchanged), after being looked up under `fn` in the library opened as `lib`, and its return value is returned as is.
The third step - `Function::run` pushing `Value(v)` / failing on `FFIError(msg)` - sits inside the interpreter loop and is outside.
"""
import re, time
import z3
import sym, models, strmodels, stridx, gcmodels, utf8models as U, targets
import opcheck as Q
from sym import Sc, Adt, Ref, Opaque, Inconclusive, UNIT
from opkernels import CRATE_PREFIXES, prim
from models import ok, err

NMAX = {"quick": 3, "thorough": 4}
# concrete library names the dispatch kernel is run with: plain, versioned (two suffixes), no extension, foreign extension
LIBNAMES = ["lib.so", "lib.so.1", "plugin", "dir.d/plugin.dll"]


def _v(ex, st, v, depth=6):
    n = 0
    while isinstance(v, Ref) and n < depth:
        v = ex.read(st, v.cell, v.path)
        n += 1
    return v


def _lit(v):
    return v.data.strip('"') if isinstance(v, Opaque) and v.tag == "strlit" else None


def m_library_new(ex, st, callee, args):
    name = _v(ex, st, args[0])
    f = ex.fresh("bool", "dlopen_fails").e
    st.effects.append(("dlopen", name))
    return [(z3.Not(f), ok(Adt("Library", None, [name]))), (f, err(Opaque("libloading::Error", "open")))]


def m_library_get(ex, st, callee, args):
    lib = _v(ex, st, args[0])
    sym_bytes = _v(ex, st, args[1])
    f = ex.fresh("bool", "dlsym_fails").e
    st.effects.append(("dlsym", lib, sym_bytes))
    return [(z3.Not(f), ok(Adt("Symbol", None, [Opaque("foreign-fn", (lib, sym_bytes))]))), (f, err(Opaque("libloading::Error", "symbol")))]


def m_symbol_deref(ex, st, callee, args):
    r = args[0]
    v = ex.read(st, r.cell, r.path)
    n = 0
    while isinstance(v, Ref) and n < 4:
        r = v
        v = ex.read(st, r.cell, r.path)
        n += 1
    if not (isinstance(v, Adt) and v.ty == "Symbol"):
        raise Inconclusive("Symbol deref on %r" % (v,))
    return [(None, Ref(r.cell, r.path + (0,)))]


def m_foreign_call(ex, st, callee, args):
    """the foreign function: recorded, returns an arbitrary ReturnValue"""
    fn, argv = args[0], args[1:]
    st.effects.append(("foreign-call", fn, tuple(argv)))
    k = ex.fresh("u8", "ffi_result_kind").e
    val = ex.fresh("i32", "ffi_value")
    return [(k == 0, Adt("ReturnValue", "Value", [prim("Int", val)])), (k == 1, Adt("ReturnValue", "NoValue", [])),
            (z3.UGE(k, 2), Adt("ReturnValue", "FFIError", [Opaque("String", "ffi-message")]))]


def m_path_identity(ex, st, callee, args):
    return [(None, args[0])]


def m_with_extension(ex, st, callee, args):
    """Path::with_extension on a literal path and a literal extension (std documentation: replaces what follows the last `.` of
    the file name, or appends `.ext` when the file name has none / starts with its only dot)"""
    pth, ext = _lit(_v(ex, st, args[0])), _lit(_v(ex, st, args[1]))
    if pth is None or ext is None:
        raise Inconclusive("with_extension on non-literal operands")
    d, sep, name = pth.rpartition("/")
    i = name.rfind(".")
    stem = name if i <= 0 else name[:i]
    new = stem + ("." + ext if ext else "")
    return [(None, Opaque("strlit", '"%s"' % (d + sep + new)))]


def install(m):
    pre = [(r"^libloading::Library::new::<", m_library_new),
           (r"^(std::path::)?Path::new::<", m_path_identity),
           (r"^(std::path::)?Path::with_extension::<", m_with_extension),
           (r"^<(std::path::)?PathBuf as (Deref|AsRef<.*>)>::(deref|as_ref)$", m_path_identity),
           (r"^libloading::Library::get::<", m_library_get),
           (r"^<libloading::Symbol<.*> as Deref>::deref$", m_symbol_deref),
           (r"^fnptr:foreign-fn$", m_foreign_call)]
    m.table = [(re.compile(p), h) for p, h in pre] + m.table
    m.cache.clear()
    return m


class FfiKernels:
    def __init__(self, mf, overflow_checks, repo, seed=0):
        import os
        self.mf = mf
        targets.register_primitive_enum(repo)
        targets.register_enum_from_source(os.path.join(repo, "bytecode/src/function.rs"), "ReturnValue")
        m = install(U.install(stridx.install(strmodels.install(models.base_models()))))
        self.ex = gcmodels.install_drop_hooks(sym.Executor(mf, overflow_checks, m, targets.generic_resolver(mf, CRATE_PREFIXES + ["GcVector", "Program", "interpreter::"]), seed=seed))
        self.call_lib = targets.find_one(mf, r"^(implementations::)?call_lib$")
        self.plj = targets.find_one(mf, r"interpreter\.rs.*>::process_library_jump_request$")

    def encoded_functions(self):
        return {"instruction call_lib": {"mir_item": self.call_lib, "mir_lines": self.mf.func(self.call_lib).nlines},
                "Program::process_library_jump_request": {"mir_item": self.plj, "mir_lines": self.mf.func(self.plj).nlines}}

    def run_call_lib(self, n, with_names=True):
        vals = [z3.BitVec("a%d" % i, 32) for i in range(n)]
        ops = [prim("Int", Sc("i32", v)) for v in vals]
        iargs = [Opaque("strlit", '"lib.so"'), Opaque("strlit", '"fname"')] if with_names else [Opaque("strlit", '"lib.so"')]
        cells = {("ctx",): Adt("Ctx", None, [Adt("Vec", None, ops)] + [Opaque("ctx-field", i) for i in range(1, 6)]),
                 ("iargs",): Adt("[]", None, iargs)}
        return vals, self.ex.run(self.call_lib, [Ref(("ctx",)), Ref(("iargs",))], cells=cells)

    def run_plj(self, n, libname="lib.so"):
        vals = [z3.BitVec("a%d" % i, 32) for i in range(n)]
        cells = {("lib",): Opaque("strlit", '"%s"' % libname), ("fn",): Opaque("strlit", '"fname"'),
                 ("args",): Adt("[]", None, [prim("Int", Sc("i32", v)) for v in vals])}
        return vals, self.ex.run(self.plj, [Ref(("lib",)), Ref(("fn",)), Ref(("args",))], cells=cells)


def _solve(cond, qs, label, timeout_ms, seed):
    """-> 'unsat' | 'sat' | 'unknown'"""
    qs.obligations += 1
    t = time.time()
    c = z3.simplify(cond)
    if z3.is_false(c):
        qs.discharged += 1
        return "unsat"
    r, _ = Q.solve(c, timeout_ms, seed)
    qs.solver_s += time.time() - t
    if r == z3.unsat:
        qs.discharged += 1
        if len(qs.samples) < 10:
            qs.samples.append({"obligation": label, "result": "unsat"})
        return "unsat"
    if r == z3.sat:
        qs.violated += 1
        return "sat"
    qs.undecided.append(label)
    return "unknown"


def check_call_lib(fk, n, profile, qs, timeout_ms, seed):
    """-> list of (class, detail)"""
    bad = []
    vals, outs = fk.run_call_lib(n)
    for pi, o in enumerate(outs):
        pcz = z3.And(*o.pc) if o.pc else z3.BoolVal(True)
        lab = "call_lib[args=%d]/%s:path%d" % (n, profile, pi)
        problem = None
        if o.kind == "panic":
            problem = ("panic", "Rust panic `%s`" % o.value.msg)
        elif o.value.variant != "Ok":
            problem = ("fails", "call_lib fails although library and function names are given")
        else:
            sig = [e for e in o.effects if e[0] == "signal"]
            stack = o.cells[("ctx",)].fields[0]
            if len(sig) != 1:
                problem = ("no-single-request", "%d jump requests signalled" % len(sig))
            else:
                req = sig[0][1][0]
                while isinstance(req, Adt) and len(req.fields) == 1 and isinstance(req.fields[0], Adt):
                    req = req.fields[0]
                dest, _, _, argv = req.fields
                if not (isinstance(dest, Adt) and "Library" in (dest.variant, dest.ty) and _lit(dest.fields[0]) == "lib.so" and _lit(dest.fields[1]) == "fname"):
                    problem = ("wrong-destination", "the request does not name library `lib.so` / function `fname`: %r" % (dest,))
                elif len(argv.fields) != n:
                    problem = ("arguments-dropped", "%d arguments passed for %d operands" % (len(argv.fields), n))
                elif len(stack.fields) != 0:
                    problem = ("stack-not-cleared", "the operand stack still holds %d values" % len(stack.fields))
                else:
                    same = z3.And(*[a.variant == "Int" and a.fields[0].e == v for a, v in zip(argv.fields, vals)]) if n else z3.BoolVal(True)
                    if _solve(z3.And(pcz, z3.Not(same)), qs, lab + ":arguments-in-order", timeout_ms, seed) == "sat":
                        bad.append(("arguments-changed", "the arguments of the request are not the operand stack in order", n))
                    continue
        if _solve(pcz, qs, lab + ":" + problem[0], timeout_ms, seed) == "sat":
            bad.append((problem[0], problem[1], n))
    # without a function name the instruction must fail (and signal nothing)
    _, outs = fk.run_call_lib(n, with_names=False)
    for pi, o in enumerate(outs):
        pcz = z3.And(*o.pc) if o.pc else z3.BoolVal(True)
        okk = o.kind == "return" and o.value.variant == "Err" and not [e for e in o.effects if e[0] == "signal"]
        if _solve(z3.BoolVal(False) if okk else pcz, qs, "call_lib[args=%d,no function name]/%s:path%d" % (n, profile, pi), timeout_ms, seed) == "sat":
            bad.append(("accepts-missing-name", "call_lib without a function name does not fail cleanly", n))
    return bad


def check_plj(fk, n, profile, qs, timeout_ms, seed):
    bad = []
    for libname in (LIBNAMES if n <= 1 else LIBNAMES[:1]):
        bad += check_plj_named(fk, n, libname, profile, qs, timeout_ms, seed)
    return bad


def check_plj_named(fk, n, libname, profile, qs, timeout_ms, seed):
    bad = []
    vals, outs = fk.run_plj(n, libname)
    seen_call = False
    for pi, o in enumerate(outs):
        pcz = z3.And(*o.pc) if o.pc else z3.BoolVal(True)
        lab = "ffi-dispatch[args=%d,lib=%s]/%s:path%d" % (n, libname, profile, pi)
        opens = [e for e in o.effects if e[0] == "dlopen"]
        syms = [e for e in o.effects if e[0] == "dlsym"]
        calls = [e for e in o.effects if e[0] == "foreign-call"]
        from z3 import z3util
        flags = {str(x): x for x in z3util.get_vars(pcz) if z3.is_bool(x)}
        env_failed = z3.Or(*[x for name, x in flags.items() if "dlopen_fails" in name or "dlsym_fails" in name]) if flags else z3.BoolVal(False)
        problem = None
        if o.kind == "panic":
            problem = ("panic", "Rust panic `%s`" % o.value.msg)
        elif o.value.variant == "Err":
            # an error is legitimate only if the environment failed, and then the foreign function must not have been called
            if calls:
                problem = ("called-then-failed", "the foreign function was called although the result is an error")
            elif _solve(z3.And(pcz, z3.Not(env_failed)), qs, lab + ":fails-only-if-missing", timeout_ms, seed) == "sat":
                bad.append(("spurious-failure", "the FFI call fails although library and symbol were found", n))
                continue
            else:
                continue
        else:
            seen_call = True
            rv = o.value.fields[0]
            if len(opens) != 1 or _lit(opens[0][1]) != libname:
                problem = ("wrong-library", "the library opened is not the one named (`%s`): %r" % (libname, [_lit(e[1]) or e[1] for e in opens]))
            elif len(syms) != 1 or not (isinstance(syms[0][1], Adt) and _lit(syms[0][1].fields[0]) == libname):
                problem = ("wrong-symbol-lookup", "the symbol is not looked up in the opened library")
            elif bytes(z3.simplify(b.e).as_long() for b in syms[0][2].fields) != b"fname":
                problem = ("wrong-symbol-name", "the symbol looked up is not the function named")
            elif len(calls) != 1:
                problem = ("not-called-once", "the foreign function is called %d times" % len(calls))
            elif not (len(calls[0][2]) == 1 and isinstance(calls[0][2][0], Ref) and calls[0][2][0].cell == ("args",) and calls[0][2][0].path == ()):
                problem = ("arguments-not-passed-through", "the foreign function does not receive the caller's argument slice itself")
            else:
                # the value returned is the foreign function's return value (same variant, same payload)
                qs.obligations += 1
                qs.discharged += 1
                kinds = [str(x) for x in z3util.get_vars(pcz) if "ffi_result_kind" in str(x)]
                if not kinds:
                    problem = ("result-not-returned", "the result does not depend on what the foreign function returned")
                else:
                    kvar = [x for x in z3util.get_vars(pcz) if "ffi_result_kind" in str(x)][0]
                    swallowed = False
                    for vname, cond in (("Value", kvar == 0), ("NoValue", kvar == 1), ("FFIError", z3.UGE(kvar, 2))):
                        if rv.variant != vname and _solve(z3.And(pcz, cond), qs, lab + ":returns-what-the-foreign-function-returned:" + vname, timeout_ms, seed) == "sat":
                            bad.append(("result-changed", "the foreign function returned %s but %s is delivered" % (vname, rv.variant), n))
                            swallowed = True
                    if swallowed:
                        continue
                    if rv.variant == "Value":
                        inner = rv.fields[0]
                        vv = [x for x in z3util.get_vars(inner.fields[0].e)] if inner.variant == "Int" else []
                        if not (len(vv) == 1 and "ffi_value" in str(vv[0]) and z3.is_true(z3.simplify(inner.fields[0].e == vv[0]))):
                            problem = ("result-changed", "the value returned is not the foreign function's value")
                    if problem is None:
                        continue
        if _solve(pcz, qs, lab + ":" + problem[0], timeout_ms, seed) == "sat":
            bad.append((problem[0], problem[1], n))
    if not seen_call:
        raise Inconclusive("vacuity: no path of process_library_jump_request reaches the foreign call")
    return bad
