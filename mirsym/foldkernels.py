"""Constant-folding kernels of the compiler (engine B): `impl {Add..BitXor} for &Number`, `Number::negate`,
`impl CompileTimeEvaluate for Number` executed symbolically over the compiler crate's MIR with abstract decimal strings."""
import os, time
import z3
import sym, models, targets, decmodels
from sym import Sc, Adt, Ref, Opaque, Inconclusive, INT_TYPES, F64
from opkernels import Path, Summary, sym_payload, KTY

NUM_KIND = {"Int": "Integer", "BigInt": "BigInt", "Float": "Float", "Byte": "Byte"}
KIND_OF_NUM = {v: k for k, v in NUM_KIND.items()}
FOLD_OPS = {"add": "add", "sub": "sub", "mul": "mul", "div": "div", "rem": "rem", "shl": "shl", "shr": "shr",
            "bitand": "bitand", "bitor": "bitor", "bitxor": "bitxor"}
CRATE_PREFIXES = ["ast::", "string_arithmetic::", "Number", "parser::", "scope::", "Expr", "Value", "ConstexprEvaluation", "TypeLayout", "&Number", "TypecheckFlags", "NativeType"]
STATIC_OP = {"add": "Add", "sub": "Subtract", "mul": "Multiply", "div": "Divide", "rem": "Modulo", "shl": "BitwiseLs", "shr": "BitwiseRs",
             "bitand": "BinaryAnd", "bitor": "BinaryOr", "bitxor": "BinaryXor"}


def boxed(cells, key, value):
    """Box<T> as rustc lays it out in MIR: Box(Unique(NonNull = pointer to the heap cell))"""
    cells[key] = value
    return Adt("Box", None, [Adt("Unique", None, [Ref(key)]), Adt("Global", None, [])])


def number(kind, payload):
    return Adt("Number", NUM_KIND[kind], [decmodels.dec(KTY[kind], payload.e)])


class FoldKernels:
    def __init__(self, mf, repo, seed=0):
        self.mf = mf
        targets.register_enum_from_source(os.path.join(repo, "compiler/src/ast/number.rs"), "Number")
        if sym.ENUMS["Number"] != ["Integer", "BigInt", "Float", "Byte"]:
            # any order is fine (the table is read from source); this is only a sanity check of the source parser
            if sorted(sym.ENUMS["Number"]) != sorted(["Integer", "BigInt", "Float", "Byte"]):
                raise Inconclusive("unexpected Number variants: %r" % sym.ENUMS["Number"])
        m = decmodels.install(models.base_models())
        # the folder never overflows silently: it is compiled like any other crate code; checked_* are explicit
        self.ex = sym.Executor(mf, True, m, targets.generic_resolver(mf, CRATE_PREFIXES), seed=seed)
        self.fn = {}
        for op in FOLD_OPS:
            self.fn[op] = targets.find_one(mf, r"^string_arithmetic::<impl at .*number\.rs.*>::%s(#\d+)?$" % op,
                                           lambda f: f.nargs == 2 and f.locals[1].strip() == "&Number")
        src = os.path.join(repo, "compiler/src/ast")
        targets.register_enum_from_source(os.path.join(src, "math_expr.rs"), "Expr")
        targets.register_enum_from_source(os.path.join(src, "math_expr.rs"), "Op")
        targets.register_enum_from_source(os.path.join(src, "value.rs"), "Value")
        targets.register_enum_from_source(os.path.join(src, "value.rs"), "ConstexprEvaluation")
        targets.register_enum_from_source(os.path.join(src, "type.rs"), "TypeLayout")
        targets.register_enum_from_source(os.path.join(src, "type.rs"), "NativeType")
        self.fn["expr"] = targets.find_one(mf, r"math_expr\.rs.*>::try_constexpr_eval$", lambda f: f.locals[1].strip() == "&Expr")
        self.fn["negate"] = targets.find_one(mf, r"number\.rs.*>::negate$")
        self.fn["widen"] = targets.find_one(mf, r"number\.rs.*>::try_constexpr_eval$", lambda f: f.locals[1].strip() == "&Number")

    def encoded_functions(self):
        return {op: {"mir_item": n, "mir_lines": self.mf.func(n).nlines} for op, n in self.fn.items()}

    def summarize(self, op, kinds):
        """folder outcome per path: Path(outcome ok|err|panic, rkind = run-time kind name of the produced Number, rval = dec term)"""
        t = time.time()
        names = ["a", "b"]
        inputs = [sym_payload(k, names[i]) for i, k in enumerate(kinds)]
        cells = {("in", i): number(k, inputs[i]) for i, k in enumerate(kinds)}
        outs = self.ex.run(self.fn[op], [Ref(("in", i)) for i in range(len(kinds))], cells=cells)
        paths = []
        for o in outs:
            if o.kind == "panic":
                paths.append(Path(o.pc, "panic", site=o.value.site, msg=o.value.msg))
                continue
            v = o.value
            if op == "negate":
                if isinstance(v, Adt) and v.ty == "Option":
                    if v.variant == "None":
                        paths.append(Path(o.pc, "err", msg="negate -> None (not foldable)"))
                        continue
                    v = Adt("Result", "Ok", [v.fields[0]])
            if not (isinstance(v, Adt) and v.ty == "Result"):
                raise Inconclusive("folder %s returned %r" % (op, v))
            if v.variant == "Err":
                paths.append(Path(o.pc, "err", msg=repr(v.fields[0])[:100]))
                continue
            n = v.fields[0]
            if not (isinstance(n, Adt) and n.ty == "Number" and decmodels.is_dec(n.fields[0])):
                raise Inconclusive("folder %s returned Ok(%r)" % (op, n))
            paths.append(Path(o.pc, "ok", KIND_OF_NUM[n.variant], n.fields[0]))
        return Summary(op, tuple(kinds), inputs, paths, self.fn[op], time.time() - t)


def literal_leaf(cells, key, kind, payload, int_literal_bits=None):
    """Expr::Value(Value::Number(..)) for a literal.  For `Int` with int_literal_bits=128 the literal text is any integer up
    to 128 bits (what the grammar allows), i.e. Number::Integer(dec(i128, v))."""
    if kind == "Int" and int_literal_bits == 128:
        num = Adt("Number", "Integer", [decmodels.dec("i128", payload.e)])
    else:
        num = number(kind, payload)
    return boxed(cells, key, Adt("Expr", "Value", [Adt("Value", "Number", [num])]))


def summarize_expr(fk, op, leaves):
    """fold `leaf0 op leaf1` (or `-leaf0`) through `impl CompileTimeEvaluate for Expr`; leaves = [(kind, payload Sc, bits|None)]"""
    cells = {}
    bl = [literal_leaf(cells, ("heap", i), k, p, b) for i, (k, p, b) in enumerate(leaves)]
    if op == "negate":
        root = Adt("Expr", "UnaryMinus", [bl[0]])
    else:
        root = Adt("Expr", "BinOp", [bl[0], Adt("Op", STATIC_OP[op], []), bl[1]])
    cells[("root",)] = root
    outs = fk.ex.run(fk.fn["expr"], [Ref(("root",))], cells=cells)
    paths = []
    for o in outs:
        if o.kind == "panic":
            paths.append(Path(o.pc, "panic", site=o.value.site, msg=o.value.msg))
            continue
        v = o.value
        if not (isinstance(v, Adt) and v.ty == "Result"):
            raise Inconclusive("Expr folding returned %r" % (v,))
        if v.variant == "Err":
            paths.append(Path(o.pc, "err", msg=repr(v.fields[0])[:100]))
            continue
        ce = v.fields[0]
        if ce.variant == "Impossible":
            paths.append(Path(o.pc, "defer", msg="not foldable: evaluated at run time"))
            continue
        val = ce.fields[0]
        if not (isinstance(val, Adt) and val.variant == "Number"):
            raise Inconclusive("Expr folding returned %r" % (val,))
        n = val.fields[0]
        paths.append(Path(o.pc, "ok", KIND_OF_NUM[n.variant], n.fields[0]))
    return paths


def literal_value(kind, decterm):
    """what `make_<kind> <text>` yields at run time for a folded literal: (parses_ok, value)"""
    return decmodels.parse_contract(decterm, KTY[kind])
