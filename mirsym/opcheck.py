"""Property queries over operator summaries (C05 obligations, C17 panic obligations), witness search,
translator validation against the native harness, native replay of counterexamples."""
import itertools, time
import z3
import opkernels as K
from sym import Inconclusive, INT_TYPES


class Finding:
    def __init__(self, prop, op, arm, cls, profile, witness, detail, predicted=None):
        self.prop, self.op, self.arm, self.cls, self.profile = prop, op, arm, cls, profile
        self.witness = witness      # list of (kind, bits)
        self.detail = detail
        self.predicted = predicted  # what engine B predicts the real code returns on the witness
        self.native = None
        self.confirmed = None
        self.native_op = op
        self.via = "function"

    def key(self):
        return (self.prop, self.op, self.arm, self.cls, self.profile)

    def as_dict(self):
        return {"property": self.prop, "fn": self.op, "arm": self.arm, "class": self.cls, "profile": self.profile,
                "witness": [[k, hex(v) if isinstance(v, int) else v] for k, v in self.witness],
                "detail": self.detail, "predicted": self.predicted, "native": self.native, "confirmed": self.confirmed,
                "native_op": self.native_op, "via": self.via,
                "fold_witness": [[k, hex(v)] for k, v in getattr(self, "fold_witness", None) or []]}


class QueryStats:
    def __init__(self):
        self.obligations = 0
        self.discharged = 0
        self.violated = 0
        self.undecided = []
        self.solver_s = 0.0
        self.samples = []
        self.by_candidate = 0


WITNESS_CACHE = {}


def _subs(summ, vals):
    """substitution of concrete operand values for the symbolic inputs (abstract inputs such as strings have none)"""
    return [(summ.inputs[i].e, K.const_of(summ.kinds[i], vals[i])) for i in range(len(vals)) if hasattr(summ.inputs[i], "e")]


def solve(cond, timeout_ms, seed):
    s = z3.Solver()
    s.set("timeout", int(timeout_ms))
    s.set("random_seed", seed)
    s.add(cond)
    r = s.check()
    return r, (s.model() if r == z3.sat else None)


def model_values(model, summ):
    vals = []
    for i, inp in enumerate(summ.inputs):
        if summ.kinds[i] == "Str":
            vals.append(0x61)
            continue
        if K.unheap(summ.kinds[i]) == "Nil":
            vals.append(0)
            continue
        v = model.eval(inp.e, model_completion=True)
        vals.append(K.value_bits(K.base_kind(summ.kinds[i]), v))
    return vals


def nan_bits(v):
    return 0x7FF8000000000000 if v == "nan" else v


def candidates(summ):
    sets = [K.BOUNDARY[summ.kinds[i]] for i in range(len(summ.inputs))]
    return itertools.product(*sets)


def decide(cond, summ, qs, timeout_ms, seed, label):
    """-> ('unsat', None) | ('sat', values) ; raises nothing, records undecided"""
    qs.obligations += 1
    t = time.time()
    c = z3.simplify(cond)
    if z3.is_false(c):
        qs.discharged += 1
        return "unsat", None
    # witnesses found earlier for the same kernel instance are tried first (evaluation only; a hit is still replayed natively)
    for vals in WITNESS_CACHE.get((summ.op, summ.kinds), []):
        subs = _subs(summ, vals)
        if z3.is_true(z3.simplify(z3.substitute(c, *subs))):
            qs.violated += 1
            qs.by_candidate += 1
            return "sat", list(vals)
    if summ.op in ("mul", "pow") and (":must-fail" in label or ":C17" in label or "=>" in label):
        # wide multiplications: witness search by evaluation on the boundary grid is much cheaper than bit-blasting
        for vals in candidates(summ):
            subs = _subs(summ, vals)
            if z3.is_true(z3.simplify(z3.substitute(c, *subs))):
                qs.violated += 1
                qs.by_candidate += 1
                WITNESS_CACHE.setdefault((summ.op, summ.kinds), []).append(list(vals))
                return "sat", list(vals)
    r, m = solve(c, timeout_ms, seed)
    qs.solver_s += time.time() - t
    if r == z3.unsat:
        qs.discharged += 1
        if len(qs.samples) < 12:
            qs.samples.append({"obligation": label, "result": "unsat", "smt_size": len(c.sexpr())})
        return "unsat", None
    if r == z3.sat:
        qs.violated += 1
        vals = [nan_bits(v) for v in model_values(m, summ)]
        WITNESS_CACHE.setdefault((summ.op, summ.kinds), []).append(vals)
        return "sat", vals
    # unknown: candidate search by evaluation (a found witness is checked natively anyway)
    for vals in candidates(summ):
        subs = _subs(summ, vals)
        if z3.is_true(z3.simplify(z3.substitute(c, *subs))):
            qs.violated += 1
            qs.by_candidate += 1
            return "sat", list(vals)
    qs.undecided.append(label)
    return "unknown", None


def check_summary(summ, profile, qs, timeout_ms=20000, seed=0, want_c05=True, want_c17=True, orc=None, prop="C05", arm=None):
    """returns list of Finding (unconfirmed)"""
    op, kinds = summ.op, summ.kinds
    arm = arm or ",".join(kinds)
    if orc is None:
        orc = K.oracle(op, kinds, summ.inputs)
    out = []
    lab = "%s[%s]/%s%s" % (op, arm, profile, "" if summ.via == "function" else "/instr")

    def add(prop, cls, vals, detail):
        w = native_args(summ, vals)
        try:
            pred = K.eval_summary(summ, vals)
        except Inconclusive as e:
            pred = ("?", str(e))
        f = Finding(prop, op, arm, cls, profile, w, detail + (" [via %s]" % summ.via if summ.via != "function" else ""), predicted=list(pred))
        f.native_op = native_op(summ)
        f.via = summ.via
        out.append(f)

    # O0: the path conditions cover every input
    if want_c05:
        cover = z3.Not(z3.Or(*[p.cond() for p in summ.paths])) if summ.paths else z3.BoolVal(True)
        if getattr(summ, "pre", None) is not None:
            cover = z3.And(summ.pre, cover)
        r, vals = decide(cover, summ, qs, timeout_ms, seed, lab + ":cover")
        if r == "sat":
            raise Inconclusive("summary of %s does not cover input %r" % (lab, vals))
    if want_c17:
        # one obligation per kernel instance: no path ends in a Rust panic.  Discharged when the executor found no
        # feasible panicking path (every `assert`/checked-op failure side was refuted by the solver during exploration)
        # or when every remaining panic path condition is unsat.
        panics = [(pi, p) for pi, p in enumerate(summ.paths) if p.outcome == "panic"]
        if not panics:
            qs.obligations += 1
            qs.discharged += 1
            if len(qs.samples) < 6:
                qs.samples.append({"obligation": lab + ":C17-no-panic", "result": "no panicking path among %d feasible paths" % len(summ.paths)})
        bycls = {}
        for pi, p in panics:
            bycls.setdefault(panic_class(p.msg), []).append((pi, p))
        for cls, plist in bycls.items():
            cond = z3.Or(*[p.cond() for _, p in plist])
            r, vals = decide(cond, summ, qs, timeout_ms, seed, "%s:C17-no-panic:%s" % (lab, cls))
            if r == "sat":
                p = plist[0][1]
                add("C17", "panic:" + cls, vals, "Rust panic `%s` at %s" % (p.msg.strip('"'), p.site))
    for pi, p in enumerate(summ.paths):
        pl = "%s:path%d(%s)" % (lab, pi, p.outcome)
        if not want_c05:
            continue
        if not orc["supported"]:
            if p.outcome == "ok":
                r, vals = decide(p.cond(), summ, qs, timeout_ms, seed, pl + ":unsupported-must-fail")
                if r == "sat":
                    add(prop, "ok-on-unsupported-kinds", vals, "operator returned a value for kinds it is not defined on")
            continue
        if p.outcome == "ok":
            if p.rkind != orc["kind"]:
                r, vals = decide(p.cond(), summ, qs, timeout_ms, seed, pl + ":kind")
                if r == "sat":
                    add(prop, "wrong-kind", vals, "result kind %s, promotion table says %s" % (p.rkind, orc["kind"]))
                continue
            for reason, und in orc["undefined"].items():
                r, vals = decide(z3.And(p.cond(), und), summ, qs, timeout_ms, seed, pl + ":must-fail:" + reason)
                if r == "sat":
                    add(prop, "ok-on-undefined:" + reason, vals, "a value is produced although the exact result is undefined/unrepresentable (%s)" % reason)
            neq = p.rval.e != orc["value"]
            r, vals = decide(z3.And(p.cond(), orc["defined"], neq), summ, qs, timeout_ms, seed, pl + ":value")
            if r == "sat":
                add(prop, "wrong-value", vals, "result differs from the exact value")
        else:
            r, vals = decide(z3.And(p.cond(), orc["defined"]), summ, qs, timeout_ms, seed, pl + ":no-spurious-failure")
            if r == "sat":
                add(prop, "spurious-failure", vals, "operation fails (%s) although the exact result is defined and representable" % p.outcome)
    return out


def panic_class(msg):
    m = msg.lower()
    if " / " in m and "overflow" in m:
        return "divide-overflow"
    if " % " in m and "overflow" in m:
        return "remainder-overflow"
    for key, cls in (("divide", "divide"), ("remainder", "remainder"), ("add", "overflow"), ("subtract", "overflow"),
                     ("multiply", "overflow"), ("negate", "overflow"), ("shift", "shift"), ("would overflow", "overflow"),
                     ("unwrap", "unwrap"), ("none", "unwrap")):
        if key in m:
            if cls in ("divide", "remainder"):
                return cls + ("-by-zero" if "zero" in m else "-overflow")
            return cls
    return "other"


# ---------------------------------------------------------------- translator validation
def validation_vectors(summaries, extra=None):
    """boundary^n per summary"""
    vecs = []
    for si, s in enumerate(summaries):
        sets = [K.BOUNDARY[s.kinds[i]] for i in range(len(s.inputs))]
        for vi, vals in enumerate(itertools.product(*sets)):
            if getattr(s, "pre", None) is not None:
                subs = [(s.inputs[i].e, K.const_of(s.kinds[i], vals[i])) for i in range(len(vals))]
                if not z3.is_true(z3.simplify(z3.substitute(s.pre, *subs))):
                    continue
            vecs.append(("v%d_%d" % (si, vi), s, list(vals)))
    return vecs


def native_op(summ):
    if summ.via == "built-in":
        return "B:" + summ.op
    if summ.via.startswith("instruction `bin_op_assign"):
        return "A:" + summ.op
    return summ.op if summ.via == "function" else "I:" + summ.op


def native_args(summ, vals):
    args = [(summ.kinds[i], vals[i]) for i in range(len(vals))]
    if getattr(summ, "exponent", None) is not None:
        args.append(("Int", summ.exponent & 0xFFFFFFFF))
    return args


def to_native(vid, summ, vals):
    return (vid, native_op(summ), native_args(summ, vals))


def same_result(a, b):
    a, b = tuple(a), tuple(b)
    return a == b


def validate(summaries, native_eval, release):
    """every summary evaluated on the boundary grid must reproduce the native result of the real function"""
    vecs = validation_vectors(summaries)
    res = native_eval([to_native(v, s, vals) for v, s, vals in vecs], release)
    mism = []
    for vid, s, vals in vecs:
        mine = K.eval_summary(s, vals)
        if not same_result(mine, res[vid]):
            mism.append((s.op, s.kinds, [hex(v) for v in vals], mine, res[vid]))
    return len(vecs), mism
