"""C13 (list kernel) / C17: one step of every list built-in from an ARBITRARY list state.

The real `BuiltInFunction::run` is executed on a receiver that is a *shared* list: `Primitive::Vector(GcVector(Gc -> cell))`,
where the Gc is a pointer to a store cell holding `GcCell(Vec[e0..e(n-1)])` with every element a symbolic `Int` (gcmodels.py:
clones of a Gc share the cell; GcCell borrow flags are modelled, so a double borrow panics as in the real crate).  The interpreter
clones each argument off the operand stack before the call - the check therefore observes the list through an ALIAS: what the
operation leaves in the shared cell is what every alias sees.

Inductive reading: every history of list operations is a sequence of such steps from some reachable state; the states quantified
over here (any length 0..N, any element values) include all reachable ones, so a per-step result covers histories of any length
over lists that stay within N elements.

Meaning (mathematical sequences):
    len()         -> n                               list unchanged
    push(x)       -> (no value)                      list = e ++ [x]
    remove(i)     -> e[i], list = e without index i  defined iff 0 <= i < n; otherwise the call fails and the list is unchanged
    reverse()     -> (no value)                      list = reversed e
    clear()       -> (no value)                      list = []
    clone()       -> a NEW list (another cell) with the contents e; the receiver is unchanged
    index_of(x)   -> the first i with e[i] == x, nil if there is none; list unchanged
    join(o)       -> the receiver itself, receiver = e ++ f where f = contents of o; the argument o keeps its contents
                     (o may be the receiver itself: then receiver = e ++ e)
"""
import os, time
import z3
import sym, models, strmodels, stridx, gcmodels, targets
import opcheck as Q
from sym import Sc, Adt, Ref, Opaque, Inconclusive
from opkernels import prim, opt_prim, CRATE_PREFIXES

METHODS = {  # method -> (variant, argument shape)
    "len": ("VecLen", None), "push": ("VecPush", "Int"), "remove": ("VecRemove", "Index"), "reverse": ("VecReverse", None),
    "clear": ("VecClear", None), "clone": ("VecClone", None), "index_of": ("VecIndexOf", "Int"),
    "join": ("VecJoin", "List"), "join_self": ("VecJoin", "Self"),
    # a list of optionals ([int?...]) searched with a plain value: `Primitive::equals` looks through the optional
    "index_of_opt": ("VecIndexOf", "Int"),
}
NMAX = {"quick": 3, "thorough": 5}
MMAX = {"quick": 2, "thorough": 2}
RECV, OTHER = ("gc", 0), ("gc", 1)


def vecp(cell):
    return Adt("Primitive", "Vector", [Adt("GcVector", None, [Adt("Gc", None, [Ref(cell)])])])


class ListSummary:
    def __init__(self, method, variant, n, m, elems, other, arg, paths, dt):
        self.method, self.variant, self.n, self.m = method, variant, n, m
        self.elems, self.other, self.arg, self.paths, self.seconds = elems, other, arg, paths, dt

    @property
    def arm(self):
        return "len=%d" % self.n + (",arg_len=%d" % self.m if self.method == "join" else "")

    def native_spec(self):
        third = {"join": str(self.m), "join_self": "self"}.get(self.method, "none")
        return "L:%s:%d:%s" % (self.variant, self.n, third)


def _ints(o, vec):
    """payloads of the elements (plain ints, or present optionals holding an int)"""
    out = []
    for it in vec.fields:
        if isinstance(it, Adt) and it.ty == "Primitive" and it.variant == "Optional" and it.fields[0].variant == "Some":
            ref = it.fields[0].fields[0].fields[0].fields[0]
            it = o.cells[ref.cell]
        if not (isinstance(it, Adt) and it.ty == "Primitive" and it.variant == "Int"):
            raise Inconclusive("list element %r" % (it,))
        out.append(it.fields[0].e)
    return out


def _cell_contents(o, key):
    c = o.cells.get(key)
    if c is None:
        return None
    if not (isinstance(c, Adt) and c.ty == "GcCell" and isinstance(c.fields[0], Adt) and c.fields[0].ty == "Vec"):
        raise Inconclusive("list cell holds %r" % (c,))
    return _ints(o, c.fields[0])


def _decode_result(o, res):
    """-> ('none',) | ('Int', e) | ('Nil',) | ('SomeInt', e) | ('Vector', cell key, [e..])"""
    if res.variant == "None":
        return ("none",)
    p = res.fields[0]
    if p.variant == "Int":
        return ("Int", p.fields[0].e)
    if p.variant == "Optional":
        inner = p.fields[0]
        if inner.variant == "None":
            return ("Nil",)
        b = inner.fields[0]
        ref = b.fields[0].fields[0]
        v = o.cells[ref.cell]
        if not (isinstance(v, Adt) and v.variant == "Int"):
            raise Inconclusive("optional payload %r" % (v,))
        return ("SomeInt", v.fields[0].e)
    if p.variant == "Vector":
        ref = p.fields[0].fields[0].fields[0]
        return ("Vector", ref.cell, _cell_contents(o, ref.cell))
    raise Inconclusive("list built-in returned a %s" % p.variant)


class ListKernels:
    def __init__(self, mf, overflow_checks, repo, seed=0):
        self.mf = mf
        self.repo = repo
        targets.register_primitive_enum(repo)
        targets.register_enum_from_source(os.path.join(repo, "bytecode/src/function.rs"), "BuiltInFunction")
        m = stridx.install(strmodels.install(models.base_models()))
        self.ex = gcmodels.install_drop_hooks(sym.Executor(mf, overflow_checks, m, targets.generic_resolver(mf, CRATE_PREFIXES + ["GcVector"]), seed=seed))
        self.fn = targets.find_one(mf, r"function\.rs.*>::run$", lambda f: f.locals[1].strip() == "&function::BuiltInFunction")

    def encoded_functions(self):
        return {"BuiltInFunction::run (list methods)": {"mir_item": self.fn, "mir_lines": self.mf.func(self.fn).nlines}}

    def summarize(self, method, n, m=0):
        t = time.time()
        variant, shape = METHODS[method]
        elems = [z3.BitVec("e%d" % i, 32) for i in range(n)]
        other = [z3.BitVec("f%d" % i, 32) for i in range(m)] if shape == "List" else []
        arg = z3.BitVec("x", 32) if shape in ("Int", "Index") else None
        cells = {}
        if method == "index_of_opt":
            items = [opt_prim(cells, ("elem", i), "SomeInt", Sc("i32", e)) for i, e in enumerate(elems)]
        else:
            items = [prim("Int", Sc("i32", e)) for e in elems]
        cells[RECV] = gcmodels.gccell(Adt("Vec", None, items))
        ops = [vecp(RECV)]
        if shape == "List":
            cells[OTHER] = gcmodels.gccell(Adt("Vec", None, [prim("Int", Sc("i32", e)) for e in other]))
            ops.append(vecp(OTHER))
        elif shape == "Self":
            ops.append(vecp(RECV))
        elif arg is not None:
            ops.append(prim("Int", Sc("i32", arg)))
        cells[("ctx",)] = Adt("Ctx", None, [Adt("Vec", None, ops)] + [Opaque("ctx-field", i) for i in range(1, 6)])
        cells[("self",)] = Adt("BuiltInFunction", variant, [])
        outs = self.ex.run(self.fn, [Ref(("self",)), Ref(("ctx",))], cells=cells)
        paths = []
        for o in outs:
            pc = z3.And(*o.pc) if o.pc else z3.BoolVal(True)
            if o.kind == "panic":
                paths.append((pc, "panic", o.value.msg, None, None))
                continue
            v = o.value
            if not (isinstance(v, Adt) and v.ty == "Result"):
                raise Inconclusive("list built-in returned %r" % (v,))
            post0, post1 = _cell_contents(o, RECV), (_cell_contents(o, OTHER) if shape == "List" else None)
            if v.variant == "Err":
                paths.append((pc, "err", None, post0, post1))
                continue
            paths.append((pc, "ok", _decode_result(o, v.fields[0].fields[0]), post0, post1))
        return ListSummary(method, variant, n, m, elems, other, arg, paths, time.time() - t)


# ---------------------------------------------------------------- meaning
def oracle(s):
    """-> [(condition, expected result, expected receiver contents, expected argument-list contents)] covering the domain;
    result ('Vector', 'recv'|'fresh', contents) for list results"""
    e, f, x, n = s.elems, s.other, s.arg, s.n
    T = z3.BoolVal(True)
    if s.method == "len":
        return [(T, ("Int", z3.BitVecVal(n, 32)), e, None)]
    if s.method == "push":
        return [(T, ("none",), e + [x], None)]
    if s.method == "remove":
        return [(x == k, ("Int", e[k]), e[:k] + e[k + 1:], None) for k in range(n)]
    if s.method == "reverse":
        return [(T, ("none",), list(reversed(e)), None)]
    if s.method == "clear":
        return [(T, ("none",), [], None)]
    if s.method == "clone":
        return [(T, ("Vector", "fresh", e), e, None)]
    if s.method in ("index_of", "index_of_opt"):
        out, before = [], []
        for k in range(n):
            out.append((z3.And(*(before + [e[k] == x])), ("SomeInt", z3.BitVecVal(k, 32)), e, None))
            before.append(e[k] != x)
        out.append((z3.And(*before) if before else T, ("Nil",), e, None))
        return out
    if s.method == "join":
        return [(T, ("Vector", "recv", e + f), e + f, f)]
    if s.method == "join_self":
        return [(T, ("Vector", "recv", e + e), e + e, None)]
    raise ValueError(s.method)


def _seq_eq(a, b):
    if a is None or b is None:
        return z3.BoolVal(a is None and b is None)
    if len(a) != len(b):
        return z3.BoolVal(False)
    return z3.And(*[p == q for p, q in zip(a, b)]) if a else z3.BoolVal(True)


def _res_eq(got, want):
    if got[0] != want[0]:
        return z3.BoolVal(False)
    if got[0] in ("none", "Nil"):
        return z3.BoolVal(True)
    if got[0] in ("Int", "SomeInt"):
        return got[1] == want[1]
    same_cell = got[1] == RECV
    if (want[1] == "recv") != same_cell or (want[1] == "fresh" and got[1] in (RECV, OTHER)):
        return z3.BoolVal(False)
    return _seq_eq(got[2], want[2])


# ---------------------------------------------------------------- concrete evaluation / native vectors
def native_args(s, ev, fv, xv):
    ek = "SomeInt" if s.method == "index_of_opt" else "Int"
    args = [(ek, v & 0xFFFFFFFF) for v in ev] + [("Int", v & 0xFFFFFFFF) for v in fv]
    if xv is not None:
        args.append(("Int", xv & 0xFFFFFFFF))
    return args


def _subs(s, ev, fv, xv):
    out = [(a, z3.BitVecVal(v, 32)) for a, v in list(zip(s.elems, ev)) + list(zip(s.other, fv))]
    if s.arg is not None:
        out.append((s.arg, z3.BitVecVal(xv, 32)))
    return out


def _show_items(es, subs, kind="Int"):
    return ",".join("%s:%x" % (kind, z3.simplify(z3.substitute(e, *subs)).as_long()) for e in es)


def render(kind, res, post0, post1, subs, self_alias=False, elem_kind="Int"):
    """the native harness' result line"""
    if kind == "panic":
        return "PANIC"
    if kind == "err":
        head = "ERR"
    elif res[0] == "none":
        head = "OK none"
    elif res[0] == "Nil":
        head = "OK Nil:0"
    elif res[0] in ("Int", "SomeInt"):
        head = "OK %s:%x" % (res[0], z3.simplify(z3.substitute(res[1], *subs)).as_long())
    else:
        tag = "same" if res[1] == RECV else "other" if res[1] == OTHER else "fresh"
        head = "OK Vector:%s:%s" % (tag, _show_items(res[2], subs))
    third = _show_items(post0, subs) if self_alias else _show_items(post1, subs) if post1 is not None else ""
    return "%s | %s | %s" % (head, _show_items(post0, subs, elem_kind), third)


def _enabled(c):
    """a path is enabled on concrete inputs if its condition is true, or - when it still mentions environment choices that are not
    inputs (e.g. whether an empty vector ever allocated) - satisfiable; all enabled paths must then agree"""
    if z3.is_true(c):
        return True
    if z3.is_false(c):
        return False
    so = z3.Solver()
    so.add(c)
    return so.check() == z3.sat


def eval_summary(s, ev, fv, xv):
    subs = _subs(s, ev, fv, xv)
    hits = []
    for pc, kind, res, post0, post1 in s.paths:
        if _enabled(z3.simplify(z3.substitute(pc, *subs))):
            hits.append(render(kind, res, post0, post1, subs, self_alias=(s.method == "join_self"),
                               elem_kind="SomeInt" if s.method == "index_of_opt" else "Int"))
    if not hits or any(h != hits[0] for h in hits):
        raise Inconclusive("list.%s[%s]: %d paths enabled on %r %r %r" % (s.method, s.arm, len(hits), ev, fv, xv))
    return hits[0]


def norm_native(text):
    return " ".join(text.split())


def grid(s):
    ev = [10 + i for i in range(s.n)]
    ev_dup = [7] * s.n
    fv = [20 + i for i in range(s.m)]
    if s.arg is None:
        return [(ev, fv, None), (ev_dup, fv, None)]
    xs = sorted({-1, 0, 1, s.n - 1, s.n, s.n + 1, 7, 10, 11, 0x7FFFFFFF, -0x80000000})
    return [(ev, fv, x) for x in xs] + [(ev_dup, fv, x) for x in (7, 0, s.n)]


def validate(summaries, nat_eval_raw, release):
    vecs, want = [], {}
    for si, s in enumerate(summaries):
        for gi, (ev, fv, xv) in enumerate(grid(s)):
            vid = "l%d_%d" % (si, gi)
            vecs.append((vid, s.native_spec(), native_args(s, ev, fv, xv)))
            want[vid] = (s, ev, fv, xv)
    res = nat_eval_raw(vecs, release)
    mism = []
    for vid, (s, ev, fv, xv) in want.items():
        pred = norm_native(eval_summary(s, ev, fv, xv))
        got = norm_native(res[vid])
        if pred != got:
            mism.append((s.method, s.arm, ev, fv, xv, "engine", pred, "real", got))
    return len(vecs), mism


# ---------------------------------------------------------------- obligations
def _witness(s, model):
    def val(e, d):
        v = model.eval(e, model_completion=False)
        v = v.as_long() if z3.is_bv_value(v) else d
        return v - (1 << 32) if v >= 1 << 31 else v
    return [val(e, 10 + i) for i, e in enumerate(s.elems)], [val(e, 20 + i) for i, e in enumerate(s.other)], (val(s.arg, 0) if s.arg is not None else None)


def check_summary(s, profile, qs, timeout_ms, seed, prop):
    out = []
    orc = oracle(s)
    domain = z3.Or(*[c for c, _, _, _ in orc])
    lab0 = "list.%s[%s]/%s" % (s.method, s.arm, profile)

    def ask(cond, label):
        qs.obligations += 1
        t = time.time()
        c = z3.simplify(cond)
        if z3.is_false(c):
            qs.discharged += 1
            return None
        r, m = Q.solve(c, timeout_ms, seed)
        qs.solver_s += time.time() - t
        if r == z3.unsat:
            qs.discharged += 1
            if len(qs.samples) < 12:
                qs.samples.append({"obligation": label, "result": "unsat", "smt_size": len(c.sexpr())})
            return None
        if r == z3.sat:
            qs.violated += 1
            return _witness(s, m)
        qs.undecided.append(label)
        return None

    def finding(cls, w, detail):
        ev, fv, xv = w
        f = Q.Finding(prop, "list." + s.method, s.arm, cls, profile, native_args(s, ev, fv, xv), detail)
        f.native_op = s.native_spec()
        f.predicted_text = norm_native(eval_summary(s, ev, fv, xv))
        f.predicted = None
        f.via = "built-in"
        f.human = "%r.%s(%s)" % (ev, s.method.replace("_self", "").replace("_opt", " [list of present optionals]"), "self" if s.method == "join_self" else repr(fv) if s.method == "join" else "" if xv is None else xv)
        return f

    for pi, (pc, kind, res, post0, post1) in enumerate(s.paths):
        lab = "%s:path%d" % (lab0, pi)
        if prop == "C17":
            if kind == "panic":
                w = ask(pc, lab + ":no-panic")
                if w:
                    out.append(finding("panic:" + Q.panic_class(res), w, "Rust panic `%s` in built-in list.%s" % (res, s.method)))
            else:
                qs.obligations += 1
                qs.discharged += 1
            continue
        if kind == "ok":
            good_res = z3.Or(*[z3.And(c, _res_eq(res, r)) for c, r, _, _ in orc])
            w = ask(z3.And(pc, z3.Not(good_res)), lab + ":ok=>defined-result")
            if w:
                indom = z3.is_true(z3.simplify(z3.substitute(domain, *_subs(s, *w))))
                out.append(finding("wrong-result" if indom else "ok-outside-domain", w,
                                   "the value returned differs from the sequence model" if indom else "a value is returned although the index is out of range"))
            good0 = z3.Or(*[z3.And(c, _seq_eq(post0, p0)) for c, _, p0, _ in orc])
            w = ask(z3.And(pc, domain, z3.Not(good0)), lab + ":ok=>list-contents")
            if w:
                out.append(finding("wrong-contents", w, "the shared list does not hold what the sequence model holds after the operation"))
            if post1 is not None:
                good1 = z3.Or(*[z3.And(c, _seq_eq(post1, p1)) for c, _, _, p1 in orc])
                w = ask(z3.And(pc, z3.Not(good1)), lab + ":ok=>argument-unchanged")
                if w:
                    out.append(finding("argument-modified", w, "the list passed as argument is changed by the operation"))
        else:
            w = ask(z3.And(pc, domain), lab + ":fail=>outside-domain")
            if w:
                out.append(finding("spurious-failure", w, "the call fails (%s) although it is defined" % kind))
            if kind == "err":
                w = ask(z3.And(pc, z3.Not(_seq_eq(post0, s.elems))), lab + ":fail=>list-unchanged")
                if w:
                    out.append(finding("failure-changes-list", w, "a failing call leaves the list changed"))
    return out


# ---------------------------------------------------------------- index read `a[i]` (instruction vec_op with a variable index)
IDX_KINDS = ("Int", "BigInt", "Byte")


class ListIndexSummary:
    def __init__(self, n, kind, elems, idx, paths, dt):
        self.n, self.kind, self.elems, self.idx, self.paths, self.seconds = n, kind, elems, idx, paths, dt
        self.method = "index"

    @property
    def arm(self):
        return "len=%d,index:%s" % (self.n, self.kind)


class ListIndexKernels:
    """`a[i]`: vec_op "[i]" on a shared list; the result is a pointer (HeapPrimitive::ArrayPtr) to element i of the SAME list"""

    def __init__(self, lk):
        import utf8models
        from opkernels import KTY
        self.lk = lk
        targets.register_enum_from_source(os.path.join(lk_repo(lk), "bytecode/src/variables/primitive.rs"), "HeapPrimitive")
        utf8models.install(lk.ex.models)
        self.fn = targets.find_one(lk.mf, r"^vec_op$")

    def encoded_functions(self):
        return {"instruction vec_op (list indexing arm)": {"mir_item": self.fn, "mir_lines": self.lk.mf.func(self.fn).nlines}}

    def summarize(self, n, kind):
        from opkernels import sym_payload
        t = time.time()
        elems = [z3.BitVec("e%d" % i, 32) for i in range(n)]
        idx = sym_payload(kind, "i")
        cells = {RECV: gcmodels.gccell(Adt("Vec", None, [prim("Int", Sc("i32", e)) for e in elems]))}
        cells[("ctx",)] = Adt("Ctx", None, [Adt("Vec", None, [vecp(RECV)])] + [Opaque("ctx-field", i) for i in range(1, 6)])
        cells[("iargs",)] = Adt("[]", None, [Opaque("strlit", '"[i]"')])
        cells[("var", "i")] = prim(kind, idx)
        paths = []
        for o in self.lk.ex.run(self.fn, [Ref(("ctx",)), Ref(("iargs",))], cells=cells):
            pc = z3.And(*o.pc) if o.pc else z3.BoolVal(True)
            if o.kind == "panic":
                paths.append((pc, "panic", o.value.msg))
                continue
            if o.value.variant == "Err":
                paths.append((pc, "err", None))
                continue
            stack = o.cells[("ctx",)].fields[0]
            res = stack.fields[0] if len(stack.fields) == 1 else None
            if not (isinstance(res, Adt) and res.variant == "HeapPrimitive" and res.fields[0].variant == "ArrayPtr"):
                raise Inconclusive("list indexing left %r" % (stack,))
            vec, at = res.fields[0].fields
            ref = vec.fields[0].fields[0]
            paths.append((pc, "ok", (ref.cell, at.e)))
        return ListIndexSummary(n, kind, elems, idx, paths, time.time() - t)


def lk_repo(lk):
    return lk.repo


def index_check(s, profile, qs, timeout_ms, seed, prop):
    from opkernels import KTY
    from sym import INT_TYPES
    bits, signed = INT_TYPES[KTY[s.kind]]
    out = []
    in_range = z3.Or(*[s.idx.e == z3.BitVecVal(k, bits) for k in range(s.n)]) if s.n else z3.BoolVal(False)
    lab0 = "list[i][%s]/%s" % (s.arm, profile)

    def ask(cond, label):
        qs.obligations += 1
        t = time.time()
        c = z3.simplify(cond)
        if z3.is_false(c):
            qs.discharged += 1
            return None
        r, m = Q.solve(c, timeout_ms, seed)
        qs.solver_s += time.time() - t
        if r == z3.unsat:
            qs.discharged += 1
            return None
        if r == z3.sat:
            qs.violated += 1
            ev = []
            for i, e in enumerate(s.elems):
                v = m.eval(e, model_completion=False)
                ev.append(v.as_long() if z3.is_bv_value(v) else 10 + i)
            # distinct element values make the element a pointer refers to recognisable in the native result
            ev = [10 + i for i in range(s.n)] if len(set(ev)) != len(ev) else ev
            return ev, m.eval(s.idx.e, model_completion=True).as_long()
        qs.undecided.append(label)
        return None

    def finding(cls, w, detail):
        ev, iv = w
        f = Q.Finding(prop, "list.index", s.arm, cls, profile, index_native_args(s, ev, iv), detail)
        f.native_op = "X:%d" % s.n
        f.predicted_text = norm_native(index_eval(s, ev, iv))
        f.predicted = None
        f.via = "instruction `vec_op [i]`"
        sv = iv - (1 << bits) if signed and iv >= 1 << (bits - 1) else iv
        f.human = "%r[i] with i = %s %d" % (ev, s.kind, sv)
        return f

    for pi, (pc, kind, val) in enumerate(s.paths):
        lab = "%s:path%d" % (lab0, pi)
        if prop == "C17":
            if kind == "panic":
                w = ask(pc, lab + ":no-panic")
                if w:
                    out.append(finding("panic:" + Q.panic_class(val), w, "Rust panic `%s` while indexing a list" % val))
            else:
                qs.obligations += 1
                qs.discharged += 1
            continue
        if kind == "ok":
            cell, at = val
            good = z3.And(in_range, z3.ZeroExt(128 - bits, s.idx.e) == z3.ZeroExt(64, at)) if cell == RECV else z3.BoolVal(False)
            w = ask(z3.And(pc, z3.Not(good)), lab + ":ok=>pointer-to-element-i")
            if w:
                out.append(finding("ok-outside-domain", w, "a reference to an element is produced although the index is not the position of that element (or is out of range)"))
        else:
            w = ask(z3.And(pc, in_range), lab + ":fail=>out-of-range")
            if w:
                out.append(finding("spurious-failure", w, "indexing fails (%s) although the index is in range" % kind))
    return out


def index_native_args(s, ev, iv):
    from opkernels import KTY
    from sym import INT_TYPES
    bits, _ = INT_TYPES[KTY[s.kind]]
    return [("Int", v & 0xFFFFFFFF) for v in ev] + [(s.kind, iv & ((1 << bits) - 1))]


def index_eval(s, ev, iv):
    from opkernels import KTY
    from sym import INT_TYPES
    bits, _ = INT_TYPES[KTY[s.kind]]
    subs = [(a, z3.BitVecVal(v, 32)) for a, v in zip(s.elems, ev)] + [(s.idx.e, z3.BitVecVal(iv, bits))]
    hits = []
    for pc, kind, val in s.paths:
        if z3.is_true(z3.simplify(z3.substitute(pc, *subs))):
            if kind == "ok":
                at = z3.simplify(z3.substitute(val[1], *subs)).as_long()
                hits.append("OK HeapInt %x" % (ev[at] & 0xFFFFFFFF) if (val[0] == RECV and at < len(ev)) else "OK pointer-outside")
            else:
                hits.append("PANIC" if kind == "panic" else "ERR")
    if not hits or any(h != hits[0] for h in hits):
        raise Inconclusive("list[i][%s]: %d paths enabled" % (s.arm, len(hits)))
    return hits[0]


def index_validate(summaries, nat_eval_raw, release):
    from opkernels import KTY
    from sym import INT_TYPES
    vecs, want = [], {}
    for si, s in enumerate(summaries):
        bits, _ = INT_TYPES[KTY[s.kind]]
        ivs = {0, 1, max(s.n - 1, 0), s.n, s.n + 1, (1 << bits) - 1, 1 << (bits - 1)}
        if bits > 64:
            ivs |= {1 << 64, (1 << 64) + 1}
        ev = [10 + i for i in range(s.n)]
        for gi, iv in enumerate(sorted(ivs)):
            vid = "z%d_%d" % (si, gi)
            vecs.append((vid, "X:%d" % s.n, index_native_args(s, ev, iv)))
            want[vid] = (s, ev, iv)
    res = nat_eval_raw(vecs, release)
    mism = []
    for vid, (s, ev, iv) in want.items():
        pred = norm_native(index_eval(s, ev, iv))
        got = norm_native(res[vid])
        if pred != got:
            mism.append((s.arm, ev, hex(iv), "engine", pred, "real", got))
    return len(vecs), mism


# ---------------------------------------------------------------- `a[k] op= v` (instruction bin_op_assign through an element pointer)
ASSIGN_OPS = {"+=": lambda a, b: a + b, "-=": lambda a, b: a - b, "*=": lambda a, b: a * b,
              "/=": lambda a, b: z3.SDiv(a, b) if False else a / b, "%=": lambda a, b: z3.SRem(a, b)}


class ElemAssignSummary:
    def __init__(self, op, n, k, elems, value, paths, dt):
        self.op, self.n, self.k, self.elems, self.value, self.paths, self.seconds = op, n, k, elems, value, paths, dt
        self.method = "elem_assign"

    @property
    def arm(self):
        return "%s,len=%d,at=%d" % (self.op, self.n, self.k)

    def native_spec(self):
        return "P:%s:%d:%d" % (self.op, self.n, self.k)


class ElemAssignKernels:
    def __init__(self, lk):
        import utf8models
        self.lk = lk
        targets.register_enum_from_source(os.path.join(lk.repo, "bytecode/src/variables/primitive.rs"), "HeapPrimitive")
        utf8models.install(lk.ex.models)
        self.fn = targets.find_one(lk.mf, r"^bin_op_assign$")

    def encoded_functions(self):
        return {"instruction bin_op_assign (element-pointer arm) + HeapPrimitive::update": {"mir_item": self.fn, "mir_lines": self.lk.mf.func(self.fn).nlines}}

    def summarize(self, op, n, k):
        t = time.time()
        elems = [z3.BitVec("e%d" % i, 32) for i in range(n)]
        value = z3.BitVec("v", 32)
        cells = {RECV: gcmodels.gccell(Adt("Vec", None, [prim("Int", Sc("i32", e)) for e in elems]))}
        gv = Adt("GcVector", None, [Adt("Gc", None, [Ref(RECV)])])
        ptr = Adt("Primitive", "HeapPrimitive", [Adt("HeapPrimitive", "ArrayPtr", [gv, sym.bv("usize", k)])])
        cells[("ctx",)] = Adt("Ctx", None, [Adt("Vec", None, [ptr, prim("Int", Sc("i32", value))])] + [Opaque("ctx-field", i) for i in range(1, 6)])
        cells[("iargs",)] = Adt("[]", None, [Opaque("strlit", '"%s"' % op)])
        paths = []
        for o in self.lk.ex.run(self.fn, [Ref(("ctx",)), Ref(("iargs",))], cells=cells):
            pc = z3.And(*o.pc) if o.pc else z3.BoolVal(True)
            if o.kind == "panic":
                paths.append((pc, "panic", o.value.msg, None, None))
                continue
            post = _cell_contents(o, RECV)
            if o.value.variant == "Err":
                paths.append((pc, "err", None, None, post))
                continue
            stack = o.cells[("ctx",)].fields[0]
            top = stack.fields[0] if len(stack.fields) == 1 else None
            if not (isinstance(top, Adt) and top.variant == "Int"):
                raise Inconclusive("element assignment left %r" % (stack,))
            paths.append((pc, "ok", None, top.fields[0].e, post))
        return ElemAssignSummary(op, n, k, elems, value, paths, time.time() - t)


def assign_shapes(tier):
    out = []
    for op in ASSIGN_OPS:
        for n in range(1, NMAX.get(tier, 3) + 1):
            for k in range(n):
                out.append((op, n, k))
    return out


def assign_native_args(s, ev, vv):
    return [("Int", x & 0xFFFFFFFF) for x in ev] + [("Int", vv & 0xFFFFFFFF)]


def assign_eval(s, ev, vv):
    subs = [(a, z3.BitVecVal(x, 32)) for a, x in zip(s.elems, ev)] + [(s.value, z3.BitVecVal(vv, 32))]
    hits = []
    for pc, kind, msg, top, post in s.paths:
        if z3.is_true(z3.simplify(z3.substitute(pc, *subs))):
            if kind == "panic":
                hits.append("PANIC")
            elif kind == "err":
                hits.append("ERR | %s" % _show_items(post, subs))
            else:
                hits.append("OK Int:%x | %s" % (z3.simplify(z3.substitute(top, *subs)).as_long(), _show_items(post, subs)))
    if not hits or any(h != hits[0] for h in hits):
        raise Inconclusive("list[k] %s: %d paths enabled on %r %r" % (s.arm, len(hits), ev, vv))
    return hits[0]


def assign_validate(summaries, nat_eval_raw, release):
    vecs, want = [], {}
    for si, s in enumerate(summaries):
        ev = [10 + 3 * i for i in range(s.n)]
        for gi, vv in enumerate((3, 0, -1 & 0xFFFFFFFF, 7, 0x7FFFFFFF)):
            vid = "p%d_%d" % (si, gi)
            vecs.append((vid, s.native_spec(), assign_native_args(s, ev, vv)))
            want[vid] = (s, ev, vv)
    res = nat_eval_raw(vecs, release)
    mism = []
    for vid, (s, ev, vv) in want.items():
        pred = norm_native(assign_eval(s, ev, vv))
        got = norm_native(res[vid])
        if pred != got:
            mism.append((s.arm, ev, vv, "engine", pred, "real", got))
    return len(vecs), mism


def assign_check(s, profile, qs, timeout_ms, seed):
    """C13: after `a[k] op= v` the shared list holds e[k] op v at position k (operands in this order), every other element is
    untouched, and the value left on the operand stack is the new element; a failing assignment changes nothing.
    Which operand values make the arithmetic fail or panic is C05's / C17's business and is not judged here."""
    out = []
    e, v, k = s.elems, s.value, s.k
    opf = {"+=": lambda a, b: a + b, "-=": lambda a, b: a - b, "*=": lambda a, b: a * b,
           "/=": lambda a, b: a / b, "%=": lambda a, b: z3.SRem(a, b)}[s.op]
    lab0 = "list[k]%s[%s]/%s" % (s.op, s.arm, profile)

    def ask(cond, label):
        qs.obligations += 1
        t = time.time()
        c = z3.simplify(cond)
        if z3.is_false(c):
            qs.discharged += 1
            return None
        r, m = Q.solve(c, timeout_ms, seed)
        qs.solver_s += time.time() - t
        if r == z3.unsat:
            qs.discharged += 1
            return None
        if r == z3.sat:
            qs.violated += 1

            def val(x, d):
                y = m.eval(x, model_completion=False)
                return y.as_long() if z3.is_bv_value(y) else d
            return [val(a, 10 + 3 * i) for i, a in enumerate(e)], val(v, 3)
        qs.undecided.append(label)
        return None

    def finding(cls, w, detail):
        ev, vv = w
        f = Q.Finding("C13", "list.elem_assign", s.arm, cls, profile, assign_native_args(s, ev, vv), detail)
        f.native_op = s.native_spec()
        f.predicted_text = norm_native(assign_eval(s, ev, vv))
        f.predicted = None
        f.via = "instruction `bin_op_assign %s` through an element pointer" % s.op
        sg = lambda x: x - (1 << 32) if x >= 1 << 31 else x
        f.human = "a = %r; a[%d] %s %d" % ([sg(x) for x in ev], k, s.op, sg(vv))
        return f

    for pi, (pc, kind, msg, top, post) in enumerate(s.paths):
        lab = "%s:path%d" % (lab0, pi)
        if kind == "panic":
            continue
        if kind == "err":
            w = ask(z3.And(pc, z3.Not(_seq_eq(post, e))), lab + ":fail=>list-unchanged")
            if w:
                out.append(finding("failure-changes-list", w, "a failing element assignment leaves the list changed"))
            continue
        want = [opf(e[i], v) if i == k else e[i] for i in range(s.n)]
        w = ask(z3.And(pc, z3.Not(_seq_eq(post, want))), lab + ":ok=>element-updated")
        if w:
            out.append(finding("wrong-contents", w, "the list does not hold `element op value` at the assigned position (or another element changed)"))
        w = ask(z3.And(pc, top != opf(e[k], v)), lab + ":ok=>value-of-the-assignment")
        if w:
            out.append(finding("wrong-result", w, "the value left on the operand stack is not the new element"))
    return out


# ---------------------------------------------------------------- `a[k] += s` on string elements (concatenation is not commutative)
class StrAssignSummary(ElemAssignSummary):
    @property
    def arm(self):
        return "str +=,len=%d,at=%d" % (self.n, self.k)


def summarize_str_assign(ak, n, k):
    import strmodels, utf8models
    t = time.time()
    elems = [z3.BitVec("s%d" % i, 32) for i in range(n)]          # one-character strings
    value = z3.BitVec("sv", 32)
    pc = []
    for c in elems + [value]:
        utf8models.register_width(c, 1)
        pc.append(z3.And(z3.UGE(c, 0x21), z3.ULE(c, 0x7E)))
    mk = lambda c: Adt("Primitive", "Str", [strmodels.sstr([Sc("char", c)])])
    cells = {RECV: gcmodels.gccell(Adt("Vec", None, [mk(e) for e in elems]))}
    gv = Adt("GcVector", None, [Adt("Gc", None, [Ref(RECV)])])
    ptr = Adt("Primitive", "HeapPrimitive", [Adt("HeapPrimitive", "ArrayPtr", [gv, sym.bv("usize", k)])])
    cells[("ctx",)] = Adt("Ctx", None, [Adt("Vec", None, [ptr, mk(value)])] + [Opaque("ctx-field", i) for i in range(1, 6)])
    cells[("iargs",)] = Adt("[]", None, [Opaque("strlit", '"+="')])
    paths = []
    for o in ak.lk.ex.run(ak.fn, [Ref(("ctx",)), Ref(("iargs",))], cells=cells, pc=pc):
        pcz = z3.And(*o.pc) if o.pc else z3.BoolVal(True)
        if o.kind == "panic":
            paths.append((pcz, "panic", o.value.msg, None, None))
            continue
        vec = o.cells[RECV].fields[0]
        post = []
        for it in vec.fields:
            if not (isinstance(it, Adt) and it.variant == "Str" and strmodels.is_sstr(it.fields[0])):
                raise Inconclusive("string list element %r" % (it,))
            post.append([c.e for c in it.fields[0].fields])
        if o.value.variant == "Err":
            paths.append((pcz, "err", None, None, post))
            continue
        stack = o.cells[("ctx",)].fields[0]
        top = stack.fields[0] if len(stack.fields) == 1 else None
        if not (isinstance(top, Adt) and top.variant == "Str" and strmodels.is_sstr(top.fields[0])):
            raise Inconclusive("string element assignment left %r" % (stack,))
        paths.append((pcz, "ok", None, [c.e for c in top.fields[0].fields], post))
    s = StrAssignSummary("+=", n, k, elems, value, paths, time.time() - t)
    return s


def _txt(es, subs):
    return "Str:" + "".join("%02x" % z3.simplify(z3.substitute(e, *subs)).as_long() for e in es)


def str_assign_native_args(s, ev, vv):
    return [("Str", x) for x in ev] + [("Str", vv)]


def str_assign_eval(s, ev, vv):
    subs = [(a, z3.BitVecVal(x, 32)) for a, x in zip(s.elems, ev)] + [(s.value, z3.BitVecVal(vv, 32))]
    hits = []
    for pc, kind, msg, top, post in s.paths:
        if z3.is_true(z3.simplify(z3.substitute(pc, *subs))):
            if kind == "panic":
                hits.append("PANIC")
            else:
                items = ",".join(_txt(p, subs) for p in post)
                hits.append(("ERR | %s" % items) if kind == "err" else "OK %s | %s" % (_txt(top, subs), items))
    if not hits or any(h != hits[0] for h in hits):
        raise Inconclusive("list[k] += str %s: %d paths enabled" % (s.arm, len(hits)))
    return hits[0]


def str_assign_validate(summaries, nat_eval_raw, release):
    vecs, want = [], {}
    for si, s in enumerate(summaries):
        ev = [0x61 + i for i in range(s.n)]
        vid = "sa%d" % si
        vecs.append((vid, s.native_spec(), str_assign_native_args(s, ev, 0x7A)))
        want[vid] = (s, ev, 0x7A)
    res = nat_eval_raw(vecs, release)
    mism = []
    for vid, (s, ev, vv) in want.items():
        pred = norm_native(str_assign_eval(s, ev, vv))
        got = norm_native(res[vid])
        if pred != got:
            mism.append((s.arm, ev, vv, "engine", pred, "real", got))
    return len(vecs), mism


def str_assign_check(s, profile, qs, timeout_ms, seed):
    out = []
    e, v, k = s.elems, s.value, s.k
    lab0 = "list[k]+=str[%s]/%s" % (s.arm, profile)

    def ask(cond, label):
        qs.obligations += 1
        t = time.time()
        c = z3.simplify(cond)
        if z3.is_false(c):
            qs.discharged += 1
            return None
        r, m = Q.solve(c, timeout_ms, seed)
        qs.solver_s += time.time() - t
        if r == z3.unsat:
            qs.discharged += 1
            return None
        if r == z3.sat:
            qs.violated += 1

            def val(x, d):
                y = m.eval(x, model_completion=False)
                return y.as_long() if z3.is_bv_value(y) else d
            return [val(a, 0x61 + i) for i, a in enumerate(e)], val(v, 0x7A)
        qs.undecided.append(label)
        return None

    def finding(cls, w, detail):
        ev, vv = w
        f = Q.Finding("C13", "list.elem_assign", s.arm, cls, profile, str_assign_native_args(s, ev, vv), detail)
        f.native_op = s.native_spec()
        f.predicted_text = norm_native(str_assign_eval(s, ev, vv))
        f.predicted = None
        f.via = "instruction `bin_op_assign +=` through an element pointer (string elements)"
        f.human = "a = %r; a[%d] += %r" % ([chr(x) for x in ev], k, chr(vv))
        return f

    for pi, (pc, kind, msg, top, post) in enumerate(s.paths):
        lab = "%s:path%d" % (lab0, pi)
        if kind != "ok":
            w = ask(pc, lab + ":never-fails")
            if w:
                out.append(finding("spurious-failure", w, "appending to a string element fails (%s)" % kind))
            continue
        good = len(post) == s.n and all(len(p) == (2 if i == k else 1) for i, p in enumerate(post)) and len(top) == 2
        cond = z3.And(*[post[i][0] == e[i] for i in range(s.n)] + [post[k][1] == v, top[0] == e[k], top[1] == v]) if good else z3.BoolVal(False)
        w = ask(z3.And(pc, z3.Not(cond)), lab + ":ok=>element-then-value")
        if w:
            out.append(finding("wrong-contents", w, "the element does not become `element + value` (in this order), or another element changed"))
    return out


# ---------------------------------------------------------------- `a == b` on lists (Primitive::equals, vector arm)
class ListEqSummary:
    def __init__(self, n, m, a, b, paths, dt):
        self.n, self.m, self.a, self.b, self.paths, self.seconds = n, m, a, b, paths, dt
        self.method = "equals"

    @property
    def arm(self):
        return "len=%d,len=%d%s" % (self.n, self.m, ",nested" if getattr(self, "nested", False) else "")

    def native_spec(self):
        return "E:%d:%d%s" % (self.n, self.m, ":nested" if getattr(self, "nested", False) else "")


def summarize_list_eq(lk, n, m, nested=False):
    """nested: the two lists are [[a..]] and [[b..]] (one inner list each) - element equality is then list equality again"""
    from opkernels import FN_PATTERNS
    t = time.time()
    fn = targets.find_one(lk.mf, FN_PATTERNS["equals"])
    a = [z3.BitVec("a%d" % i, 32) for i in range(n)]
    b = [z3.BitVec("b%d" % i, 32) for i in range(m)]
    cells = {("gc", 0): gcmodels.gccell(Adt("Vec", None, [prim("Int", Sc("i32", e)) for e in a])),
             ("gc", 1): gcmodels.gccell(Adt("Vec", None, [prim("Int", Sc("i32", e)) for e in b]))}
    if nested:
        cells[("gc", 2)] = gcmodels.gccell(Adt("Vec", None, [vecp(("gc", 0))]))
        cells[("gc", 3)] = gcmodels.gccell(Adt("Vec", None, [vecp(("gc", 1))]))
        cells[("in", 0)] = vecp(("gc", 2))
        cells[("in", 1)] = vecp(("gc", 3))
    else:
        cells[("in", 0)] = vecp(("gc", 0))
        cells[("in", 1)] = vecp(("gc", 1))
    paths = []
    for o in lk.ex.run(fn, [Ref(("in", 0)), Ref(("in", 1))], cells=cells):
        pcz = z3.And(*o.pc) if o.pc else z3.BoolVal(True)
        if o.kind == "panic":
            paths.append((pcz, "panic", o.value.msg))
        elif o.value.variant == "Err":
            paths.append((pcz, "err", None))
        else:
            paths.append((pcz, "ok", o.value.fields[0].e))
    s_ = ListEqSummary(n, m, a, b, paths, time.time() - t)
    s_.nested = nested
    return s_


def list_eq_native_args(s, av, bv):
    return [("Int", x & 0xFFFFFFFF) for x in av] + [("Int", x & 0xFFFFFFFF) for x in bv]


def list_eq_eval(s, av, bv):
    subs = [(x, z3.BitVecVal(v, 32)) for x, v in list(zip(s.a, av)) + list(zip(s.b, bv))]
    hits = []
    for pc, kind, val in s.paths:
        if z3.is_true(z3.simplify(z3.substitute(pc, *subs))):
            hits.append("PANIC" if kind == "panic" else "ERR" if kind == "err" else "OK Bool:%d" % (1 if z3.is_true(z3.simplify(z3.substitute(val, *subs))) else 0))
    if not hits or any(h != hits[0] for h in hits):
        raise Inconclusive("list ==[%s]: %d paths" % (s.arm, len(hits)))
    return hits[0]


def list_eq_validate(summaries, nat_eval_raw, release):
    vecs, want = [], {}
    for si, s in enumerate(summaries):
        av = [10 + i for i in range(s.n)]
        for gi, bv in enumerate(([10 + i for i in range(s.m)], [10 + i + (1 if i == s.m - 1 else 0) for i in range(s.m)])):
            vid = "e%d_%d" % (si, gi)
            vecs.append((vid, s.native_spec(), list_eq_native_args(s, av, bv)))
            want[vid] = (s, av, bv)
    res = nat_eval_raw(vecs, release)
    mism = []
    for vid, (s, av, bv) in want.items():
        pred, got = norm_native(list_eq_eval(s, av, bv)), norm_native(res[vid])
        if pred != got:
            mism.append((s.arm, av, bv, "engine", pred, "real", got))
    return len(vecs), mism


def list_eq_check(s, profile, qs, timeout_ms, seed, prop="C13"):
    out = []
    want = z3.And(*[x == y for x, y in zip(s.a, s.b)]) if (s.n == s.m and s.n) else z3.BoolVal(s.n == s.m)

    def ask(cond, label):
        qs.obligations += 1
        t = time.time()
        c = z3.simplify(cond)
        if z3.is_false(c):
            qs.discharged += 1
            return None
        r, m = Q.solve(c, timeout_ms, seed)
        qs.solver_s += time.time() - t
        if r == z3.unsat:
            qs.discharged += 1
            return None
        if r == z3.sat:
            qs.violated += 1

            def val(x, d):
                y = m.eval(x, model_completion=False)
                return y.as_long() if z3.is_bv_value(y) else d
            return [val(x, 10 + i) for i, x in enumerate(s.a)], [val(x, 10 + i) for i, x in enumerate(s.b)]
        qs.undecided.append(label)
        return None

    for pi, (pc, kind, val) in enumerate(s.paths):
        lab = "list ==[%s]/%s:path%d" % (s.arm, profile, pi)
        if prop == "C17":
            if kind == "panic":
                w = ask(pc, lab + ":no-panic")
                if w:
                    f = Q.Finding("C17", "list.equals", s.arm, "panic:" + Q.panic_class(val), profile, list_eq_native_args(s, *w), "Rust panic `%s` comparing lists" % val)
                    f.native_op, f.predicted_text, f.predicted, f.via, f.human = s.native_spec(), "PANIC", None, "function", "%r == %r" % w
                    out.append(f)
            else:
                qs.obligations += 1
                qs.discharged += 1
            continue
        if kind == "panic":
            continue
        cond = pc if kind == "err" else z3.And(pc, val != want)
        w = ask(cond, lab + ":equal-iff-same-length-and-elements")
        if w:
            f = Q.Finding("C13", "list.equals", s.arm, "spurious-failure" if kind == "err" else "wrong-result", profile, list_eq_native_args(s, *w),
                          "two lists compare equal although they differ in length or in an element (or unequal although identical)")
            f.native_op = s.native_spec()
            f.predicted_text = norm_native(list_eq_eval(s, *w))
            f.predicted = None
            f.via = "function"
            f.human = "%r == %r" % w
            out.append(f)
    return out
