"""C20: `mscript clean DIR` deletes exactly the `*.mmm` files directly inside DIR and reports how many.

The real `clean_command` (src/main.rs, MIR of the binary crate) is executed symbolically against the file-system environment of
fsmodels.py: the directory listing (number of entries <= K, name lengths <= L, every character symbolic), every I/O outcome
(read_dir, each yielded entry, each deleting call) an arbitrary environment value.  Obligations, per feasible path, for ALL names:

  no-panic                  no path panics
  only-remove_file          the only deleting primitive is remove_file, applied to <DIR>/<name of a listed entry>, at most once
                            per entry; the only directory listed is DIR itself (no recursion)
  deletes-only-mmm          a deleted entry's name has extension `mmm`            (len >= 5 and the name ends in ".mmm")
  deletes-every-mmm         an entry that was passed over has not the extension `mmm`
  fails-only-on-io-error    an Err result implies the environment reported an error
  reports-count             on success the printed "Removed {n} files" has n = number of successful deletions
"""
import time, re
import z3
import sym, models, strmodels, stridx, fsmodels, targets
import opcheck as Q
from sym import Sc, Adt, Ref, Opaque, Inconclusive

DOT, M = 0x2E, 0x6D
KMAX = {"quick": 2, "thorough": 3}
LMAX = {"quick": 6, "thorough": 6}
DELETERS = ("remove_file", "remove_dir", "remove_dir_all")


def allowed(c):
    return z3.And(z3.UGE(c, 0x20), z3.ULE(c, 0x7E), c != 0x2F)


def is_mmm(cs):
    """the meaning of `extension is mmm`, stated independently of std's Path::extension"""
    n = len(cs)
    if n < 5:
        return z3.BoolVal(False)
    return z3.And(cs[n - 4] == DOT, cs[n - 3] == M, cs[n - 2] == M, cs[n - 1] == M)


def is_mmm_text(name):
    return len(name) >= 5 and name.endswith(".mmm")


class CleanSummary:
    def __init__(self, lengths, vars_, pc, outs, dt):
        self.lengths, self.vars, self.pre, self.outs, self.seconds = tuple(lengths), vars_, pc, outs, dt

    @property
    def arm(self):
        return "names=" + ("-".join(map(str, self.lengths)) or "none")


class CleanKernels:
    def __init__(self, mf, overflow_checks, seed=0):
        self.mf = mf
        m = fsmodels.install(stridx.install(strmodels.install(models.base_models())))
        self.ex = sym.Executor(mf, overflow_checks, m, targets.generic_resolver(mf, ["clean_command"]), seed=seed)
        self.fn = "clean_command"
        mf.func(self.fn)

    def encoded_functions(self):
        out = {}
        for name in self.mf.order:
            if name == "clean_command" or name.startswith("clean_command::{closure"):
                if "promoted" in name:
                    continue
                out[name] = {"mir_item": name, "mir_lines": self.mf.func(name).nlines}
        return out

    def summarize(self, lengths):
        t = time.time()
        env, vars_, pc = fsmodels.make_env(list(lengths), allowed)
        # a directory holds no two entries of the same name
        names = vars_["names"]
        for i in range(len(names)):
            for j in range(i + 1, len(names)):
                if len(names[i]) == len(names[j]):
                    pc.append(z3.Not(z3.And(*[a == b for a, b in zip(names[i], names[j])])))
        outs = self.ex.run(self.fn, [Opaque("dir-arg", None)], cells={("fs",): env}, pc=pc)
        return CleanSummary(lengths, vars_, pc, outs, time.time() - t)


def shapes(tier):
    import itertools
    out = [()]
    for k in range(1, KMAX[tier] + 1):
        out += list(itertools.product(range(1, LMAX[tier] + 1), repeat=k))
    return out


# ---------------------------------------------------------------- path analysis
def analyse(o):
    """structure of one path: list of deletions [(kind, entry index | None)], yielded entries, read_dir calls, prints"""
    dels, yielded, lists, prints = [], [], [], []
    for e in o.effects:
        if e[0] in DELETERS:
            t = e[1]
            idx = None
            if isinstance(t, Adt) and t.ty == "PathBuf" and isinstance(t.fields[0], Opaque) and t.fields[0].tag == "listed-dir":
                idx = z3.simplify(t.fields[1].e).as_long()
            dels.append((e[0], idx))
        elif e[0] == "next":
            yielded.append(e[1])
        elif e[0] == "read_dir":
            lists.append(e[1])
        elif e[0] == "print":
            prints.append(e)
    return dels, yielded, lists, prints


_FLAG_CACHE = {}


def extra_error_flags(cond, known):
    """environment error flags introduced by models during the run (canonicalize, file_type ...): free Bool constants named *_err*
    other than the listing's own read_dir_err / entry_err<i> / remove_err<i>"""
    key = cond.get_id()
    if key not in _FLAG_CACHE:
        from z3 import z3util
        _FLAG_CACHE[key] = (cond, [x for x in z3util.get_vars(cond) if z3.is_bool(x) and "_err" in str(x)
                                   and not re.match(r"^(read_dir_err|entry_err\d+|remove_err\d+)$", str(x))])
    return _FLAG_CACHE[key][1]


def foreign_entries(o):
    """entries whose deletion went through a canonicalised path (the real counterpart: a symbolic link)"""
    out = []
    for e in o.effects:
        if e[0] in DELETERS and isinstance(e[1], Adt) and e[1].ty == "CanonicalPath":
            p = e[1].fields[0]
            if isinstance(p, Adt) and p.ty == "PathBuf":
                out.append(z3.simplify(p.fields[1].e).as_long())
    return out


def witness(s, model):
    def val(e, d):
        v = model.eval(e, model_completion=False)
        if z3.is_bv_value(v):
            return v.as_long()
        if z3.is_true(v):
            return True
        if z3.is_false(v):
            return False
        return d
    names = ["".join(chr(val(c, 0x61 + i)) for c in cs) for i, cs in enumerate(s.vars["names"])]
    # unconstrained characters default to distinct letters; make sure the defaults did not create duplicates / dot names
    return {"names": names, "entry_err": [val(e, False) for e in s.vars["entry_err"]],
            "remove_err": [val(e, False) for e in s.vars["remove_err"]], "read_dir_err": val(s.vars["read_dir_err"], False),
            "kinds": [val(k, 0) for k in s.vars["kinds"]]}


def check_summary(s, profile, qs, timeout_ms, seed):
    out = []
    v = s.vars
    no_env_error = z3.And(z3.Not(v["read_dir_err"]), *[z3.Not(e) for e in v["entry_err"] + v["remove_err"]])
    lab0 = "clean[%s]/%s" % (s.arm, profile)

    def ask(cond, label, cls, detail, o, as_dirs=(), as_links=()):
        qs.obligations += 1
        t = time.time()
        c = z3.simplify(cond)
        if z3.is_false(c):
            qs.discharged += 1
            return
        # prefer a witness without any I/O error, then one the real file system can realise (no per-entry listing errors)
        r, m = Q.solve(z3.And(c, no_env_error), timeout_ms, seed)
        if r != z3.sat:
            r, m = Q.solve(z3.And(c, *[z3.Not(e) for e in v["entry_err"]] + [z3.Not(v["read_dir_err"])]), timeout_ms, seed)
        if r != z3.sat:
            r, m = Q.solve(c, timeout_ms, seed)
        qs.solver_s += time.time() - t
        if r == z3.unsat:
            qs.discharged += 1
            if len(qs.samples) < 10:
                qs.samples.append({"obligation": label, "result": "unsat", "smt_size": len(c.sexpr())})
            return
        if r != z3.sat:
            qs.undecided.append(label)
            return
        qs.violated += 1
        w = witness(s, m)
        dels, _, _, _ = analyse(o)
        # entries whose deleting call fails in the witness are realised as directories (remove_file fails on them)
        kinds = [{0: "f", 1: "d", 2: "l"}[k] for k in w["kinds"]]
        for k, (kind, idx) in enumerate(dels):
            if idx is not None and k < len(w["remove_err"]) and w["remove_err"][k]:
                kinds[idx] = "d"
        for idx in as_dirs:
            kinds[idx] = "d"
        for idx in as_links:
            kinds[idx] = "l"
        f = Q.Finding("C20", "clean", s.arm, cls, profile, [], detail)
        f.fs = {"entries": [[n, k] for n, k in zip(w["names"], kinds)], "entry_err": w["entry_err"], "read_dir_err": w["read_dir_err"]}
        f.native_op = "cli:clean"
        f.via = "cli"
        out.append(f)

    base_no_env_error = no_env_error
    known_flags = v["entry_err"] + v["remove_err"] + [v["read_dir_err"]]
    for pi, o in enumerate(s.outs):
        pcz = getattr(o, "_pcz", None)
        if pcz is None:
            pcz = o._pcz = z3.And(*o.pc) if o.pc else z3.BoolVal(True)
        lab = "%s:path%d" % (lab0, pi)
        extra = extra_error_flags(pcz, known_flags)
        no_env_error = z3.And(base_no_env_error, *[z3.Not(x) for x in extra]) if extra else base_no_env_error
        if o.kind == "panic":
            ask(pcz, lab + ":no-panic", "panic", "Rust panic `%s`" % o.value.msg, o)
            continue
        dels, yielded, lists, prints = analyse(o)
        names = v["names"]
        # only remove_file, on listed entries, once each; DIR is the only directory listed
        bad = None
        if any(k != "remove_file" for k, _ in dels):
            bad = ("deletes-with-" + [k for k, _ in dels if k != "remove_file"][0], "a directory-removing primitive is used")
        elif any(i is None for _, i in dels):
            bad = ("deletes-foreign-path", "remove_file is applied to a path that is not <DIR>/<listed name>")
        elif len({i for _, i in dels}) != len(dels):
            bad = ("deletes-twice", "an entry is deleted twice")
        elif len(lists) != 1 or not (isinstance(lists[0], Opaque) and lists[0].tag == "dir-arg"):
            bad = ("lists-other-directory", "a directory other than DIR is listed (%d read_dir calls)" % len(lists))
        if bad:
            # a directory-removing primitive shows on a directory: realise its targets as directories in the replay
            ask(pcz, lab + ":only-remove_file", bad[0], bad[1], o, as_dirs=[i for k, i in dels if k != "remove_file" and i is not None],
                as_links=foreign_entries(o))
            continue
        qs.obligations += 1
        qs.discharged += 1
        removed = [i for _, i in dels]
        for i in removed:
            ask(z3.And(pcz, z3.Not(is_mmm(names[i]))), lab + ":deletes-only-mmm:%d" % i, "deletes-non-mmm",
                "an entry whose extension is not `mmm` is deleted", o)
        is_ok = o.value.variant == "Ok"
        got = [i for i in yielded if i < len(names)]
        completed = got if is_ok else got[:-1]
        for i in completed:
            if i in removed:
                continue
            ask(z3.And(pcz, is_mmm(names[i]), z3.Not(v["entry_err"][i])), lab + ":deletes-every-mmm:%d" % i, "keeps-mmm",
                "a listed `*.mmm` entry is passed over", o)
        if is_ok and len(got) != len(names):
            ask(pcz, lab + ":visits-every-entry", "keeps-mmm", "the command succeeds without visiting every entry", o)
        if not is_ok:
            ask(z3.And(pcz, no_env_error), lab + ":fails-only-on-io-error", "fails-without-io-error",
                "the command fails although no file-system operation failed", o)
            continue
        cnt = [p for p in prints if any(x[0] == "lit" and "Removed" in x[1] for x in p[1])]
        if len(cnt) != 1 or not cnt[0][2] or not isinstance(cnt[0][2][0], Sc):
            ask(pcz, lab + ":reports-count", "count-not-reported", "no `Removed {n} files` line with a numeric count is printed", o)
            continue
        e = cnt[0][2][0].e
        bits = e.size()
        good = z3.Sum([z3.If(v["remove_err"][k], z3.BitVecVal(0, bits), z3.BitVecVal(1, bits)) for k in range(len(dels))]) if dels else z3.BitVecVal(0, bits)
        ask(z3.And(pcz, e != good), lab + ":reports-count", "wrong-count", "the reported count differs from the number of files deleted", o)
    return out


# ---------------------------------------------------------------- prediction on concrete listings (translator validation)
def predict(s, names, kinds=None, read_dir_err=False):
    """engine B's prediction for a concrete listing: (result, set of deleted names, reported count).  The outcome of each
    deleting call follows the std contract for the entry kind: remove_file fails on a directory, remove_dir* fail on a file."""
    kinds = kinds or ["f"] * len(names)
    rm_err = [False] * len(names)
    for _ in range(len(names) + 1):
        res, dels, canon = _predict_once(s, names, rm_err, read_dir_err, kinds)
        want = list(rm_err)
        nth = 0
        for k, (kind, idx) in enumerate(dels):
            if idx is None and nth < len(canon):
                idx = canon[nth]          # deletion through the canonicalised path of entry idx (a link resolves to a regular file)
                nth += 1
                if kinds[idx] == "l":
                    continue
            if idx is not None and k < len(want):
                want[k] = (kind == "remove_file") == (kinds[idx] == "d")
        if want == rm_err:
            return res
        rm_err = want
    raise Inconclusive("clean[%s]: prediction does not stabilise on %r" % (s.arm, names))


def _predict_once(s, names, rm_err, read_dir_err, kinds=None):
    v = s.vars
    subs = []
    for cs, n in zip(v["names"], names):
        subs += [(c, z3.BitVecVal(ord(x), 32)) for c, x in zip(cs, n)]
    for e in v["entry_err"]:
        subs.append((e, z3.BoolVal(False)))
    for e, b in zip(v["remove_err"], rm_err):
        subs.append((e, z3.BoolVal(b)))
    subs.append((v["read_dir_err"], z3.BoolVal(read_dir_err)))
    for kv, kk in zip(v["kinds"], kinds or ["f"] * len(names)):
        subs.append((kv, z3.BitVecVal({"f": 0, "d": 1, "l": 2}[kk], 8)))
    known_ids = {x.get_id() for x, _ in subs}
    hits = []
    alld = []
    allc = []
    for o in s.outs:
        pcz = getattr(o, "_pcz", None)
        if pcz is None:
            pcz = o._pcz = z3.And(*o.pc) if o.pc else z3.BoolVal(True)
        more = [(x, z3.BoolVal(False)) for x in extra_error_flags(pcz, [x for x, _ in subs])]
        if not z3.is_true(z3.simplify(z3.substitute(pcz, *(subs + more)))):
            continue
        if o.kind == "panic":
            hits.append(("PANIC", frozenset(), None))
            alld.append([])
            allc.append([])
            continue
        dels, _, _, prints = analyse(o)
        alld.append(dels)
        cnt = None
        for p in prints:
            if any(x[0] == "lit" and "Removed" in x[1] for x in p[1]) and p[2] and isinstance(p[2][0], Sc):
                c = z3.simplify(z3.substitute(p[2][0].e, *subs))
                cnt = c.as_signed_long() if z3.is_bv_value(c) else None
        canon = foreign_entries(o)
        allc.append(canon)
        gone = set(names[i] for k, (_, i) in enumerate(dels) if i is not None and not rm_err[k])
        kk = kinds or ["f"] * len(names)
        nth = 0
        for k, (_, i) in enumerate(dels):
            if i is None and nth < len(canon):
                j = canon[nth]
                nth += 1
                if kk[j] != "l" and not rm_err[k]:
                    gone.add(names[j])
        hits.append((o.value.variant.upper(), frozenset(gone), cnt))
    if len(hits) != 1:
        raise Inconclusive("clean[%s]: %d paths enabled on %r" % (s.arm, len(hits), names))
    return hits[0], alld[0], allc[0]


POOL = {1: ["a", "m"], 2: [".m", "a.", "mm"], 3: ["mmm", ".mm", "a.m"], 4: [".mmm", "ammm", "a.mm", "a.b."],
        5: ["a.mmm", "b.MMM", "..mmm", "cmmmm", "d.mm.", " .mmm"], 6: ["ab.mmm", "c.mmmm", "d.mmm.", "e..mmm", ".f.mmm", "g.xmmm"],
        7: ["a.b.mmm", "c.mmm.d", "mmm.mmm"]}


def grid(s, limit=12):
    import itertools
    pools = [POOL[n] for n in s.lengths]
    out = [list(c) for c in itertools.product(*pools) if len(set(c)) == len(c)]
    if len(out) > limit:
        step = len(out) / float(limit)
        out = [out[int(i * step)] for i in range(limit)]
    return out
