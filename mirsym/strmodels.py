"""Strings whose LENGTH is concrete per path and whose CHARACTERS are symbolic (32-bit code points): SStr.

Used for the codec kernels (C04/C18).  Every std model below follows the documented behaviour of the std function on char
sequences; functions that branch on a character (`replace`, `contains`, `is_whitespace`, `match c {..}` in repo code) fork the
path, so each finished path knows the exact shape of every string and only the characters stay symbolic."""
import re
import z3
from sym import Sc, Adt, Ref, Opaque, Panic, Inconclusive, UNIT, INT_TYPES, bv, boolv
from models import ok, err, some, NONE, scalar, m_opaque_fmt, _vec_at


def sstr(chars):
    return Adt("SStr", None, tuple(chars))


def is_sstr(v):
    return isinstance(v, Adt) and v.ty == "SStr"


def ch(n):
    return Sc("char", z3.BitVecVal(n, 32))


_ESC = {"n": "\n", "t": "\t", "r": "\r", "0": "\0", "\\": "\\", '"': '"', "'": "'"}


def literal_chars(text):
    """rust string literal as printed in MIR ("...") -> list of code points"""
    t = text.strip()
    if t.startswith("b"):
        t = t[1:]
    if not (t.startswith('"') and t.endswith('"')):
        raise Inconclusive("not a string literal: " + text)
    t = t[1:-1]
    out, i = [], 0
    while i < len(t):
        c = t[i]
        if c == "\\":
            n = t[i + 1]
            if n == "x":
                out.append(int(t[i + 2:i + 4], 16))
                i += 4
                continue
            if n == "u":
                j = t.index("}", i)
                out.append(int(t[i + 3:j], 16))
                i = j + 1
                continue
            out.append(ord(_ESC[n]))
            i += 2
            continue
        out.append(ord(c))
        i += 1
    return out


def to_sstr(ex, st, v):
    """value (SStr, reference to one, string literal, Cow<str>) -> SStr or None"""
    n = 0
    while isinstance(v, Ref) and n < 8:
        v = ex.read(st, v.cell, v.path)
        n += 1
    if is_sstr(v):
        return v
    if isinstance(v, Opaque) and v.tag == "strlit":
        return sstr([ch(c) for c in literal_chars(v.data)])
    if isinstance(v, Adt) and v.ty == "Cow":
        return to_sstr(ex, st, v.fields[0])
    if isinstance(v, Opaque) and v.tag == "const":
        # a `static NAME: &str` of the crate, referenced through its allocation
        import re as _re, mir as _mir
        m = _re.match(r"^\{(alloc\d+): &&str\}$", str(v.data).strip())
        if m:
            text = _mir.static_str(ex.mf, m.group(1))
            if text is not None:
                return sstr([ch(ord(c)) for c in text])
    return None


def need(ex, st, v, what):
    s = to_sstr(ex, st, v)
    if s is None:
        raise Inconclusive("%s: expected a symbolic-char string, got %r" % (what, v))
    return s


def _string_cell(ex, st, ref):
    if not isinstance(ref, Ref):
        raise Inconclusive("String method on non-reference %r" % (ref,))
    n = 0
    while n < 6:
        v = ex.read(st, ref.cell, ref.path)
        if isinstance(v, Ref):
            ref = v
            n += 1
            continue
        return ref, v
    raise Inconclusive("reference chain")


def m_string_new(ex, st, callee, args):
    return [(None, sstr([]))]


def m_string_push(ex, st, callee, args):
    ref, v = _string_cell(ex, st, args[0])
    s = need(ex, st, v, callee)
    c = scalar(ex, st, args[1])
    ex.write(st, ref.cell, ref.path, sstr(s.fields + (c,)))
    return [(None, UNIT)]


def m_string_push_str(ex, st, callee, args):
    ref, v = _string_cell(ex, st, args[0])
    s = need(ex, st, v, callee)
    t = need(ex, st, args[1], callee)
    ex.write(st, ref.cell, ref.path, sstr(s.fields + t.fields))
    return [(None, UNIT)]


def m_string_add(ex, st, callee, args):
    s = need(ex, st, args[0], callee)
    t = need(ex, st, args[1], callee)
    return [(None, sstr(s.fields + t.fields))]


def m_string_is_empty(ex, st, callee, args):
    return [(None, boolv(len(need(ex, st, args[0], callee).fields) == 0))]


def m_string_len_chars(ex, st, callee, args):
    raise Inconclusive("byte length of a symbolic-char string is not modelled (%s)" % callee)


def m_string_clear(ex, st, callee, args):
    ref, v = _string_cell(ex, st, args[0])
    need(ex, st, v, callee)
    ex.write(st, ref.cell, ref.path, sstr([]))
    return [(None, UNIT)]


def m_string_view(ex, st, callee, args):
    """clone / to_string / to_owned / deref / as_str / as_ref / borrow: the same character sequence"""
    s = to_sstr(ex, st, args[0])
    if s is None:
        return None
    return [(None, s)]


def m_str_replace_char(ex, st, callee, args):
    """str::replace::<char>(self, from: char, to: &str): every occurrence replaced; forks on which characters match"""
    s = need(ex, st, args[0], callee)
    pat = scalar(ex, st, args[1])
    to = need(ex, st, args[2], callee)
    n = len(s.fields)
    if n > 24:
        raise Inconclusive("replace on a string longer than the bound")
    out = []
    for mask in range(1 << n):
        conds, chars = [], []
        for i, c in enumerate(s.fields):
            hit = (mask >> i) & 1
            conds.append(c.e == pat.e if hit else c.e != pat.e)
            chars += list(to.fields) if hit else [c]
        out.append((z3.And(*conds) if conds else z3.BoolVal(True), sstr(chars)))
    return out


def m_str_contains_char(ex, st, callee, args):
    s = need(ex, st, args[0], callee)
    pat = scalar(ex, st, args[1])
    if not s.fields:
        return [(None, boolv(False))]
    any_ = z3.Or(*[c.e == pat.e for c in s.fields])
    return [(any_, boolv(True)), (z3.Not(any_), boolv(False))]


def m_chars(ex, st, callee, args):
    s = need(ex, st, args[0], callee)
    return [(None, Adt("CharsIter", None, [s, bv("usize", 0)]))]


def m_chars_next(ex, st, callee, args):
    ref, it = _string_cell(ex, st, args[0])
    if not (isinstance(it, Adt) and it.ty == "CharsIter"):
        raise Inconclusive("Chars::next on %r" % (it,))
    s, idx = it.fields
    i = z3.simplify(idx.e).as_long()
    if i >= len(s.fields):
        return [(None, NONE)]
    ex.write(st, ref.cell, ref.path, Adt("CharsIter", None, [s, bv("usize", i + 1)]))
    return [(None, some(s.fields[i]))]


WHITE_SPACE = [(0x09, 0x0D), (0x20, 0x20), (0x85, 0x85), (0xA0, 0xA0), (0x1680, 0x1680), (0x2000, 0x200A), (0x2028, 0x2029),
               (0x202F, 0x202F), (0x205F, 0x205F), (0x3000, 0x3000)]


def is_whitespace(e):
    """char::is_whitespace: the Unicode White_Space property"""
    return z3.Or(*[(e == lo) if lo == hi else z3.And(z3.UGE(e, lo), z3.ULE(e, hi)) for lo, hi in WHITE_SPACE])


def m_is_whitespace(ex, st, callee, args):
    c = scalar(ex, st, args[0])
    w = is_whitespace(c.e)
    return [(w, boolv(True)), (z3.Not(w), boolv(False))]


def m_is_ascii_whitespace(ex, st, callee, args):
    """char::is_ascii_whitespace: U+0020, U+0009, U+000A, U+000C, U+000D (not U+000B)"""
    c = scalar(ex, st, args[0])
    e = c.e
    w = z3.Or(*[e == z3.BitVecVal(k, e.size()) for k in (0x20, 0x09, 0x0A, 0x0C, 0x0D)])
    return [(w, boolv(True)), (z3.Not(w), boolv(False))]


# ---------------------------------------------------------------- iterator adaptors that take closures (closures are pure here)
def _closure_or_fail(ex, callee):
    fn = ex.closure_fn(callee)
    if fn is None:
        raise Inconclusive("no MIR item for the closure in " + callee)
    return fn


def _iter_items(ex, st, it):
    """remaining items of a CharsIter / SliceIter value (or reference to one) as a list of values"""
    v = it
    n = 0
    while isinstance(v, Ref) and n < 6:
        v = ex.read(st, v.cell, v.path)
        n += 1
    if isinstance(v, Adt) and v.ty == "CharsIter":
        s_, idx = v.fields
        return list(s_.fields[z3.simplify(idx.e).as_long():])
    if isinstance(v, Adt) and v.ty == "SliceIter":
        ref, seq = _vec_at(ex, st, v.fields[0])
        i0 = z3.simplify(v.fields[1].e).as_long()
        return [Ref(ref.cell, ref.path + (i,)) for i in range(i0, len(seq.fields))]
    if isinstance(v, Adt) and v.ty == "MapIter":
        raise Inconclusive("nested iterator adaptors")
    raise Inconclusive("iterator %r" % (v,))


def m_iter_any_all(ex, st, callee, args):
    """Iterator::any / all with a pure closure: the closure is run on every item, results are combined (no short circuit)"""
    from sym import Invoke
    fn = _closure_or_fail(ex, callee)
    items = _iter_items(ex, st, args[0])
    is_any = "::any::<" in callee
    env = args[1]

    def step(i, acc):
        # `acc` is threaded through the continuations (never shared): the closure may fork the path
        if i == len(items):
            if not acc:
                return boolv(not is_any)
            return Sc("bool", z3.Or(*acc) if is_any else z3.And(*acc))
        return Invoke(fn, [env, items[i]], lambda st2, val: step(i + 1, acc + [val.e]))

    return [(None, step(0, []))]


def m_str_contains_pred(ex, st, callee, args):
    """str::contains(|c| pred(c)): some character satisfies the (pure) closure"""
    from sym import Invoke
    fn = _closure_or_fail(ex, callee)
    s_ = need(ex, st, args[0], callee)
    items = list(s_.fields)
    env = args[1]

    def step(i, acc):
        if i == len(items):
            return Sc("bool", z3.Or(*acc)) if acc else boolv(False)
        return Invoke(fn, [env, items[i]], lambda st2, val: step(i + 1, acc + [val.e]))
    return [(None, step(0, []))]


def m_iter_map(ex, st, callee, args):
    return [(None, Adt("MapIter", None, [args[0], args[1], Opaque("closure-fn", _closure_or_fail(ex, callee))]))]


def m_map_collect(ex, st, callee, args):
    from sym import Invoke
    v = args[0]
    if not (isinstance(v, Adt) and v.ty == "MapIter"):
        raise Inconclusive("collect on %r" % (v,))
    inner, env, fnop = v.fields
    fn = fnop.data
    items = _iter_items(ex, st, inner)

    def step(i, done):
        if i == len(items):
            return Adt("Vec", None, done)
        return Invoke(fn, [env, items[i]], lambda st2, val: step(i + 1, done + [val]))
    return [(None, step(0, []))]


def m_join(ex, st, callee, args):
    ref, seq = _vec_at(ex, st, args[0])
    sep = need(ex, st, args[1], callee)
    chars = []
    for i, item in enumerate(seq.fields):
        if i:
            chars += list(sep.fields)
        chars += list(need(ex, st, item, callee).fields)
    return [(None, sstr(chars))]


def m_trim_end(ex, st, callee, args):
    """str::trim_end: strip trailing White_Space characters; forks on how many there are"""
    s_ = need(ex, st, args[0], callee)
    cs = list(s_.fields)
    out = []
    for k in range(len(cs) + 1):      # k trailing characters are removed
        conds = [is_whitespace(c.e) for c in cs[len(cs) - k:]]
        if k < len(cs):
            conds.append(z3.Not(is_whitespace(cs[len(cs) - k - 1].e)))
        out.append((z3.And(*conds) if conds else z3.BoolVal(True), sstr(cs[:len(cs) - k])))
    return out


# `{:?}` of a str: str::escape_debug.  Characters that Rust prints as \u{..} (not printable / grapheme-extending): an
# under-approximation of that set is enough here - it is only reached when the code under test switched to Debug formatting,
# the reader rejects every \u escape whatever its digits are, and every counterexample is replayed natively.
DEBUG_UNICODE_ESCAPED = [(0x01, 0x08), (0x0B, 0x0C), (0x0E, 0x1F), (0x7F, 0x9F), (0xA0, 0xA0), (0xAD, 0xAD), (0x300, 0x36F), (0x1680, 0x1680),
                         (0x2000, 0x200F), (0x2028, 0x202F), (0x205F, 0x2064), (0x3000, 0x3000), (0xFE00, 0xFE0F), (0xFEFF, 0xFEFF), (0xE0100, 0xE01EF)]


def debug_escape_forks(s_):
    """-> list of (condition, chars) for the Debug rendering of a symbolic-char string, surrounding quotes included"""
    import itertools
    if len(s_.fields) > 3:
        raise Inconclusive("Debug formatting of a string longer than 3 symbolic characters")
    simple = {0x22: '\\"', 0x5C: "\\\\", 0x0A: "\\n", 0x0D: "\\r", 0x09: "\\t", 0x00: "\\0"}
    per_char = []
    for c in s_.fields:
        alts = []
        others = []
        for code, text in simple.items():
            alts.append((c.e == code, [ch(ord(x)) for x in text]))
            others.append(c.e != code)
        uni = z3.Or(*[(c.e == lo) if lo == hi else z3.And(z3.UGE(c.e, lo), z3.ULE(c.e, hi)) for lo, hi in DEBUG_UNICODE_ESCAPED])
        alts.append((uni, [ch(ord(x)) for x in "\\u{0}"]))
        alts.append((z3.And(z3.Not(uni), *others), [c]))
        per_char.append(alts)
    out = []
    for combo in itertools.product(*per_char):
        conds = [c for c, _ in combo]
        chars = [ch(0x22)]
        for _, cs in combo:
            chars += cs
        chars.append(ch(0x22))
        out.append((z3.And(*conds) if conds else z3.BoolVal(True), chars))
    return out


def decode_template(data):
    """rustc's packed format template: <len><literal bytes> | 0xC0 (next argument) | 0x00 (end)"""
    b = literal_chars(data)
    out, i = [], 0
    while i < len(b):
        x = b[i]
        if x == 0:
            break
        if x == 0xC0:
            out.append(("arg",))
            i += 1
            continue
        if x == 0xC8:
            # placeholder with an explicit argument position (u16 LE); later implicit placeholders continue after it
            out.append(("arg", b[i + 1] | (b[i + 2] << 8)))
            i += 3
            continue
        if x >= 0x80:
            raise Inconclusive("format template byte 0x%x not understood" % x)
        out.append(("lit", bytes(b[i + 1:i + 1 + x]).decode("utf-8")))
        i += 1 + x
    return out


def m_format(ex, st, callee, args):
    """alloc::fmt::format(Arguments): literal pieces and Display of char / str arguments; anything else stays opaque"""
    a = args[0]
    try:
        if not (isinstance(a, Opaque) and a.tag == "fmt"):
            raise Inconclusive("opaque")
        name, fargs = a.data
        if "from_str" in name:
            lit = fargs[0]
            return [(None, need(ex, st, lit, callee))]
        tmpl = decode_template(fargs[0].data)
        arr = ex.deref(st, fargs[1])
        items = list(arr.fields)
        variants = [(z3.BoolVal(True), [])]      # (condition, chars so far): Debug formatting forks on character classes
        argi = 0
        for piece in tmpl:
            if piece[0] == "lit":
                variants = [(c, cs + [ch(ord(x)) for x in piece[1]]) for c, cs in variants]
                continue
            if len(piece) > 1:
                argi = piece[1]
            if argi >= len(items):
                raise Inconclusive("format: more placeholders than arguments")
            it = items[argi]
            argi += 1
            if not (isinstance(it, Opaque) and it.tag == "fmt" and ("new_display" in it.data[0] or "new_debug" in it.data[0])):
                raise Inconclusive("opaque")
            v = it.data[1][0]
            val = ex.deref(st, v)
            if "new_debug" in it.data[0]:
                s = to_sstr(ex, st, v)
                if s is None:
                    raise Inconclusive("opaque")
                forks = debug_escape_forks(s)
                variants = [(z3.And(c, fc), cs + fcs) for c, cs in variants for fc, fcs in forks]
                continue
            if isinstance(val, Sc) and val.ty == "char":
                variants = [(c, cs + [val]) for c, cs in variants]
                continue
            s = to_sstr(ex, st, v)
            if s is None:
                raise Inconclusive("opaque")
            variants = [(c, cs + list(s.fields)) for c, cs in variants]
        if len(variants) == 1:
            return [(None, sstr(variants[0][1]))]
        return [(c, sstr(cs)) for c, cs in variants]
    except Inconclusive:
        return m_opaque_fmt(ex, st, callee, args)


def m_box_slice(ex, st, callee, args):
    """Vec::into_boxed_slice / <[T] as Index<RangeFull>>::index: the same element sequence"""
    return [(None, args[0])]


def m_unit(ex, st, callee, args):
    return [(None, UNIT)]


def install(m):
    def wrap(h, fallback_pattern=None):
        return h

    pre = [
        (r"^String::new$", m_string_new),
        (r"^String::push$", m_string_push),
        (r"^String::push_str$|^<String as (std::ops::)?AddAssign<&str>>::add_assign$", m_string_push_str),
        (r"^<String as (std::ops::)?Add<&str>>::add$", m_string_add),
        (r"^String::is_empty$|^(core::)?str::<impl str>::is_empty$", m_string_is_empty),
        (r"^String::clear$", m_string_clear),
        (r"^(core::|alloc::)?str::<impl str>::replace::<char>$", m_str_replace_char),
        (r"^(core::)?str::<impl str>::contains::<char>$", m_str_contains_char),
        (r"^(core::)?str::<impl str>::contains::<\{closure@", m_str_contains_pred),
        (r"^(core::)?str::<impl str>::chars$", m_chars),
        (r"^<Chars<'_> as IntoIterator>::into_iter$", lambda ex, st, c, a: [(None, a[0])]),
        (r"^<Chars<'_> as Iterator>::next$", m_chars_next),
        (r"^char::methods::<impl char>::is_whitespace$", m_is_whitespace),
        (r"^(core::)?char::methods::<impl char>::is_ascii_whitespace$", m_is_ascii_whitespace),
        (r"^<Chars<'_> as Iterator>::(any|all)::<", m_iter_any_all),
        (r"^<std::slice::Iter<'_, .*> as Iterator>::(any|all)::<", m_iter_any_all),
        (r"^<(std::slice::Iter<'_, .*>|Chars<'_>) as Iterator>::map::<", m_iter_map),
        (r"^<Map<.*> as Iterator>::collect::<Vec<.*>>$|^<std::iter::Map<.*> as Iterator>::collect::<Vec<.*>>$", m_map_collect),
        (r"^(core::|alloc::)?slice::<impl \[String\]>::join::<&str>$|^<\[String\] as .*Join<&str>>::join$", m_join),
        (r"^(core::)?str::<impl str>::trim_end$", m_trim_end),
        (r"^format$|^(std|alloc)::fmt::format$", m_format),
        (r"^Vec::<.*>::into_boxed_slice$|^<\[.*\] as (std::ops::)?Index<RangeFull>>::index$|^<Vec<.*> as (std::ops::)?Index<RangeFull>>::index$", m_box_slice),
        (r"^<&\[.*\] as IntoIterator>::into_iter$|^<&Vec<.*> as IntoIterator>::into_iter$", None),
    ]
    views = r"^<String as (ToString|Clone|Deref|Borrow<str>|AsRef<str>)>::(to_string|clone|deref|borrow|as_ref)$|^String::as_str$|^<(String|str) as ToOwned>::to_owned$|^<Cow<'_, str> as (AsRef<str>|Deref)>::(as_ref|deref)$"
    old = m.lookup

    table = []
    for p, h in pre:
        if h is not None:
            table.append((re.compile(p), h))
    # string views: use the SStr view when the operand is one, otherwise fall through to the base models
    base_table = list(m.table)
    view_re = re.compile(views)

    def view_or_base(ex, st, callee, args):
        r = m_string_view(ex, st, callee, args)
        if r is not None:
            return r
        for rx, h in base_table:
            if rx.search(callee):
                return h(ex, st, callee, args)
        raise Inconclusive("no model for " + callee)
    view_or_base.__name__ = "m_string_view"
    table.append((view_re, view_or_base))
    from models import m_iter_mut
    table.append((re.compile(r"^<&\[.*\] as IntoIterator>::into_iter$|^<&Vec<.*> as IntoIterator>::into_iter$"), m_iter_mut))
    m.table = table + m.table
    m.cache.clear()
    return m
