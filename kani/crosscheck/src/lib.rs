//! Engine A-lite: Kani/CBMC cross-check of a subset of the C05 obligations on the COMPILED operator impls.
//! Second, independent engine for the integer arms that engine B (mirsym) decides from MIR: same oracle, written in Rust.
//! Generated per (operator, left kind, right kind): the enum tags are concrete at construction (see DESIGN.md §1).
#![allow(unused)]
use bytecode::BytecodePrimitive as P;

#[cfg(kani)]
mod harnesses {
    use super::*;

    fn as_i128(p: &P) -> i128 {
        match p {
            P::Int(x) => *x as i128,
            P::BigInt(x) => *x,
            P::Byte(x) => *x as i128,
            _ => 0,
        }
    }

    /// (representable in the promoted kind?, the promoted kind as a rank 0 byte / 1 int / 2 bigint)
    fn fits(rank: u8, v: i128) -> bool {
        match rank {
            0 => (0..=255).contains(&v),
            1 => (i32::MIN as i128..=i32::MAX as i128).contains(&v),
            _ => true,
        }
    }

    fn rank(p: &P) -> u8 {
        match p {
            P::Byte(_) => 0,
            P::Int(_) => 1,
            _ => 2,
        }
    }

    macro_rules! arith_harness {
        ($name:ident, $lk:ident : $lt:ty, $rk:ident : $rt:ty, $apply:expr, $exact:expr) => {
            #[kani::proof]
            #[kani::unwind(2)]
            fn $name() {
                let a: $lt = kani::any();
                let b: $rt = kani::any();
                let l = P::$lk(a);
                let r = P::$rk(b);
                let rk = if rank(&l) > rank(&r) { rank(&l) } else { rank(&r) };
                let (x, y) = (as_i128(&l), as_i128(&r));
                // exact result in 128 bits (operands of the narrow arms are at most 32 bits wide, so no i128 overflow here)
                let exact: Option<i128> = $exact(x, y);
                // only the defined, representable cases: the others end in a failure (error or panic), see C05/C17 findings
                kani::assume(exact.is_some());
                let e = exact.unwrap();
                kani::assume(fits(rk, e));
                let out: anyhow_result::R = $apply(&l, &r);
                match out {
                    Ok(v) => {
                        assert!(rank(&v) == rk, "C05:kind");
                        assert!(as_i128(&v) == e, "C05:value");
                        std::mem::forget(v);
                    }
                    Err(e2) => {
                        std::mem::forget(e2);
                        assert!(false, "C05:spurious-failure");
                    }
                }
                kani::cover!(true, "reached");
                std::mem::forget(l);
                std::mem::forget(r);
            }
        };
    }

    mod anyhow_result {
        pub type R = <&'static super::P as std::ops::Sub>::Output;
    }
    fn op_sub(l: &P, r: &P) -> anyhow_result::R { l - r }
    fn op_and(l: &P, r: &P) -> anyhow_result::R { l & r }
    fn op_div(l: &P, r: &P) -> anyhow_result::R { l / r }
    fn op_rem(l: &P, r: &P) -> anyhow_result::R { l % r }

    fn sub(x: i128, y: i128) -> Option<i128> { Some(x - y) }
    fn and(x: i128, y: i128) -> Option<i128> { Some(x & y) }
    fn div(x: i128, y: i128) -> Option<i128> { if y == 0 { None } else { Some(x / y) } }
    fn rem(x: i128, y: i128) -> Option<i128> { if y == 0 { None } else { Some(x % y) } }

    arith_harness!(sub_int_int, Int: i32, Int: i32, op_sub, sub);
    arith_harness!(sub_int_byte, Int: i32, Byte: u8, op_sub, sub);
    arith_harness!(sub_byte_int, Byte: u8, Int: i32, op_sub, sub);
    arith_harness!(sub_byte_byte, Byte: u8, Byte: u8, op_sub, sub);
    arith_harness!(and_int_byte, Int: i32, Byte: u8, op_and, and);
    arith_harness!(and_byte_int, Byte: u8, Int: i32, op_and, and);
    arith_harness!(div_int_int, Int: i32, Int: i32, op_div, div);
    arith_harness!(div_byte_int, Byte: u8, Int: i32, op_div, div);
    arith_harness!(rem_int_byte, Int: i32, Byte: u8, op_rem, rem);
    arith_harness!(rem_byte_byte, Byte: u8, Byte: u8, op_rem, rem);

    macro_rules! cmp_harness {
        ($name:ident, $lk:ident : $lt:ty, $rk:ident : $rt:ty) => {
            #[kani::proof]
            #[kani::unwind(2)]
            fn $name() {
                let a: $lt = kani::any();
                let b: $rt = kani::any();
                let l = P::$lk(a);
                let r = P::$rk(b);
                let (x, y) = (as_i128(&l), as_i128(&r));
                assert!((l < r) == (x < y), "C05:lt");
                assert!((l >= r) == (x >= y), "C05:ge");
                match l.equals(&r) {
                    Ok(v) => assert!(v == (x == y), "C05:equals"),
                    Err(e) => {
                        std::mem::forget(e);
                        assert!(false, "C05:equals-fails");
                    }
                }
                kani::cover!(true, "reached");
                std::mem::forget(l);
                std::mem::forget(r);
            }
        };
    }

    cmp_harness!(cmp_int_int, Int: i32, Int: i32);
    cmp_harness!(cmp_int_byte, Int: i32, Byte: u8);
    cmp_harness!(cmp_bigint_int, BigInt: i128, Int: i32);
    cmp_harness!(cmp_int_bigint, Int: i32, BigInt: i128);
}
