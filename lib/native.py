"""Build and run the native harness (real code, concrete vectors) inside a scratch copy."""
import os, shutil, time
from vcommon import VERIF, run, env_offline, Inconclusive, log


class NativeBytecode:
    def __init__(self, scratch):
        self.s = scratch
        self.installed = False
        self.built = set()

    def install(self):
        if self.installed:
            return
        src = self.s.path("bytecode", "src")
        shutil.copy(os.path.join(VERIF, "native", "bytecode_harness.rs"), os.path.join(src, "verif_native.rs"))
        shutil.copy(os.path.join(VERIF, "native", "bytecode_harness_ext.rs"), os.path.join(src, "verif_native_ext.rs"))
        with open(os.path.join(src, "lib.rs")) as f:
            if "mod verif_native;" in f.read():
                self.installed = True
                return
        with open(os.path.join(src, "lib.rs"), "a") as f:
            f.write("\n#[cfg(test)]\nmod verif_native;\n")
        # read-only accessor for the harness (scratch copy only): the instruction list of a loaded function
        with open(os.path.join(src, "function.rs"), "a") as f:
            f.write("\n#[cfg(test)]\nimpl Function {\n    pub(crate) fn verif_instructions(&self) -> &[Instruction] {\n        &self.instructions\n    }\n}\n")
        self.installed = True

    def eval_raw(self, vectors, release):
        """like eval, but returns the raw result text per id (for kernels whose result is more than one value)"""
        self._raw = True
        try:
            return self.eval(vectors, release)
        finally:
            self._raw = False

    def eval(self, vectors, release):
        """vectors: list of (id, op, [(kind, int_bits), ...]) -> dict id -> result tuple ('OK', kind, bits|'nan') / ('ERR',) / ('PANIC',)"""
        self.install()
        prof = "release" if release else "dev"
        vec_path = os.path.join(self.s.dir, "vectors.%s.txt" % prof)
        res_path = os.path.join(self.s.dir, "results.%s.txt" % prof)
        with open(vec_path, "w") as f:
            for vid, op, args in vectors:
                f.write("%s %s %s\n" % (vid, op, " ".join("%s %x" % (k, v) for k, v in args)))
        if os.path.exists(res_path):
            os.remove(res_path)
        t = time.time()
        cmd = ["cargo", "test", "--offline", "--lib", "-p", "bytecode", "--target-dir", os.path.join(self.s.dir, "target-native")]
        if release:
            cmd.append("--release")
        cmd += ["verif_native_run", "--", "--nocapture", "--test-threads", "1"]
        p = run(cmd, cwd=self.s.repo, env=env_offline({"VERIF_VECTORS": vec_path, "VERIF_RESULTS": res_path}), timeout=1800, check=False)
        if p.returncode != 0 or not os.path.exists(res_path):
            raise Inconclusive("native harness run failed (%s): %s" % (prof, (p.stderr or "")[-3000:] + (p.stdout or "")[-1000:]))
        out = {}
        with open(res_path) as f:
            for line in f:
                t_ = line.split()
                if len(t_) < 2:
                    continue
                if getattr(self, "_raw", False):
                    out[t_[0]] = " ".join(t_[1:])
                    continue
                if t_[1] == "OK":
                    bits = t_[3] if len(t_) > 3 else ""
                    out[t_[0]] = ("OK", t_[2], bits if bits == "nan" or t_[2] in ("Str", "Other", "Vector") else int(bits, 16))
                else:
                    out[t_[0]] = (t_[1],)
        if len(out) != len(vectors):
            raise Inconclusive("native harness returned %d results for %d vectors" % (len(out), len(vectors)))
        log("  native harness (%s): %d vectors, %.1fs" % (prof, len(vectors), time.time() - t))
        return out


class NativeCompiler:
    def __init__(self, scratch):
        self.s = scratch
        self.installed = False

    def install(self):
        if self.installed:
            return
        # inside `crate::ast` because some fields are `pub(in crate::ast)`
        src = self.s.path("compiler", "src")
        shutil.copy(os.path.join(VERIF, "native", "compiler_harness.rs"), os.path.join(src, "ast", "verif_native.rs"))
        with open(os.path.join(src, "ast.rs")) as f:
            already = "mod verif_native;" in f.read()
        if not already:         # another NativeCompiler of the same scratch copy may have installed it
            with open(os.path.join(src, "ast.rs"), "a") as f:
                f.write("\n#[cfg(test)]\nmod verif_native;\n")
        self.installed = True

    def run(self, env_extra=None, release=False):
        """-> list of token lists (one per result line)"""
        self.install()
        res_path = os.path.join(self.s.dir, "compiler_results.txt")
        if os.path.exists(res_path):
            os.remove(res_path)
        t = time.time()
        cmd = ["cargo", "test", "--offline", "--lib", "-p", "compiler", "--target-dir", os.path.join(self.s.dir, "target-native")]
        if release:
            cmd.append("--release")
        cmd += ["verif_native_run", "--", "--nocapture", "--test-threads", "1"]
        e = {"VERIF_RESULTS": res_path}
        if env_extra:
            e.update(env_extra)
        p = run(cmd, cwd=self.s.repo, env=env_offline(e), timeout=1800, check=False)
        if p.returncode != 0 or not os.path.exists(res_path):
            raise Inconclusive("compiler native harness failed: %s" % ((p.stderr or "")[-3000:] + (p.stdout or "")[-1000:]))
        with open(res_path) as f:
            lines = [l.split() for l in f if l.strip()]
        log("  compiler native harness: %d lines, %.1fs" % (len(lines), time.time() - t))
        return lines


class NativeTranspiler:
    def __init__(self, scratch):
        self.s = scratch
        self.installed = False

    def run(self, vectors):
        """vectors: list of (id, opcode, text line bytes) -> {id: tokens}"""
        src = self.s.path("bytecode_dev_transpiler", "src")
        if not self.installed:
            shutil.copy(os.path.join(VERIF, "native", "transpiler_harness.rs"), os.path.join(src, "verif_native.rs"))
            with open(os.path.join(src, "lib.rs"), "a") as f:
                f.write("\n#[cfg(test)]\nmod verif_native;\n")
            self.installed = True
        work = os.path.join(self.s.dir, "transpile_work")
        os.makedirs(work, exist_ok=True)
        vec = os.path.join(self.s.dir, "transpile_vectors.txt")
        res_path = os.path.join(self.s.dir, "transpile_results.txt")
        with open(vec, "w") as f:
            for vid, opcode, line in vectors:
                f.write("%s %d %s\n" % (vid, opcode, line.hex()))
        if os.path.exists(res_path):
            os.remove(res_path)
        cmd = ["cargo", "test", "--offline", "--lib", "-p", "bytecode_dev_transpiler", "--target-dir", os.path.join(self.s.dir, "target-native"),
               "verif_native_run", "--", "--nocapture", "--test-threads", "1"]
        p = run(cmd, cwd=self.s.repo, env=env_offline({"VERIF_TRANSPILE_VECTORS": vec, "VERIF_RESULTS": res_path, "VERIF_TRANSPILE_DIR": work}), timeout=1800, check=False)
        if p.returncode != 0 or not os.path.exists(res_path):
            raise Inconclusive("transpiler native harness failed: %s" % ((p.stderr or "")[-2000:]))
        out = {}
        with open(res_path) as f:
            for l in f:
                t = l.split()
                if len(t) >= 3 and t[0] == "transpile":
                    out[t[1]] = t[2:]
        return out
