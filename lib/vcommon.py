"""Shared driver plumbing: scratch copies of /repo, MIR dumps, native harness runs, evidence, known findings."""
import json, os, shutil, subprocess, sys, tempfile, time, atexit, hashlib

VERIF = os.path.dirname(os.path.dirname(os.path.abspath(__file__)))
REPO = os.environ.get("VERIF_REPO", "/repo")
SCRATCH_BASE = os.environ.get("VERIF_SCRATCH", "/var/tmp")
NIGHTLY = os.environ.get("VERIF_NIGHTLY", "nightly")

EXIT_OK, EXIT_VIOLATION, EXIT_INCONCLUSIVE = 0, 1, 2


class Inconclusive(Exception):
    pass


def log(*a):
    print(*a, file=sys.stderr, flush=True)


def seed():
    try:
        return int(os.environ.get("VERIF_SEED", "0"))
    except ValueError:
        return 0


def env_offline(extra=None):
    e = dict(os.environ)
    e.update({"CARGO_NET_OFFLINE": "true", "CARGO_TERM_COLOR": "never", "RUSTFLAGS": e.get("VERIF_RUSTFLAGS", "-Awarnings")})
    e.pop("RUSTUP_TOOLCHAIN", None)
    if extra:
        e.update(extra)
    return e


def run(cmd, cwd=None, env=None, timeout=None, check=True, capture=True):
    t = time.time()
    p = subprocess.run(cmd, cwd=cwd, env=env or env_offline(), timeout=timeout, text=True,
                       stdout=subprocess.PIPE if capture else None, stderr=subprocess.PIPE if capture else None)
    dt = time.time() - t
    if check and p.returncode != 0:
        raise Inconclusive("command failed (%d) in %.1fs: %s\n%s" % (p.returncode, dt, " ".join(cmd), (p.stderr or "")[-3000:]))
    return p


class Scratch:
    """fresh copy of /repo's working tree (no target/, no .git); removed at exit together with its build output"""

    def __init__(self, tag):
        os.makedirs(SCRATCH_BASE, exist_ok=True)
        self.dir = tempfile.mkdtemp(prefix="verif-%s-" % tag, dir=SCRATCH_BASE)
        self.repo = os.path.join(self.dir, "repo")
        atexit.register(self.cleanup)
        run(["rsync", "-a", "--exclude", "/target", "--exclude", ".git", "--exclude", "/ffi/target", REPO + "/", self.repo + "/"])
        self.src_hash = tree_hash(self.repo)

    def cleanup(self):
        if os.environ.get("VERIF_KEEP_SCRATCH"):
            log("keeping scratch", self.dir)
            return
        shutil.rmtree(self.dir, ignore_errors=True)

    def path(self, *p):
        return os.path.join(self.repo, *p)

    def mir_dump(self, crate, overflow_checks, target="lib"):
        """rustc MIR dump of one crate; returns path.  overflow_checks True = dev profile, False = release profile"""
        out = os.path.join(self.dir, "%s.%s.mir" % (crate, "on" if overflow_checks else "off"))
        if os.path.exists(out):
            return out
        crate_dir = self.path(crate)
        # make sure the crate root is considered dirty (a second dump with other flags would be empty otherwise)
        lib = os.path.join(crate_dir, "src", "lib.rs")
        os.utime(lib, None)
        t = time.time()
        cmd = ["cargo", "+" + NIGHTLY, "rustc", "--offline", "--lib", "--target-dir", os.path.join(self.dir, "target-mir"), "--",
               "-Zunpretty=mir", "-C", "debug-assertions=off", "-C", "overflow-checks=%s" % ("on" if overflow_checks else "off")]
        p = run(cmd, cwd=crate_dir, timeout=900)
        if len(p.stdout) < 1000:
            raise Inconclusive("empty MIR dump for %s: %s" % (crate, p.stderr[-2000:]))
        with open(out, "w") as f:
            f.write(p.stdout)
        log("  MIR dump %s overflow-checks=%s: %d lines, %.1fs" % (crate, overflow_checks, p.stdout.count("\n"), time.time() - t))
        return out


def mir_dump_bin(scratch, bin_name, overflow_checks):
    """rustc MIR dump of the workspace's root binary crate"""
    out = os.path.join(scratch.dir, "bin-%s.%s.mir" % (bin_name, "on" if overflow_checks else "off"))
    if os.path.exists(out):
        return out
    os.utime(os.path.join(scratch.repo, "src", "main.rs"), None)
    t = time.time()
    cmd = ["cargo", "+" + NIGHTLY, "rustc", "--offline", "--bin", bin_name, "--target-dir", os.path.join(scratch.dir, "target-mir"), "--",
           "-Zunpretty=mir", "-C", "debug-assertions=off", "-C", "overflow-checks=%s" % ("on" if overflow_checks else "off")]
    p = run(cmd, cwd=scratch.repo, timeout=1800)
    if len(p.stdout) < 1000:
        raise Inconclusive("empty MIR dump for bin %s: %s" % (bin_name, p.stderr[-2000:]))
    with open(out, "w") as f:
        f.write(p.stdout)
    log("  MIR dump bin %s overflow-checks=%s: %d lines, %.1fs" % (bin_name, overflow_checks, p.stdout.count("\n"), time.time() - t))
    return out


def tree_hash(root):
    h = hashlib.sha256()
    for d, dirs, files in sorted(os.walk(root)):
        dirs.sort()
        if "/target" in d:
            continue
        for fn in sorted(files):
            if fn.endswith(".rs") or fn.endswith(".toml") or fn.endswith(".pest"):
                p = os.path.join(d, fn)
                h.update(p[len(root):].encode())
                with open(p, "rb") as f:
                    h.update(f.read())
    return h.hexdigest()[:16]


# ---------------------------------------------------------------- known findings
def load_known():
    p = os.path.join(VERIF, "known_findings.json")
    if not os.path.exists(p):
        return {"findings": [], "fixed": []}
    with open(p) as f:
        return json.load(f)


def finding_key(f):
    """a finding is keyed by site and class (never by witness values)"""
    return (f["property"], f["fn"], f["arm"], f["class"], f.get("profile", "any"))


def known_index(prop):
    idx = {}
    for f in load_known().get("findings", []):
        if f["property"] == prop:
            idx[finding_key(f)] = f
    return idx


# ---------------------------------------------------------------- evidence
def write_evidence(prop, tier, level, coverage, assumptions, wall_s, violations, extra=None):
    # experiments against seeded / mutated trees must not overwrite the evidence of the registered checks
    evdir = os.environ.get("VERIF_EVIDENCE_DIR") or os.path.join(VERIF, "evidence")
    os.makedirs(evdir, exist_ok=True)
    ev = {"property_id": prop, "tier": tier, "seed": seed(), "level": level, "coverage": coverage,
          "assumptions": assumptions, "wall_s": round(wall_s, 2), "violations": violations}
    if extra:
        ev.update(extra)
    p = os.path.join(evdir, "%s.json" % prop)
    tmp = p + ".tmp"
    with open(tmp, "w") as f:
        json.dump(ev, f, indent=1, default=str)
    os.replace(tmp, p)
    return p


def save_replay(prop, name, payload):
    import re as _re
    d = os.path.join(VERIF, "replays", prop)
    os.makedirs(d, exist_ok=True)
    p = os.path.join(d, _re.sub(r"[^A-Za-z0-9_.()-]+", "_", name) + ".json")
    with open(p, "w") as f:
        json.dump(payload, f, indent=1, default=str)
    return p
