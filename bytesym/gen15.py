"""Program family of C15: expression trees whose leaves are calls to logging functions.  `lg(tag, v)` prints its tag and returns
v, so the printed sequence IS the evaluation order; `lo(tag, sel, v)` returns nil when sel == 1 (for `(x) or y`); `f1..f4` print
their own tag after their arguments were evaluated.  Leaf values are the symbolic inputs, so which operands a short-circuit
operator skips is decided by the solver for all values.

Node kinds  (int-valued)  leaf | add sub mul | call1..call4 | or | pick (index into a list literal built in place) | fact (recursion)
            (bool-valued) cmp_lt cmp_eq | and | or2 | not
            (list-valued) list3
Contexts    print <e> | x = <e>; print x | if <bool e> {..} else {..} | return <e> from a function | argument of a user function"""
import itertools, random

I = lambda n: ("int", n)
V = lambda x: ("var", x)
B = lambda op, l, r: ("bin", op, l, r)

INT_NODES = ["add", "sub", "mul", "call1", "call2", "call3", "call4", "orx", "pick", "fact", "neg", "mlit"]
BOOL_NODES = ["lt", "eq", "and", "or", "not", "andF", "orT"]
ARITY = {"add": ("ii"), "sub": ("ii"), "mul": ("ii"), "call1": ("i"), "call2": ("ii"), "call3": ("iii"), "call4": ("iiii"), "orx": ("oi"),
         "pick": ("iii"), "mlit": ("iii"), "fact": ("i"), "neg": ("i"), "lt": ("ii"), "eq": ("ii"), "and": ("bb"), "or": ("bb"), "not": ("b"), "andF": ("b"), "orT": ("b")}

PRELUDE = [
    ("assign", "in0", ("in", 0)), ("assign", "in1", ("in", 1)), ("assign", "in2", ("in", 2)),
    ("assign", "il", ("list", [V("in0"), V("in1"), V("in2")]), "[int...]"),
    ("assign", "bl", ("list", [B("==", V("in0"), I(1)), B("==", V("in1"), I(2)), B("<", V("in2"), I(0))]), "[bool...]"),
    ("class", "Lg", [("z", "int")], [], [("setfield", V("self"), "z", I(0))],
     [("lg", [("tag", "int"), ("v", "int")], "int", [("print", V("tag")), ("setfield", V("self"), "z", B("+", ("field", V("self"), "z"), I(1))), ("return", V("v"))]),
      ("lb", [("tag", "int"), ("v", "int")], "bool", [("print", V("tag")), ("setfield", V("self"), "z", B("+", ("field", V("self"), "z"), I(1))), ("return", B("==", V("v"), I(1)))])]),
    ("assign", "ob", ("call", "Lg", [])),
    ("def", "lg", [("tag", "int"), ("v", "int")], "int", [("print", V("tag")), ("return", V("v"))]),
    ("def", "lo", [("tag", "int"), ("sel", "int"), ("v", "int")], "int?", [
        ("print", V("tag")), ("if", [(B("==", V("sel"), I(1)), [("return", ("nil",))])], None), ("return", V("v"))]),
    ("assign", "zb", I(0)),
    ("def", "zr0", [], "bool", [("print", I(3000)), ("modify", "zb", B("-", V("zb"), I(1))), ("if", [(B("<", V("zb"), I(-2)), [("return", ("bool", False))])], None),
                                ("return", B("&&", B(">", V("zb"), I(0)), ("selfcall", [])))]),
    ("def", "zr", [("n", "int")], "bool", [("modify", "zb", B("%", V("n"), I(3))), ("return", ("call", "zr0", []))]),
    ("def", "f0", [], "int", [("print", I(1000)), ("return", I(7))]),
    ("def", "f1", [("a", "int")], "int", [("print", I(1001)), ("return", B("-", I(0), V("a")))]),
    ("def", "f2", [("a", "int"), ("b", "int")], "int", [("print", I(1002)), ("return", B("-", V("a"), V("b")))]),
    ("def", "f3", [("a", "int"), ("b", "int"), ("c", "int")], "int", [("print", I(1003)), ("return", B("-", B("-", V("a"), V("b")), V("c")))]),
    ("def", "f4", [("a", "int"), ("b", "int"), ("c", "int"), ("d", "int")], "int",
     [("print", I(1004)), ("return", B("-", B("-", V("a"), V("b")), B("-", V("c"), V("d"))))]),
    ("def", "pick", [("xs", "[int...]"), ("v", "int")], "int", [("print", I(1005)), ("return", B("+", ("index", V("xs"), 1), V("v")))]),
    ("def", "pm", [("m", "map[str, int]"), ("v", "int")], "int", [("print", I(1006)), ("return", B("+", ("or", ("mindex", V("m"), ("str", "b")), I(0)), V("v")))]),
    ("def", "fact", [("n", "int"), ("v", "int")], "int", [
        ("print", B("+", I(2000), ("var", "n"))),
        ("if", [(B("<=", V("n"), I(0)), [("return", V("v"))])], None),
        ("return", B("+", V("n"), ("selfcall", [B("-", V("n"), I(1)), V("v")])))]),
]
NIN = 3


class Builder:
    def __init__(self):
        self.tag = 0

    def leaf(self, kind):
        self.tag += 1
        t = self.tag
        inp = V("in%d" % (t % 3))
        if kind == "I":
            return ("index", V("il"), t % 3)          # a list element used directly as operand (array view), no logging
        if kind == "X":
            return ("index", V("bl"), t % 3)
        if kind == "M":
            return ("mcall", V("ob"), "lg", [I(t), inp])        # a method call as operand (receiver, then arguments)
        if kind == "Y":
            return ("mcall", V("ob"), "lb", [I(t), inp])
        if kind == "F":
            return ("field", V("ob"), "z")                       # a field read used directly as operand: later siblings (method calls) update the field
        if kind == "Z":
            return ("call", "zr", [inp])                         # a function whose `&&` has a bare `self()` as right operand
        if kind == "i":
            return ("call", "lg", [I(t), inp])
        if kind == "o":
            return ("call", "lo", [I(t), V("in%d" % ((t + 1) % 3)), inp])
        if kind == "b":
            return B("==", ("call", "lg", [I(t), inp]), I(t % 3))
        raise ValueError(kind)

    def node(self, shape):
        """shape: nested tuple (kind, child shapes...) or a leaf kind letter"""
        if isinstance(shape, str):
            return self.leaf(shape)
        k = shape[0]
        kids = [self.node(c) for c in shape[1:]]
        if k in ("add", "sub", "mul"):
            return B({"add": "+", "sub": "-", "mul": "*"}[k], kids[0], kids[1])
        if k in ("lt", "eq"):
            return B({"lt": "<", "eq": "=="}[k], kids[0], kids[1])
        if k == "and":
            return B("&&", kids[0], kids[1])
        if k == "or":
            return B("||", kids[0], kids[1])
        if k == "andF":
            return B("&&", kids[0], ("bool", False))        # the literal decides the value; the left operand still runs, once
        if k == "orT":
            return B("||", kids[0], ("bool", True))
        if k == "not":
            return ("not", kids[0])
        if k == "neg":
            return ("neg", kids[0])
        if k.startswith("call"):
            return ("call", "f%d" % len(kids), kids)
        if k == "orx":
            return ("or", kids[0], kids[1])
        if k == "pick":
            return ("call", "pick", [("list", [kids[0], kids[1]]), kids[2]])
        if k == "mlit":
            # a map literal built in place: pairs left to right, the key before its value
            return ("call", "pm", [("map", "str", "int", [(("str", "a"), kids[0]), (("str", "b"), kids[1])]), kids[2]])
        if k == "fact":
            return ("call", "fact", [I(2), kids[0]])
        raise ValueError(k)


def shapes(kind, depth, nodes_i=INT_NODES, nodes_b=BOOL_NODES):
    """all shapes of value kind `kind` ('i', 'b', 'o') with nesting depth <= depth"""
    leaves = {"i": ["i", "I", "M", "F"], "b": ["b", "X", "Y", "Z"], "o": ["o"]}[kind]
    if depth == 0 or kind == "o":
        return list(leaves)
    out = list(leaves)
    for k in (nodes_i if kind == "i" else nodes_b):
        parts = [shapes(c, depth - 1, nodes_i, nodes_b) for c in ARITY[k]]
        for combo in itertools.product(*parts):
            out.append((k,) + combo)
    return out


def shape_depth(s):
    return 0 if isinstance(s, str) else 1 + max(shape_depth(c) for c in s[1:])


CONTEXTS = ["print", "assign", "if", "return", "arg", "list"]


def program(shape, kind, ctx):
    b = Builder()
    e = b.node(shape)
    prog = list(PRELUDE)
    if ctx == "print":
        prog.append(("print", e))
    elif ctx == "assign":
        prog += [("assign", "x", e), ("print", V("x"))]
    elif ctx == "if":
        cond = e if kind == "b" else B("<", e, I(3))
        prog.append(("if", [(cond, [("print", I(7001))])], [("print", I(7002))]))
    elif ctx == "return":
        prog.append(("def", "w", [], "bool" if kind == "b" else "int", [("return", e)]))
        prog.append(("print", ("call", "w", [])))
    elif ctx == "arg":
        e2 = b.leaf("i")
        if kind == "b":
            prog.append(("if", [(B("&&", e, B("==", e2, I(0))), [("print", I(7001))])], None))
        else:
            prog.append(("print", ("call", "f3", [b.leaf("i"), e, e2])))
    elif ctx == "list":
        if kind == "b":
            prog.append(("print", B("||", b.leaf("b"), e)))
        else:
            prog.append(("assign", "xs", ("list", [b.leaf("i"), e, b.leaf("i")]), "[int...]"))
            prog.append(("print", V("xs")))
    prog.append(("print", ("field", V("ob"), "z")))      # how many method calls really ran
    prog.append(("print", ("str", "end")))
    return prog


def select(depth_full, depth_sample, nsample, seed):
    items = []
    for kind in ("i", "b"):
        for s in shapes(kind, depth_full):
            for ctx in CONTEXTS:
                items.append((s, kind, ctx))
    space = len(items)
    if depth_sample > depth_full and nsample > 0:
        rnd = random.Random(seed)
        extra = []
        # the depth-3 space is far too large to list: draw shapes by random descent (seeded), each distinct
        seen = set()
        tries = 0
        while len(extra) < nsample and tries < nsample * 20:
            tries += 1
            kind = rnd.choice("ib")
            s = random_shape(rnd, kind, depth_sample)
            if shape_depth(s) <= depth_full or s in seen:
                continue
            seen.add(s)
            extra.append((s, kind, rnd.choice(CONTEXTS)))
        items += extra
        space = None
    return items, space


def random_shape(rnd, kind, depth):
    if depth == 0 or kind == "o" or rnd.random() < 0.15:
        return rnd.choice({"i": "iiIM", "b": "bbXY", "o": "o"}[kind])
    k = rnd.choice(INT_NODES if kind == "i" else BOOL_NODES)
    return (k,) + tuple(random_shape(rnd, c, depth - 1) for c in ARITY[k])


def describe(item):
    s, kind, ctx = item
    def r(x):
        return x if isinstance(x, str) else "%s(%s)" % (x[0], ",".join(r(c) for c in x[1:]))
    return "%s in context `%s`" % (r(s), ctx)
