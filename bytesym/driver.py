"""Engine D - per-program driver: symbolic exploration of implementation (emitted bytecode) and reference (AST semantics),
pairwise comparison by the solver, concrete prediction for validation / replay."""
import os, sys, subprocess, time
import z3
HERE = os.path.dirname(os.path.abspath(__file__))
sys.path.insert(0, HERE)
sys.path.insert(0, os.path.join(HERE, "..", "cfgcheck"))
import core, vm, ref
import model as CFG          # parse_raw_text


def input_vars(n):
    return [z3.BitVec("in%d" % k, 32) for k in range(n)]


def compile_raw_modules(exe, workdir, stem, text, others, timeout=120):
    """multi-module program: entry `stem`.ms plus {file name: text}; every module is compiled to raw text on its own (an imported
    module is otherwise written in binary form).  -> ({module path: {fname: [Instr]}}, entry module path)"""
    for fn, t in others.items():
        with open(os.path.join(workdir, fn), "w") as f:
            f.write(t)
    mods = {}
    for fn in list(others) + [stem + ".ms"]:
        st = fn[:-3]
        funcs, mp = compile_raw(exe, workdir, st, text if fn == stem + ".ms" else others[fn], timeout)
        mods[mp] = funcs
    for fn in others:
        for ext in (".mmm",):
            try:
                os.remove(os.path.join(workdir, fn[:-3] + ext))
            except OSError:
                pass
    return mods, stem + ".mmm"


def compile_raw(exe, workdir, stem, text, timeout=120):
    """-> ({fname: [Instr]}, module_path) or raises RuntimeError(compiler output)"""
    src = os.path.join(workdir, stem + ".ms")
    out = os.path.join(workdir, stem + ".mmm")
    with open(src, "w") as f:
        f.write(text)
    if os.path.exists(out):
        os.remove(out)
    p = subprocess.run([exe, "compile", stem + ".ms", "--output-format", "raw-text", "--quick"], cwd=workdir, text=True,
                       capture_output=True, env=dict(os.environ, RUST_BACKTRACE="0"), timeout=timeout)
    if p.returncode != 0 or not os.path.exists(out):
        raise RuntimeError((p.stdout + p.stderr)[-600:])
    funcs = CFG.parse_raw_text(open(out, encoding="utf-8", errors="replace", newline="").read())
    os.remove(out)
    return funcs, stem + ".mmm"


def run_real(exe, workdir, stem, text, timeout=60, trace=None, full_stderr=False, others=None):
    """trace: a list to receive the per-instruction records of the trace hook (function, ip, frames, scope markers, operand stack)"""
    src = os.path.join(workdir, stem + ".ms")
    with open(src, "w") as f:
        f.write(text)
    for fn, t in (others or {}).items():
        with open(os.path.join(workdir, fn), "w") as f:
            f.write(t)
    env = dict(os.environ, RUST_BACKTRACE="0")
    tf = None
    if trace is not None:
        tf = os.path.join(workdir, stem + ".trace")
        if os.path.exists(tf):
            os.remove(tf)
        env["MSCRIPT_VERIF_TRACE"] = tf
    try:
        p = subprocess.run([exe, "run", stem + ".ms", "-q"], cwd=workdir, text=True, capture_output=True, env=env, timeout=timeout)
    except subprocess.TimeoutExpired:
        return None, ["<timeout>"], ""
    finally:
        if tf and os.path.exists(tf):
            with open(tf) as f:
                for line in f:
                    t = line.split()
                    if len(t) == 6:
                        trace.append((t[0], int(t[1]), int(t[3]), int(t[4]), int(t[5])))
            os.remove(tf)
    lines = p.stdout.split("\n")
    if lines and lines[-1] == "":
        lines.pop()
    return p.returncode, lines, (p.stderr if full_stderr else p.stderr[-400:])


def run_pipelines(exe, workdir, stem, text, which=("run", "execute", "transpile"), timeout=60, others=None):
    """the same source through the CLI's pipelines -> {pipeline: (exit status | None | "compile-fail", stdout BYTES, stderr tail)}
       run       : mscript run x.ms -q                       (bytecode kept in memory)
       execute   : mscript compile x.ms --quick ; mscript execute x.mmm          (binary bytecode file written and loaded)
       transpile : mscript compile x.ms --output-format raw-text --quick ; x.mmm -> x.transpiled.mmm ; mscript transpile ; mscript execute x.mmm"""
    env = dict(os.environ, RUST_BACKTRACE="0")
    env.pop("MSCRIPT_VERIF_TRACE", None)
    src, mmm, tr = (os.path.join(workdir, stem + e) for e in (".ms", ".mmm", ".transpiled.mmm"))
    with open(src, "w") as f:
        f.write(text)
    for fn, t in (others or {}).items():
        with open(os.path.join(workdir, fn), "w") as f:
            f.write(t)

    def call(args):
        try:
            p = subprocess.run([exe] + args, cwd=workdir, capture_output=True, env=env, timeout=timeout)
            return p.returncode, p.stdout, p.stderr.decode("utf-8", "replace")[-400:]
        except subprocess.TimeoutExpired:
            return None, b"<timeout>", ""

    out = {}
    for w in which:
        for f in (mmm, tr):
            if os.path.exists(f):
                os.remove(f)
        if w == "run":
            out[w] = call(["run", stem + ".ms", "-q"])
        elif w == "execute":
            c = call(["compile", stem + ".ms", "--quick"])
            out[w] = ("compile-fail", c[1], c[2]) if c[0] != 0 or not os.path.exists(mmm) else call(["execute", stem + ".mmm"])
        elif w == "transpile":
            c = call(["compile", stem + ".ms", "--output-format", "raw-text", "--quick"])
            if c[0] != 0 or not os.path.exists(mmm):
                out[w] = ("compile-fail", c[1], c[2])
                continue
            os.replace(mmm, tr)
            c = call(["transpile", stem + ".transpiled.mmm"])
            out[w] = ("transpile-fail", c[1], c[2]) if c[0] != 0 or not os.path.exists(mmm) else call(["execute", stem + ".mmm"])
    for f in (mmm, tr):
        if os.path.exists(f):
            os.remove(f)
    return out


def pipelines_differ(a, b):
    """same success / failure and the same stdout, byte for byte"""
    return (a[0] == 0) != (b[0] == 0) or a[1] != b[1] or not isinstance(a[0], int) or not isinstance(b[0], int)


def explore_impl(funcs, module_path, nin, assumptions, limits):
    xs = input_vars(nin)
    inputs = {ref.input_literal(k): xs[k] for k in range(nin)}
    ex = core.Explorer(assumptions, limits.get("timeout_ms", 5000), limits.get("max_steps", 20000), limits.get("max_paths", 400))
    ex.deadline = limits.get("deadline")
    paths = ex.explore(lambda o: vm.run_module(funcs, module_path, o, inputs, max_depth=limits.get("max_depth", 12)))
    return paths, ex


def explore_ref(prog, nin, assumptions, limits):
    xs = input_vars(nin)
    ex = core.Explorer(assumptions, limits.get("timeout_ms", 5000), limits.get("max_steps", 20000), limits.get("max_paths", 400))
    ex.deadline = limits.get("deadline")
    paths = ex.explore(lambda o: ref.Interp(o, {k: xs[k] for k in range(nin)}, max_depth=limits.get("max_depth", 12)).run_program(prog))
    return paths, ex


def concrete(run, *a):
    """run an executor on concrete inputs -> (status, [printed text lines])"""
    ex = core.Explorer([], 1000, 200000, 4)
    paths = ex.explore(run)
    if len(paths) != 1:
        raise core.Unsupported("concrete run forked")
    p = paths[0]
    return p["status"], [ref.fmt_value(v) for v in p["out"]], p["detail"]


def predict_impl(funcs, module_path, values, trace=None, holder=None):
    inputs = {ref.input_literal(k): v for k, v in enumerate(values)}
    return concrete(lambda o: vm.run_module(funcs, module_path, o, inputs, trace=trace, holder=holder))


def parse_call_trace(stderr):
    """the frames listed under `Call stack trace:` of a fatal run-time error, innermost first; None if there is no such report"""
    lines = stderr.split("\n")
    for i, l in enumerate(lines):
        if l.strip() == "Call stack trace:":
            out = []
            for m in lines[i + 1:]:
                t = m.strip()
                if t.startswith(">> "):
                    out.append(t[3:])
                elif t.startswith("^ "):
                    out.append(t[2:])
                else:
                    break
            return out
    return None


def predict_ref(prog, values):
    return concrete(lambda o: ref.Interp(o, dict(enumerate(values))).run_program(prog))


def model_values(model, nin):
    out = []
    for x in input_vars(nin):
        v = model.eval(x, model_completion=True).as_signed_long()
        out.append(v)
    return out


def check_program(prog, funcs, module_path, nin, assumptions=(), limits=None, keep=None):
    """-> dict(status ok|violation|unknown, violations [...], stats)"""
    limits = dict(limits or {})
    t = time.time()
    st = {"queries": 0}
    if limits.get("budget_s"):
        limits["deadline"] = t + limits["budget_s"]
    try:
        ipaths, iex = explore_impl(funcs, module_path, nin, assumptions, limits)
        rpaths, rex = explore_ref(prog, nin, assumptions, limits)
    except core.TooManyPaths as e:
        return {"status": "outside-bound", "violations": [], "unknown": 0, "reason": str(e), "t": time.time() - t}
    except core.Deadline:
        return {"status": "unknown", "violations": [], "unknown": 1, "reason": "time budget of %ss used up during exploration" % limits.get("budget_s"), "t": time.time() - t}
    if keep is not None:
        keep["impl"], keep["ref"] = ipaths, rpaths
    st["queries"] += iex.queries + rex.queries
    violations, unknown = [], 0
    ibound = [p for p in ipaths if p["status"] == "bound"]
    rbound = [p for p in rpaths if p["status"] == "bound"]
    pairs = 0
    for pa in ipaths:
        if pa["status"] == "bound":
            continue
        for pb in rpaths:
            if pb["status"] == "bound":
                continue
            if core.syntactically_disjoint(pa, pb):
                continue
            if limits.get("deadline") and time.time() > limits["deadline"]:
                unknown += 1
                continue
            pairs += 1
            r = core.compare_paths(pa, pb, assumptions, limits.get("timeout_ms", 5000), st)
            if r is None:
                continue
            if r == "unknown":
                unknown += 1
                continue
            violations.append({"why": r["why"], "inputs": model_values(r["model"], nin),
                               "impl": (pa["status"], pa["detail"], len(pa["out"])), "ref": (pb["status"], pb["detail"], len(pb["out"]))})
    unknown += iex.unknowns + rex.unknowns
    res = {"status": "violation" if violations else ("unknown" if unknown else "ok"), "violations": violations, "unknown": unknown,
           "impl_paths": len(ipaths), "ref_paths": len(rpaths), "pairs": pairs, "queries": st["queries"],
           "bound_paths": len(ibound) + len(rbound), "ok_paths": sum(1 for p in ipaths if p["status"] == "ok"),
           "fail_paths": sum(1 for p in ipaths if p["status"] == "fail"), "t": time.time() - t}
    return res
