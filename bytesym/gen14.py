"""String programs for C14 (engine D): the string methods that C14's engine-B kernels leave outside (`contains`, `index_of`, `replace`,
`chars`, concatenation with numbers, `*` repetition inside programs) and the ones they cover (`len`, indexing, `substring`, `delete`,
`insert`, `split`, `reverse`), applied inside whole programs to literals, variables, parenthesised sub-expressions (constant index into a
literal, concatenation of literals - what a constant folder may rewrite) and results of other methods; index arguments are derived
from the program inputs, so every position (and the out-of-range ones) is a path the solver enumerates.  The meaning of each method is
stated in core.str_builtin; the real interpreter is run on every explored path."""
import random

I = lambda n: ("int", n)
V = lambda x: ("var", x)
B = lambda op, l, r: ("bin", op, l, r)
S = lambda s: ("str", s)
NIN = 3
ASCII = ["hello", "a,b", "abcabc", "x", "", "goodwill", "tick tock"]
WIDE = ["héllo", "日本", "a😀b", "naïve café"]


def recv(rnd, wide_ok):
    """a receiver expression of static type str: literal, variable, concatenation of literals, constant index into a literal"""
    pool = ASCII + (WIDE if wide_ok else [])
    t = rnd.choice(pool)
    k = rnd.choice(["lit", "var", "concat", "paren"])
    if k == "var":
        return V("sv%d" % (pool.index(t) % 3)), None
    if k == "concat":
        cut = rnd.randint(0, len(t))
        return B("+", S(t[:cut]), S(t[cut:])), t
    return S(t), t


def program(seed, nsteps, _unused=None):
    rnd = random.Random(seed)
    prog = [("assign", "in0", ("in", 0)), ("assign", "in1", ("in", 1)), ("assign", "in2", ("in", 2)),
            ("assign", "sv0", S("hello")), ("assign", "sv1", S("héllo")), ("assign", "sv2", S("abcabc")),
            ("assign", "i0", B("%", V("in0"), I(4))), ("assign", "i1", B("%", V("in1"), I(7)))]
    for _ in range(nsteps):
        k = rnd.choice(["len", "len_index", "index", "chars", "reverse", "contains", "index_of", "replace", "substring", "delete", "insert", "split",
                        "concat_int", "repeat", "len_concat", "index_sym"])
        if k == "len":
            e, _ = recv(rnd, True)
            prog.append(("print", ("mcall", e, "len", [])))
        elif k == "len_index":
            t = rnd.choice(WIDE + ASCII[:3])
            j = rnd.randint(0, max(0, len(t) - 1))
            if t:
                prog.append(("print", ("mcall", ("index", S(t), j), "len", [])))          # ("héllo"[1]).len(): bytes of that character
        elif k == "index":
            t = rnd.choice(WIDE + ASCII[:3])
            if t:
                prog.append(("print", ("index", S(t), rnd.randint(0, len(t) - 1))))
        elif k == "index_sym":
            prog.append(("print", ("index", V(rnd.choice(["sv0", "sv1", "sv2"])), "i1")))     # symbolic position: also past the end
        elif k in ("chars", "reverse"):
            e, _ = recv(rnd, True)
            prog.append(("print", ("mcall", e, k, [])))
        elif k == "contains":
            e, _ = recv(rnd, True)
            prog.append(("print", ("mcall", e, "contains", [S(rnd.choice(["l", "llo", "é", "b", "zz", ""]))])))
        elif k == "index_of":
            e, _ = recv(rnd, True)
            prog.append(("print", ("or", ("mcall", e, "index_of", [S(rnd.choice(["l", "lo", "é", "b", "c", "zz"]))]), I(-1))))
        elif k == "replace":
            e, _ = recv(rnd, True)
            prog.append(("print", ("mcall", e, "replace", [S(rnd.choice(["l", "ab", "é", "zz"])), S(rnd.choice(["", "LL", "é"]))])))
        elif k == "substring":
            prog.append(("print", ("mcall", V("sv0"), "substring", [V("i0"), V("i1")])))
        elif k == "delete":
            prog.append(("print", ("mcall", V("sv2"), "delete", [V("i0"), V("i1")])))
        elif k == "insert":
            prog.append(("print", ("mcall", V("sv0"), "insert", [S(rnd.choice(["XY", "", "-"])), V("i1")])))
        elif k == "split":
            prog.append(("print", ("mcall", V("sv2"), "split", [V("i1")])))
        elif k == "concat_int":
            prog.append(("print", B("+", B("+", S("n="), I(rnd.randint(-3, 40))), S(rnd.choice(["", "!", "é"])))))
        elif k == "repeat":
            prog.append(("print", B("*", S(rnd.choice(["ab", "é", ""])), I(rnd.randint(0, 3)))))
        elif k == "len_concat":
            t = rnd.choice(WIDE + ASCII)
            prog.append(("print", B("+", ("mcall", B("+", S(t), S("é")), "len", []), I(1))))
    prog.append(("print", S("end")))
    return prog


def select(tier, seed):
    n = 150 if tier == "quick" else 1500
    rnd = random.Random(seed + 14)
    return [(rnd.randrange(1 << 30), rnd.randint(4, 10), None) for _ in range(n)], None, 0


def describe(item):
    return "string program seed=%d steps=%d" % (item[0], item[1])
