"""Optionals family for C12 (engine D): every way the core language produces an optional value x every construct that consumes one
x where the construct sits (function top level, inside an `if` body, inside a loop body), with nil-ness decided by the symbolic
inputs.  Decides the compiler half of C12 (which code `or` / `get` / `?=` / `== nil` are compiled to, where `?=` stores) for all
input values; the instruction bodies themselves are C12's engine-B kernel."""
I = lambda n: ("int", n)
V = lambda x: ("var", x)
B = lambda op, l, r: ("bin", op, l, r)
NIN = 3

OPT = ("def", "opt", [("sel", "int"), ("x", "int")], "int?", [("if", [(B("==", V("sel"), I(1)), [("return", ("nil",))])], None), ("return", V("x"))])
LG = ("def", "lg", [("tag", "int"), ("v", "int")], "int", [("print", V("tag")), ("return", V("v"))])
NTH = ("def", "nth", [("i", "int"), ("n", "int")], "int?", [("if", [(B(">=", V("i"), B("%", V("n"), I(3))), [("return", ("nil",))])], None), ("return", B("+", V("i"), I(10)))])

# a function value whose fallback is a variable of the factory that made it (the factory has returned when the `or` runs)
MKOR = ("def", "mkor", [("d", "int")], "fn(int?) -> int", [("def", "inner", [("q", "int?")], "int", [("return", ("or", V("q"), V("d")))]), ("return", V("inner"))])
SOURCES = ["param", "local", "captured", "call", "element"]
USES = ["or_const", "or_effect", "get", "eq_nil", "ne_nil", "eq_plain", "unwrap_stmt", "unwrap_if", "unwrap_while", "unwrap_expr", "or_escaped", "nil_left_eq"]
PLACES = ["top", "in_if", "in_loop", "in_else"]


def source_expr(src):
    return {"param": V("o"), "local": V("lo"), "captured": V("g"), "call": ("call", "opt", [V("s0"), V("v")]), "element": ("index", V("ol"), 0)}[src]


def use_stmts(use, x):
    if use == "or_const":
        return [("print", B("+", ("or", x, I(5)), I(1)))]
    if use == "or_effect":
        return [("print", ("or", x, ("call", "lg", [I(77), V("v")])))]
    if use == "or_escaped":
        return [("assign", "kk", ("call", "mkor", [B("+", V("v"), I(100))])), ("print", ("call", "kk", [x])), ("print", ("call", "kk", [("nil",)]))]
    if use == "nil_left_eq":
        # nil on the LEFT of == / != against an optional that may be present
        return [("assign", "nn", ("nil",), "int?"), ("print", B("==", V("nn"), x)), ("print", B("!=", V("nn"), x)), ("print", B("==", x, V("nn")))]
    if use == "get":
        return [("print", ("get", x)), ("print", I(1))]
    if use == "eq_nil":
        return [("if", [(B("==", x, ("nil",)), [("print", I(1))])], [("print", I(2))])]
    if use == "ne_nil":
        return [("print", B("!=", x, ("nil",)))]
    if use == "eq_plain":
        return [("print", B("==", x, I(3))), ("print", B("==", I(3), x))]
    if use == "unwrap_stmt":
        return [("expr", ("unwrapinto", "b", x)), ("print", V("b"))]
    if use == "unwrap_if":
        return [("if", [(("unwrapinto", "b", x), [("print", V("b"))])], [("print", I(-1))])]
    if use == "unwrap_while":
        return [("assign", "i", I(0)), ("while", ("unwrapinto", "b", ("call", "nth", [V("i"), V("s1")])), [("print", V("b")), ("assign", "i", B("+", V("i"), I(1)))]), ("print", V("i"))]
    if use == "unwrap_expr":
        return [("assign", "f", ("unwrapinto", "b", x)), ("print", V("f"))]
    raise ValueError(use)


def program(src, use, place):
    x = source_expr(src)
    body = use_stmts(use, x)
    if place == "in_if":
        body = [("if", [(B("!=", V("s1"), I(4)), body)], None)]
    elif place == "in_else":
        body = [("if", [(B("==", V("s1"), I(4)), [("print", I(0))])], body)]
    elif place == "in_loop":
        body = [("from", I(0), I(2), False, None, None, body + [("print", V("b"))])]
    t = [("assign", "b", ("nil",), "int?"), ("assign", "lo", ("call", "opt", [V("s0"), V("v")]), "int?"),
         ("assign", "ol", ("list", [("call", "opt", [V("s0"), V("v")]), I(3)]), "[int?...]")] + body + [("print", V("b")), ("return", I(0))]
    prog = [("assign", "in0", ("in", 0)), ("assign", "in1", ("in", 1)), ("assign", "in2", ("in", 2)), OPT, LG, NTH, MKOR,
            ("assign", "g", ("call", "opt", [V("in0"), V("in2")]), "int?"),
            ("def", "t", [("s0", "int"), ("s1", "int"), ("v", "int"), ("o", "int?")], "int", t),
            ("print", ("call", "t", [V("in0"), V("in1"), V("in2"), ("call", "opt", [V("in0"), V("in2")])])),
            ("print", ("str", "end"))]
    return prog


def select(tier, seed):
    items = [(s, u, p) for s in SOURCES for u in USES for p in PLACES if not (u == "unwrap_while" and s != "call")]
    return items, len(items), 1


def describe(item):
    return "optional from `%s` consumed by `%s`, placed `%s`" % item
