"""Module programs for C11 (engine D): import graphs over an entry module and up to three library modules.

Each library module prints a line when its top-level code starts and ends, imports the modules it depends on (in either form, before
or between its own statements), and exports a counter (initialised from a program input), a list, `bump` (updates the counter through
`modify` and logs into the list), `peek`, and `via` (bumps the first module it depends on).  The entry module imports a subset in some
order and form, then runs a seeded sequence of steps through different importers: calls, reads of exported variables (live), pushes
into the exported list, conditional steps decided by the inputs.  Decided for all input values: every module's top-level code runs
exactly once, at its first import, completing before the importer continues; all importers share one instance.  The directory is private
to the program, modules are named m1..m3."""
import random

I = lambda n: ("int", n)
V = lambda x: ("var", x)
B = lambda op, l, r: ("bin", op, l, r)
S = lambda s: ("str", s)
NIN = 3
MULTI = True


def lib(k, deps, forms, rnd):
    name = "m%d" % k
    body = [("print", S("%s:start" % name))]
    imps = []
    used_from = False
    for d in deps:
        dn = "m%d" % d
        if forms.get((k, d)) == "from" and used_from:
            forms[(k, d)] = "plain"              # one name can be bound by one from-import only
        if forms.get((k, d)) == "from":
            used_from = True
            imps.append(("importfrom", ["peek"], dn))
        else:
            imps.append(("import", dn))
    # placement: all imports first, or one import after the first export
    late = imps[1:] if len(imps) > 1 and rnd.random() < 0.5 else []
    body += imps[:len(imps) - len(late)]
    body.append(("export", "cnt", V("in%d" % (k % 3)) if False else I(10 * k), "int"))
    body.append(("export", "log", ("list", [I(k)]), "[int...]"))
    body += late
    body.append(("export", "bump", ("fnlit", [("d", "int")], "int", [("modify", "cnt", B("+", V("cnt"), V("d"))), ("expr", ("mcall", V("log"), "push", [V("d")])), ("return", V("cnt"))]), "fn(int) -> int"))
    body.append(("export", "peek", ("fnlit", [], "int", [("return", V("cnt"))]), "fn() -> int"))
    plain = [d for d in deps if forms.get((k, d)) != "from"]
    if plain:
        dn = "m%d" % plain[0]
        body.append(("export", "via", ("fnlit", [("d", "int")], "int", [("return", ("mcall", V(dn), "bump", [V("d")]))]), "fn(int) -> int"))
    elif deps:
        body.append(("export", "via", ("fnlit", [("d", "int")], "int", [("return", B("+", ("call", "peek", []), V("d")))]), "fn(int) -> int"))
    body.append(("print", S("%s:end" % name)))
    return name, body


def program(seed, nsteps, _unused=None):
    rnd = random.Random(seed)
    n = rnd.randint(1, 3)
    deps = {k: [d for d in range(k + 1, n + 1) if rnd.random() < 0.6] for k in range(1, n + 1)}
    forms = {(k, d): rnd.choice(["plain", "plain", "from"]) for k in deps for d in deps[k]}
    mods = dict(lib(k, deps[k], forms, rnd) for k in range(1, n + 1))
    entry = [("assign", "in0", ("in", 0)), ("assign", "in1", ("in", 1)), ("assign", "in2", ("in", 2)), ("print", S("main:start"))]
    order = list(range(1, n + 1))
    rnd.shuffle(order)
    imported = [k for k in order if rnd.random() < 0.8] or [order[0]]
    for i, k in enumerate(imported):
        entry.append(("import", "m%d" % k))
        if i == 0:
            entry.append(("print", S("main:after-first-import")))
    rnd.random()
    fromk = rnd.choice(imported)
    if rnd.random() < 0.5:
        entry.append(("importfrom", ["bump", "log"], "m%d" % fromk))
        has_from = True
    else:
        has_from = False
    arg = lambda: rnd.choice([V("in0"), V("in1"), V("in2"), I(1), I(5)])
    for _ in range(nsteps):
        m = V("m%d" % rnd.choice(imported))
        k = rnd.choice(["bump", "peek", "cnt", "log", "via", "push", "cond", "frombump", "fromlog", "len"])
        if k == "bump":
            entry.append(("print", ("mcall", m, "bump", [arg()])))
        elif k == "peek":
            entry.append(("print", ("mcall", m, "peek", [])))
        elif k == "cnt":
            entry.append(("print", ("field", m, "cnt")))
        elif k == "log":
            entry.append(("print", ("field", m, "log")))
        elif k == "len":
            entry.append(("print", ("mcall", ("field", m, "log"), "len", [])))
        elif k == "via":
            mk = int(m[1][1:])
            if deps[mk]:
                entry.append(("print", ("mcall", m, "via", [arg()])))
        elif k == "push":
            entry.append(("expr", ("mcall", ("field", m, "log"), "push", [arg()])))
        elif k == "cond":
            entry.append(("if", [(B("==", V("in0"), I(rnd.randint(0, 2))), [("print", ("mcall", m, "bump", [V("in1")]))])], [("print", ("mcall", m, "peek", []))]))
        elif k == "frombump" and has_from:
            entry.append(("print", ("call", "bump", [arg()])))
        elif k == "fromlog" and has_from:
            entry.append(("print", V("log")))
    for k in imported:
        entry += [("print", ("field", V("m%d" % k), "cnt")), ("print", ("field", V("m%d" % k), "log"))]
    entry.append(("print", S("end")))
    return {"entry": entry, "modules": mods}


def select(tier, seed):
    n = 120 if tier == "quick" else 1200
    rnd = random.Random(seed + 11)
    return [(rnd.randrange(1 << 30), rnd.randint(4, 12), None) for _ in range(n)], None, 0


def describe(item):
    return "module program seed=%d steps=%d" % (item[0], item[1])
