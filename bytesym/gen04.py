"""Program family for the whole-program halves of C04 and C18 (engine D).

C04: `run` (bytecode kept in memory) and `compile` + `execute` (bytecode written to a .mmm file and loaded again) behave alike.
C18: `compile --output-format raw-text` -> `transpile` -> `execute` behaves like `run`.

Every program is examined like the programs of C01: the solver enumerates the feasible paths of the emitted bytecode (failing paths
included - the exit status is half of both properties), decides for all inputs that it behaves as the semantics prescribes, and a model
of every path condition drives the real CLI through ALL pipelines: stdout (byte for byte) and success / failure must be the same.

Members:
  * programs of the other families (control flow, optionals, lists / maps, objects, closures, failing call chains, multi-module
    projects), so that every
    opcode the emitted code uses goes through the file writer, the loader and the transpiler;
  * string programs: literals over the characters that are special to the two file formats (quote, backslash, space, tab, line feed,
    carriage return, the letters n r t, comma, `#`, non-ASCII) as printed values, comparison operands, map keys, list elements,
    concatenation operands, call arguments and assert-adjacent text, with the path through the program decided by the inputs."""
import random
import gen01, gen07, gen08, gen11, gen12, gen13, gen15, gen17

I = lambda n: ("int", n)
V = lambda x: ("var", x)
B = lambda op, l, r: ("bin", op, l, r)
S = lambda s: ("str", s)
NIN = 3
FAMS = {"gen01": gen01, "gen07": gen07, "gen08": gen08, "gen12": gen12, "gen13": gen13, "gen15": gen15, "gen17": gen17, "gen11": gen11}

ALPHABET = ['"', "\\", " ", "\t", "\n", "\r", "n", "r", "t", ",", "#", "é", "世", "a", ":", "'", ";", "0", "\U0001F600"]


def strings(rnd, count):
    out = []
    for _ in range(count):
        ln = rnd.choice([1, 1, 2, 2, 2, 3, 3, 4])
        t = "".join(rnd.choice(ALPHABET) for _ in range(ln))
        while t.endswith("\\"):        # the source grammar reads `\"` as an escaped quote: a literal cannot END in a backslash
            t = t[:-1] + rnd.choice(ALPHABET)
        out.append(t)
    return out


def string_program(seed):
    rnd = random.Random(seed)
    ss = strings(rnd, 6)
    a, b, c, d, e, f = ss
    show = ("def", "show", [("s", "str"), ("k", "int")], "str", [("print", V("s")), ("if", [(B("==", V("k"), I(3)), [("return", S(e))])], None), ("return", V("s"))])
    prog = [("assign", "in0", ("in", 0)), ("assign", "in1", ("in", 1)), ("assign", "in2", ("in", 2)), show,
            ("assign", "x", S(a)), ("print", V("x")), ("print", S(b)),
            ("print", B("==", V("x"), S(b))), ("print", B("==", V("x"), S(a))),
            ("assign", "m", ("map", "str", "int", [(S(a), V("in0")), (S(c), I(7))])),
            ("print", ("mindex", V("m"), S(a))),
            ("assign", "ys", ("list", [S(c), S(d), V("x")]), "[str...]"),
            ("print", ("index", V("ys"), 1)),
            ("if", [(B("==", V("in1"), I(1)), [("print", B("+", B("+", S(d), S("|")), V("x")))]), (B("==", V("in1"), I(2)), [("print", ("call", "show", [S(f), V("in2")]))])],
             [("print", ("call", "show", [B("+", V("x"), S(e)), V("in2")]))]),
            ("assert", B("!=", V("in0"), I(9))),
            ("print", B("/", I(10), V("in2"))),
            ("print", S(f)), ("print", S("end"))]
    return prog


def select(tier, seed):
    rnd = random.Random(seed)
    items = []
    q = tier == "quick"
    i1, _, _ = gen01.select([(1, None), (2, 60 if q else 600)], seed, deep=10 if q else 80)
    items += [("gen01", tuple(it)) for it in (rnd.sample(i1, 110) if q and len(i1) > 110 else i1)]
    i12, _, _ = gen12.select(tier, seed)
    items += [("gen12", it) for it in (rnd.sample(i12, 40) if q else i12)]
    for name, fam, n in (("gen13", gen13, 40 if q else 300), ("gen08", gen08, 30 if q else 200), ("gen07", gen07, 40 if q else 150)):
        its, _, _ = fam.select("quick", seed)
        items += [(name, it) for it in (rnd.sample(its, n) if len(its) > n else its)]
    i17, _, _ = gen17.select(tier, seed)
    items += [("gen17", it) for it in i17]
    i15, _ = gen15.select(1, 3, 60 if q else 600, seed)
    items += [("gen15", it) for it in i15]
    i11, _, _ = gen11.select("quick", seed)
    items += [("gen11", it) for it in (i11[:40] if q else i11)]          # multi-module projects: imports always go through files
    items += [("str", rnd.randrange(1 << 30)) for _ in range(120 if q else 1200)]
    return items, None, 0


def program(kind, x):
    if kind == "str":
        return string_program(x)
    return FAMS[kind].program(*x)


def describe(item):
    kind, x = item
    if kind == "str":
        return "string program seed=%d" % x
    return "%s: %s" % (kind, FAMS[kind].describe(x))
