"""Closure families for C07 (engine D).  The owner `mk` has returned before its closures are called, so a variable the compiler
failed to capture cannot be found on the call stack by accident: the closure only works if the capture list is right.

A  capture positions: one closure whose ONLY mention of an owner variable sits in one syntactic position (the compiler's dependency
   analysis is written per AST node kind - a node kind that forgets a child loses the capture only there).
B  sharing: two executions of the owner, each handing out [reader, writer (`modify`), shadow (plain `x = ..`), late (sees an owner
   assignment made after creation)]; a seeded sequence of up to 12 calls over both instances.  By reference, write-through,
   local shadow, fresh cells per execution - for all argument values."""
import random

I = lambda n: ("int", n)
V = lambda x: ("var", x)
B = lambda op, l, r: ("bin", op, l, r)
NIN = 3

OPT = ("def", "opt", [("sel", "int"), ("x", "int")], "int?", [("if", [(B("==", V("sel"), I(1)), [("return", ("nil",))])], None), ("return", V("x"))])
H = ("def", "h", [("a", "int"), ("b", "int")], "int", [("return", B("-", V("a"), V("b")))])

# position -> body of  inner = fn(n: int, q: int?) -> int { ... }   mentioning the owner's  X (int), O (int?), L (list), K (int 1)  once
POSITIONS = {
    "plain": [("return", B("+", V("n"), V("X")))],
    "shadow_assign": [("assign", "X", B("+", V("X"), I(1))), ("return", B("+", V("n"), V("X")))],
    "self_arg": [("if", [(B("<=", V("n"), I(0)), [("return", I(0))])], None), ("return", B("+", I(1), ("selfcall", [B("-", B("%", V("n"), I(3)), I(1)), ("nil",)]))),
                 ],
    "self_arg_only": None,      # filled below (needs X inside the self-call arguments only)
    "or_fallback": [("return", B("+", V("n"), ("or", V("q"), V("X"))))],
    "or_primary": [("return", B("+", V("n"), ("or", V("O"), I(5))))],
    "get": [("return", B("+", V("n"), ("get", V("O"))))],
    "loop_end": [("assign", "acc", I(0)), ("from", I(0), B("%", V("X"), I(3)), False, None, "j", [("assign", "acc", B("+", B("+", V("acc"), V("j")), I(1)))]), ("return", V("acc"))],
    "loop_start": [("assign", "acc", I(0)), ("from", B("%", V("X"), I(3)), I(2), True, None, "j", [("assign", "acc", B("+", B("+", V("acc"), V("j")), I(1)))]), ("return", V("acc"))],
    "loop_step": [("assign", "acc", I(0)), ("from", I(0), I(4), False, B("+", B("%", V("X"), I(2)), I(2)), "j", [("assign", "acc", B("+", B("+", V("acc"), V("j")), I(1)))]), ("return", V("acc"))],
    "loop_body": [("assign", "acc", I(0)), ("from", I(0), I(2), False, None, None, [("assign", "acc", B("+", V("acc"), V("X")))]), ("return", V("acc"))],
    "if_cond": [("if", [(B("==", V("X"), I(1)), [("return", V("n"))])], None), ("return", I(0))],
    "elif_cond": [("if", [(B("==", V("n"), I(1)), [("return", I(0))]), (B("==", V("X"), I(2)), [("return", I(1))])], [("return", I(2))])],
    "while_cond": [("assign", "k", I(0)), ("while", B("<", V("k"), B("%", V("X"), I(3))), [("assign", "k", B("+", V("k"), I(1)))]), ("return", V("k"))],
    "index_list": [("return", B("+", V("n"), ("index", V("L"), 1)))],
    "index_var": [("assign", "ys", ("list", [V("n"), I(7)]), "[int...]"), ("assign", "ki", V("K")), ("return", ("index", V("ys"), "ki"))],
    "list_literal": [("assign", "zs", ("list", [V("n"), V("X")]), "[int...]"), ("return", ("index", V("zs"), 1))],
    "call_arg": [("return", ("call", "h", [V("n"), V("X")]))],
    "mcall_arg": [("assign", "tmp", ("list", [I(0)]), "[int...]"), ("expr", ("mcall", V("tmp"), "push", [V("X")])), ("return", B("+", V("n"), ("index", V("tmp"), 1)))],
    "mcall_receiver": [("return", B("+", V("n"), ("mcall", V("L"), "len", [])))],
    "index_assign_rhs": [("assign", "tmp", ("list", [I(0), I(1)]), "[int...]"), ("setindex", V("tmp"), 0, V("X")), ("return", B("+", V("n"), ("index", V("tmp"), 0)))],
    "index_assign_target": [("setindex", V("L"), 0, V("n")), ("return", ("index", V("L"), 0))],
    "map_literal": [("assign", "mm", ("map", "str", "int", [(("str", "a"), V("X"))])), ("return", B("+", V("n"), ("or", ("mindex", V("mm"), ("str", "a")), I(0))))],
    "field_assign_rhs": None,
    "assert": [("assert", B("!=", V("X"), I(4))), ("return", V("n"))],
    "neg": [("return", B("+", V("n"), ("neg", V("X"))))],
    "not": [("if", [(("not", B("==", V("X"), I(1))), [("return", V("n"))])], None), ("return", I(0))],
    "opassign_rhs": [("assign", "a", V("n")), ("opassign", "a", "+", V("X")), ("return", V("a"))],
    "modify": [("modify", "X", B("+", V("X"), V("n"))), ("return", V("X"))],
    "nested_closure": [("def", "g", [("m", "int")], "int", [("return", B("+", V("m"), V("X")))]), ("return", ("call", "g", [V("n")]))],
    "print": [("print", V("X")), ("return", V("n"))],
    "logic_rhs": [("if", [(B("&&", B("==", V("n"), I(1)), B("==", V("X"), I(2))), [("return", I(1))])], None), ("return", I(0))],
    "logic_lhs": [("if", [(B("||", B("==", V("X"), I(2)), B("==", V("n"), I(1))), [("return", I(1))])], None), ("return", I(0))],
    "return_in_loop": [("from", I(0), I(2), False, None, None, [("if", [(B("==", V("X"), I(1)), [("return", V("n"))])], None)]), ("return", I(0))],
    "compare_rhs": [("if", [(B("<", V("n"), V("X")), [("return", I(1))])], None), ("return", I(0))],
}
POSITIONS["self_arg_only"] = [("if", [(B("<=", V("n"), I(0)), [("return", I(0))])], None),
                              ("return", B("+", I(1), ("selfcall", [B("-", B("-", B("%", V("n"), I(3)), I(1)), B("-", V("X"), V("X"))), ("nil",)])))]
del POSITIONS["self_arg"]
del POSITIONS["field_assign_rhs"]
OWNER_KINDS = ["param", "local"]


def subst(node, m):
    if isinstance(node, tuple):
        if len(node) == 2 and node[0] == "var" and node[1] in m:
            return ("var", m[node[1]])
        return tuple(subst(x, m) for x in node)
    if isinstance(node, list):
        return [subst(x, m) for x in node]
    if isinstance(node, str) and node in m and False:
        return m[node]
    return node


def subst_names(node, m):
    """also rename assignment / modify / opassign targets"""
    if isinstance(node, tuple):
        if node and node[0] in ("assign", "modify", "opassign") and node[1] in m:
            node = (node[0], m[node[1]]) + node[2:]
        if len(node) == 2 and node[0] == "var" and node[1] in m:
            return ("var", m[node[1]])
        return tuple(subst_names(x, m) for x in node)
    if isinstance(node, list):
        return [subst_names(x, m) for x in node]
    return node


def program_a(pos, owner_kind):
    x = "v" if owner_kind == "param" else "lv"
    body = subst_names(POSITIONS[pos], {"X": x, "O": "o", "L": "xs", "K": "k1"})
    mk = [("assign", "lv", B("+", V("v"), I(1))), ("assign", "xs", ("list", [V("v"), V("w")]), "[int...]"), ("assign", "k1", I(1)),
          ("def", "inner", [("n", "int"), ("q", "int?")], "int", body),
          ("return", V("inner"))]
    prog = [("assign", "in0", ("in", 0)), ("assign", "in1", ("in", 1)), ("assign", "in2", ("in", 2)), OPT, H,
            ("def", "mk", [("v", "int"), ("w", "int"), ("o", "int?")], "fn(int, int?) -> int", mk),
            ("assign", "c", ("call", "mk", [V("in0"), V("in1"), ("call", "opt", [V("in1"), V("in2")])])),
            ("print", ("call", "c", [V("in2"), ("call", "opt", [V("in0"), V("in1")])])),
            ("print", ("call", "c", [I(1), ("nil",)])),
            ("print", ("str", "end"))]
    return prog


OWNER_B = ("def", "mk", [("v", "int")], "[fn(int) -> int...]", [
    ("assign", "late", V("v")),
    ("def", "reader", [("n", "int")], "int", [("return", B("+", V("v"), V("n")))]),
    ("def", "writer", [("n", "int")], "int", [("modify", "v", B("+", V("v"), V("n"))), ("return", V("v"))]),
    ("def", "shadow", [("n", "int")], "int", [("assign", "v", V("n")), ("return", V("v"))]),
    ("def", "later", [("n", "int")], "int", [("return", B("+", V("late"), V("n")))]),
    ("assign", "late", B("+", V("late"), I(10))),
    ("assign", "fs", ("list", [V("reader"), V("writer"), V("shadow"), V("later")]), "[fn(int) -> int...]"),
    ("return", V("fs"))])


def program_b(seq):
    """seq: list of (instance 0|1, function index 0..3, argument: input index 0..2 or a small constant as ('c', n))"""
    prog = [("assign", "in0", ("in", 0)), ("assign", "in1", ("in", 1)), ("assign", "in2", ("in", 2)), OWNER_B,
            ("assign", "a", ("call", "mk", [V("in0")])), ("assign", "b", ("call", "mk", [V("in1")]))]
    for k, (inst, fi, arg) in enumerate(seq):
        f = "f%d" % k
        prog.append(("assign", f, ("index", V("ab"[inst]), fi)))
        argx = V("in%d" % arg) if isinstance(arg, int) else I(arg[1])
        prog.append(("print", ("call", f, [argx])))
    prog.append(("print", ("str", "end")))
    return prog


# C  lexical scope: the closure is called from a context that has variables of the SAME NAME as the ones it captured (a caller's
#    parameter / local / block local, or a module-level variable created after the closure).  The closure must keep seeing - and
#    `modify` must keep writing - the variables of its DEFINING scope, not the caller's.
VIA_KINDS = ["via_param", "via_local", "via_block", "module_var", "via_nested_maker"]


def program_c(kind, fi):
    prog = [("assign", "in0", ("in", 0)), ("assign", "in1", ("in", 1)), ("assign", "in2", ("in", 2)), OWNER_B,
            ("assign", "a", ("call", "mk", [V("in0")])), ("assign", "f", ("index", V("a"), fi)), ("assign", "rd", ("index", V("a"), 0)),
            ("print", ("call", "f", [I(1)]))]
    if kind == "via_param":
        prog += [("def", "via", [("h", "fn(int) -> int"), ("v", "int"), ("late", "int")], "int", [("return", B("+", ("call", "h", [I(2)]), B("-", V("v"), V("late"))))]),
                 ("print", ("call", "via", [V("f"), V("in1"), V("in2")]))]
    elif kind == "via_local":
        prog += [("def", "via", [("h", "fn(int) -> int"), ("p", "int")], "int", [("assign", "v", B("+", V("p"), I(100))), ("assign", "late", V("p")), ("assign", "r", ("call", "h", [I(2)])), ("return", B("+", V("r"), B("-", V("v"), V("late"))))]),
                 ("print", ("call", "via", [V("f"), V("in1")]))]
    elif kind == "via_block":
        prog += [("def", "via", [("h", "fn(int) -> int"), ("p", "int")], "int", [("assign", "r", I(0)), ("if", [(B("!=", V("p"), I(77)), [("assign", "v", V("p")), ("assign", "late", I(3)), ("assign", "r", ("call", "h", [I(2)]))])], None), ("return", V("r"))]),
                 ("print", ("call", "via", [V("f"), V("in1")]))]
    elif kind == "module_var":
        prog += [("assign", "v", V("in1")), ("assign", "late", V("in2")), ("print", ("call", "f", [I(2)])), ("print", V("v"))]
    elif kind == "via_nested_maker":
        # a closure created INSIDE a closure, while a caller's `v` is on the call stack, must capture the variable of its defining scope
        prog = [("assign", "in0", ("in", 0)), ("assign", "in1", ("in", 1)), ("assign", "in2", ("in", 2)),
                ("def", "mk", [("v", "int")], "fn() -> fn(int) -> int", [
                    ("def", "outer", [], "fn(int) -> int", [("def", "inner", [("n", "int")], "int", [("return", B("+", V("v"), V("n")))]), ("return", V("inner"))]),
                    ("return", V("outer"))]),
                ("assign", "o", ("call", "mk", [V("in0")])),
                ("def", "via", [("v", "int")], "fn(int) -> int", [("return", ("call", "o", []))]),
                ("assign", "g", ("call", "via", [V("in1")])), ("print", ("call", "g", [I(2)])),
                ("assign", "rd", ("call", "o", []))]
    prog += [("print", ("call", "rd", [I(0)])), ("print", ("str", "end"))]
    return prog


# D  three levels: a middle function that captured x shadows it with a plain `x = ..` and creates an inner function - the inner one
#    captures the MIDDLE function's local (each execution of the middle function has its own); and `modify` with a value that compares
#    equal to the old one (a fresh list with the same contents, a function value from the same literal) still replaces it.
D_KINDS = ["mid_shadow_read", "mid_shadow_modify", "modify_equal_list", "modify_equal_fn"]


def program_d(kind):
    pre = [("assign", "in0", ("in", 0)), ("assign", "in1", ("in", 1)), ("assign", "in2", ("in", 2))]
    if kind in ("mid_shadow_read", "mid_shadow_modify"):
        inner_body = [("return", B("+", V("x"), V("n")))] if kind == "mid_shadow_read" else [("modify", "x", B("+", V("x"), V("n"))), ("return", V("x"))]
        mk = ("def", "mk", [("x", "int")], "[fn(int) -> fn(int) -> int...]", [
            ("def", "mid", [("m", "int")], "fn(int) -> int", [("assign", "x", B("+", V("x"), V("m"))), ("def", "inner", [("n", "int")], "int", inner_body), ("return", V("inner"))]),
            ("def", "own", [("m", "int")], "fn(int) -> int", [("def", "rd", [("n", "int")], "int", [("return", B("+", V("x"), V("n")))]), ("return", V("rd"))]),
            ("assign", "fs", ("list", [V("mid"), V("own")]), "[fn(int) -> fn(int) -> int...]"), ("return", V("fs"))])
        return pre + [mk, ("assign", "o", ("call", "mk", [V("in0")])), ("assign", "midf", ("index", V("o"), 0)), ("assign", "ownf", ("index", V("o"), 1)),
                      ("assign", "a", ("call", "midf", [V("in1")])), ("assign", "b", ("call", "midf", [V("in2")])), ("assign", "r", ("call", "ownf", [I(0)])),
                      ("print", ("call", "a", [I(1)])), ("print", ("call", "b", [I(1)])), ("print", ("call", "a", [I(2)])), ("print", ("call", "r", [I(0)])),
                      ("print", ("call", "b", [I(3)])), ("print", ("call", "r", [I(0)])), ("print", ("str", "end"))]
    if kind == "modify_equal_list":
        mk = ("def", "mk", [("v", "int")], "[fn(int) -> int...]", [
            ("assign", "items", ("list", [V("v"), I(1)]), "[int...]"),
            ("def", "setl", [("n", "int")], "int", [("assign", "fresh", ("list", [V("v"), I(1)]), "[int...]"), ("modify", "items", V("fresh")), ("expr", ("mcall", V("fresh"), "push", [V("n")])), ("return", ("mcall", V("items"), "len", []))]),
            ("def", "rdl", [("n", "int")], "int", [("return", B("+", ("mcall", V("items"), "len", []), V("n")))]),
            ("def", "sum0", [("n", "int")], "int", [("return", B("+", ("index", V("items"), 0), V("n")))]),
            ("assign", "fs", ("list", [V("setl"), V("rdl"), V("sum0")]), "[fn(int) -> int...]"), ("return", V("fs"))])
        return pre + [mk, ("assign", "o", ("call", "mk", [V("in0")])), ("assign", "s", ("index", V("o"), 0)), ("assign", "r", ("index", V("o"), 1)), ("assign", "z", ("index", V("o"), 2)),
                      ("print", ("call", "r", [I(0)])), ("print", ("call", "s", [V("in1")])), ("print", ("call", "r", [I(0)])), ("print", ("call", "s", [V("in2")])),
                      ("print", ("call", "r", [I(0)])), ("print", ("call", "z", [I(0)])), ("print", ("str", "end"))]
    if kind == "modify_equal_fn":
        mk = ("def", "mk", [("v", "int")], "[fn(int) -> int...]", [
            ("def", "counter", [("c", "int")], "fn(int) -> int", [("def", "step", [("n", "int")], "int", [("modify", "c", B("+", V("c"), V("n"))), ("return", V("c"))]), ("return", V("step"))]),
            ("assign", "cur", ("call", "counter", [V("v")])),
            ("def", "tick", [("n", "int")], "int", [("return", ("call", "cur", [V("n")]))]),
            ("def", "reset", [("n", "int")], "int", [("modify", "cur", ("call", "counter", [V("n")])), ("return", I(0))]),
            ("assign", "fs", ("list", [V("tick"), V("reset")]), "[fn(int) -> int...]"), ("return", V("fs"))])
        return pre + [mk, ("assign", "o", ("call", "mk", [V("in0")])), ("assign", "t", ("index", V("o"), 0)), ("assign", "rs", ("index", V("o"), 1)),
                      ("print", ("call", "t", [I(1)])), ("print", ("call", "t", [V("in1")])), ("print", ("call", "rs", [V("in2")])), ("print", ("call", "t", [I(1)])),
                      ("print", ("call", "t", [I(1)])), ("print", ("str", "end"))]
    raise ValueError(kind)


def select(tier, seed):
    items = [("A", pos, ok) for pos in POSITIONS for ok in OWNER_KINDS]
    items += [("D", k, None) for k in D_KINDS]
    items += [("C", k, fi) for k in VIA_KINDS for fi in range(4) if not (k == "via_nested_maker" and fi)]
    rnd = random.Random(seed)
    nseq = 120 if tier == "quick" else 1200
    seen = set()
    while len(seen) < nseq:
        ln = rnd.randint(3, 12)
        seq = tuple((rnd.randint(0, 1), rnd.randint(0, 3), rnd.choice([0, 1, 2, ("c", 1), ("c", 5)])) for _ in range(ln))
        seen.add(seq)
    items += [("B", s, None) for s in sorted(seen, key=repr)]
    return items, None, 0


def program(kind, x, y):
    if kind == "C":
        return program_c(x, y)
    if kind == "D":
        return program_d(x)
    return program_a(x, y) if kind == "A" else program_b(x)


def describe(item):
    kind, x, y = item
    if kind == "D":
        return "three levels / modify with an equal value: `%s`" % x
    if kind == "C":
        return "closure `%s` called from a context with same-named variables (`%s`)" % (["reader", "writer", "shadow", "later"][y], x)
    if kind == "A":
        return "capture position `%s`, owner variable is a %s" % (x, y)
    return "sharing sequence " + " ".join("%s.%s(%s)" % ("ab"[i], ["reader", "writer", "shadow", "later"][f], ("in%d" % a) if isinstance(a, int) else a[1]) for i, f, a in x)
