"""Failing programs for C17 (engine D): a call chain of depth 7 through plain functions, a closure, a method, a recursive function,
with each level inside a different block nest; level k fails iff in0 == k and the trigger input makes the failing construct fail.
The solver enumerates ALL failing paths of the program (one per level and failure point); for each, a model of its path condition
drives the real CLI, which must exit with status 1 (no Rust panic, no abort), print exactly the output produced before the
failure, and print the call-stack trace of exactly the frames active at the point of failure, innermost first.
Failure kinds: assert, zero divisor, `get nil`, list index out of range, `remove` out of range (a native-call frame on top)."""
I = lambda n: ("int", n)
V = lambda x: ("var", x)
B = lambda op, l, r: ("bin", op, l, r)
NIN = 3

OPT = ("def", "opt", [("sel", "int"), ("x", "int")], "int?", [("if", [(B("==", V("sel"), I(1)), [("return", ("nil",))])], None), ("return", V("x"))])
KINDS = ["assert", "div", "get", "index", "remove", "assert_inline"]
ORDERS = [("fn", "loop", "method", "closure", "rec", "else", "fn"), ("method", "fn", "rec", "loop", "fn", "closure", "else"),
          ("closure", "else", "fn", "rec", "method", "loop", "fn"),
          # the two innermost levels live in an imported module (exported functions; the module has asserts of its own)
          ("fn", "method", "loop", "closure", "else", "mod", "mod")]
LIB = "lib17"


def fail_stmts(kind):
    if kind == "assert":
        return [("assert", B("!=", V("b"), I(0)))]
    if kind == "assert_inline":
        # the assert shares its source line with a statement that prints multi-byte text: the column counts characters
        return [("sameline", [("print", ("str", "→ é 世")), ("assert", B("!=", V("b"), I(0)))])]
    if kind == "div":
        return [("print", B("/", I(10), V("b")))]
    if kind == "get":
        return [("print", ("get", ("call", "opt", [V("b"), I(1)])))]
    if kind == "index":
        return [("assign", "xs", ("list", [I(1), I(2)]), "[int...]"), ("print", ("index", V("xs"), "b"))]
    if kind == "remove":
        return [("assign", "xs", ("list", [I(1), I(2)]), "[int...]"), ("print", ("mcall", V("xs"), "remove", [V("b")]))]
    raise ValueError(kind)


def level_body(k, style, kind, nxt):
    """body of level k (parameters a, b): print k; fail here when a == k; else go one level deeper"""
    hit = fail_stmts(kind)
    body = [("print", I(100 + k))]
    if style == "loop":
        body.append(("from", I(0), I(1), False, None, None, [("if", [(B("==", V("a"), I(k)), hit)], None)]))
    elif style == "else":
        body.append(("if", [(B("!=", V("a"), I(k)), [("print", I(0))])], hit))
    else:
        body.append(("if", [(B("==", V("a"), I(k)), hit)], None))
    body.append(("return", nxt))
    return body


def program(kind, order, _unused=None):
    styles = ORDERS[order]
    prog = [("assign", "in0", ("in", 0)), ("assign", "in1", ("in", 1)), ("assign", "in2", ("in", 2)), OPT, ("assign", "salt", I(1))]
    # levels are defined innermost first so that each can name the next
    nxt = B("+", V("a"), V("b"))
    lib = [("print", ("str", "lib:init")), OPT, ("assign", "li", ("in", 0)), ("assign", "lj", ("in", 1)),
           ("if", [(B("==", V("li"), I(8)), _rename_to(fail_stmts(kind), "li", "lj"))], None)]
    for k in range(len(styles), 0, -1):
        st = styles[k - 1]
        name = "g%d" % k
        if st == "mod":
            lib.append(("export", name, ("fnlit", [("a", "int"), ("b", "int")], "int", level_body(k, "fn", kind, nxt)), "fn(int, int) -> int"))
            nxt = ("call", name, [V("a"), V("b")])
            if k == 1 or styles[k - 2] != "mod":
                nxt = ("mcall", V(LIB), name, [V("a"), V("b")])
                lib.append(("assert", B("==", I(1), I(1))))
                prog.append(("import", LIB))
        elif st == "method":
            prog.append(("class", "K%d" % k, [("z", "int")], [], [("setfield", V("self"), "z", I(0))],
                         [("m", [("a", "int"), ("b", "int")], "int", level_body(k, st, kind, nxt))]))
            prog.append(("assign", "o%d" % k, ("call", "K%d" % k, [])))
            nxt = ("mcall", V("o%d" % k), "m", [V("a"), V("b")])
        elif st == "rec":
            # recursion: the level calls itself once (with a flag) before going deeper: two activations of the same function
            body = [("print", I(100 + k)),
                    ("if", [(B("==", V("r"), I(0)), [("return", ("selfcall", [V("a"), V("b"), I(1)]))])], None),
                    ("if", [(B("==", V("a"), I(k)), fail_stmts(kind))], None), ("return", nxt)]
            prog.append(("def", name, [("a", "int"), ("b", "int"), ("r", "int")], "int", body))
            nxt = ("call", name, [V("a"), V("b"), I(0)])
        elif st == "closure":
            body = level_body(k, st, kind, nxt)
            body.insert(1, ("print", V("salt")))        # captures a module variable
            prog.append(("def", name, [("a", "int"), ("b", "int")], "int", body))
            nxt = ("call", name, [V("a"), V("b")])
        else:
            prog.append(("def", name, [("a", "int"), ("b", "int")], "int", level_body(k, st, kind, nxt)))
            nxt = ("call", name, [V("a"), V("b")])
    prog.append(("if", [(B("==", V("in0"), I(0)), [("print", ("str", "depth0"))] + [s for s in _rename(fail_stmts(kind))])], None))
    prog.append(("print", _rename([nxt])[0]))
    prog.append(("print", ("str", "end")))
    if "mod" in styles:
        return {"entry": prog, "modules": {LIB: lib}}
    return prog


def _rename_to(node, a, b):
    if isinstance(node, tuple):
        if len(node) == 2 and node[0] == "var" and node[1] in ("a", "b"):
            return ("var", {"a": a, "b": b}[node[1]])
        if node and node[0] == "index" and node[2] == "b":
            return ("index", _rename_to(node[1], a, b), b)
        return tuple(_rename_to(x, a, b) for x in node)
    if isinstance(node, list):
        return [_rename_to(x, a, b) for x in node]
    return node


def _rename(node):
    """module level: a -> in0, b -> in1"""
    if isinstance(node, tuple):
        if len(node) == 2 and node[0] == "var" and node[1] in ("a", "b"):
            return ("var", {"a": "in0", "b": "in1"}[node[1]])
        if node and node[0] == "index" and node[2] == "b":
            return ("index", _rename(node[1]), "in1")
        return tuple(_rename(x) for x in node)
    if isinstance(node, list):
        return [_rename(x) for x in node]
    return node


def select(tier, seed):
    items = [(k, o, None) for k in KINDS for o in range(len(ORDERS))]
    return items, len(items), 1


def describe(item):
    return "failure `%s` along call chain %s" % (item[0], "/".join(ORDERS[item[1]]))


def level_in_module(order, level):
    if level == 8:
        return "mod" in ORDERS[order]           # the module's own top-level code, while it is being imported
    return 1 <= level <= 7 and ORDERS[order][level - 1] == "mod"


def assert_position(src, level):
    """(line, column), 1-based, of the `assert` statement that fails at `level` (1..7: inside g<level> / class K<level>; 0: module
    level, after `print "depth0"`), read off the rendered source text - independent of what the compiler wrote into the instruction"""
    lines = src.split("\n")
    start = None
    for i, l in enumerate(lines):
        t = l.strip()
        if level == 0 and t == 'print "depth0"':
            start = i
        elif level == 8 and t.startswith("lj = "):
            start = i
        elif level > 0 and (t.startswith("g%d = fn(" % level) or t.startswith("class K%d " % level) or t.startswith("export g%d:" % level)):
            start = i
    if start is None:
        return None
    for i in range(start, len(lines)):
        c = lines[i].find("assert ")
        if c >= 0 and (lines[i].strip().startswith("assert ") or lines[i].strip().startswith("print ")):
            return (i + 1, c + 1)           # columns count characters
    return None
