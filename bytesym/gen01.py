"""Program family of C01: every nesting spine over the control-flow forms, a leaf at the bottom, symbolic inputs in the conditions,
loop bounds and data.  Generation is ordinary enumeration (it picks WHICH programs are examined); for each program the solver
decides the property for ALL input values.

A program:
    in0 = <input> ; in1 = <input> ; in2 = <input>
    h = fn(a: int, q: int) -> int { ... }            (helper with its own loop + early return, used by the `call` form)
    r = fn(n: int) -> int { ... self(n - 1) ... }     (recursion, used by the `rec` form)
    t = fn(p0: int, p1: int, p2: int) -> int { acc = 0 ; k = 5 ; <spine> ; print acc ; return acc }
    print t(in0, in1, in2)
    print "end"
Loop trip counts that depend on inputs go through `% 3`, so inputs range over all of i32 while every loop stays within the bound."""
import itertools, random

I = lambda n: ("int", n)
V = lambda x: ("var", x)
B = lambda op, l, r: ("bin", op, l, r)
ADD = lambda name, e: ("assign", name, B("+", V(name), e))

FORMS = ["if", "ifelse_then", "ifelse_else", "elif_first", "elif_second", "elif_else", "while", "while_sym", "from_to",
         "from_through_step", "from_named", "from_symstep", "from_symbounds", "from_collide", "from_anon_sym", "from_stepexpr", "from_logged", "from_collide_end"]
LOOPS = {"while", "while_sym", "from_to", "from_through_step", "from_named", "from_symstep", "from_symbounds", "from_collide", "from_anon_sym", "from_stepexpr", "from_logged",
         "from_collide_end"}
LEAVES = ["plain", "break", "continue", "return", "print", "assert", "div", "logic", "call", "rec", "opassign", "nested_fn_loop", "constops"]


def leaf_stmts(leaf, d):
    p = V("p%d" % (d % 3))
    if leaf == "plain":
        return [ADD("acc", I(1))]
    if leaf == "break":
        return [("break",)]
    if leaf == "continue":
        return [("continue",)]
    if leaf == "return":
        return [("return", B("+", V("acc"), I(100)))]
    if leaf == "print":
        return [("print", B("+", V("acc"), p))]
    if leaf == "assert":
        return [("assert", B("!=", p, I(4))), ADD("acc", I(1))]
    if leaf == "div":
        return [ADD("acc", B("/", I(12), p))]
    if leaf == "logic":
        return [("assign", "lb", B("||", B("&&", B("==", V("p0"), I(1)), B("<", V("p1"), I(2))), B("==", V("p2"), I(0)))),
                ("if", [(V("lb"), [ADD("acc", I(1))])], None)]
    if leaf == "call":
        return [ADD("acc", ("call", "h", [V("acc"), p]))]
    if leaf == "rec":
        return [ADD("acc", ("call", "r", [B("%", p, I(3))]))]
    if leaf == "opassign":
        return [("opassign", "acc", "+", p), ("opassign", "acc", "-", I(1))]
    if leaf == "constops":
        # arithmetic with constant operands (what a code generator likes to rewrite): truncating division and remainder of negative
        # values by powers of two, multiplication by a power of two
        q = B("-", B("%", p, I(100)), I(50))
        return [("print", B("/", q, I(2))), ("print", B("%", q, I(4))), ("print", B("/", q, I(8))), ("print", B("*", q, I(8))), ("print", B("/", q, I(-4))), ADD("acc", I(1))]
    if leaf == "nested_fn_loop":
        return [ADD("acc", ("call", "h", [I(2), p])), ("print", V("acc"))]
    raise ValueError(leaf)


def other_arm(in_loop, variant):
    if in_loop and variant == 1:
        return [("continue",)]
    if in_loop and variant == 2:
        return [("break",)]
    return [ADD("acc", I(2))]


def build(spine, leaf, variant=0):
    def go(i, in_loop):
        if i == len(spine):
            return leaf_stmts(leaf, i)
        f = spine[i]
        d = i
        p = V("p%d" % (d % 3))
        q = V("p%d" % ((d + 1) % 3))
        cond, cond2 = B("==", p, I(1)), B("==", p, I(2))
        tail = [ADD("acc", I(3))]
        if f == "if":
            return [("if", [(cond, go(i + 1, in_loop))], None)] + tail
        if f == "ifelse_then":
            return [("if", [(cond, go(i + 1, in_loop))], other_arm(in_loop, variant))] + tail
        if f == "ifelse_else":
            return [("if", [(cond, other_arm(in_loop, variant))], go(i + 1, in_loop))] + tail
        if f == "elif_first":
            return [("if", [(cond, go(i + 1, in_loop)), (cond2, other_arm(in_loop, variant))], [ADD("acc", I(5))])] + tail
        if f == "elif_second":
            return [("if", [(cond, other_arm(in_loop, variant)), (cond2, go(i + 1, in_loop))], None)] + tail
        if f == "elif_else":
            return [("if", [(cond, [ADD("acc", I(5))]), (cond2, other_arm(in_loop, variant))], go(i + 1, in_loop))] + tail
        body_tail = [ADD("acc", I(7)), ("print", V("acc"))]
        if f == "while":
            w = "w%d" % d
            return [("assign", w, I(0)), ("while", B("<", V(w), I(2)), [ADD(w, I(1))] + go(i + 1, True) + body_tail)]
        if f == "while_sym":
            w = "w%d" % d
            return [("assign", w, I(0)), ("while", B("<", V(w), B("%", q, I(3))), [ADD(w, I(1))] + go(i + 1, True) + body_tail)]
        if f == "from_to":
            return [("from", I(0), I(2), False, None, None, go(i + 1, True) + body_tail)]
        if f == "from_through_step":
            return [("from", I(0), I(4), True, I(2), None, go(i + 1, True) + body_tail)]
        if f == "from_named":
            c = "c%d" % d
            return [("from", I(0), I(2), False, None, c, go(i + 1, True) + [ADD("acc", V(c)), ("print", V("acc"))])]
        if f == "from_symstep":
            s, c = "s%d" % d, "c%d" % d
            return [("assign", s, I(1)), ("if", [(B("==", q, I(2)), [("assign", s, I(2))])], None),
                    ("from", I(0), I(4), False, V(s), c, go(i + 1, True) + [ADD("acc", V(c)), ("print", V("acc"))])]
        if f == "from_symbounds":
            c = "c%d" % d
            return [("from", B("%", q, I(3)), I(2), True, None, c, go(i + 1, True) + [ADD("acc", V(c)), ("print", V("acc"))])]
        if f == "from_collide":
            return [("from", I(1), I(3), True, None, "k", go(i + 1, True) + body_tail), ADD("acc", V("k"))]
        if f == "from_stepexpr":
            # a step that is a compound expression (several instructions; `continue` must land on its first one)
            s, c = "s%d" % d, "c%d" % d
            return [("assign", s, I(1)), ("if", [(B("==", q, I(2)), [("assign", s, I(2))])], None),
                    ("from", I(0), I(4), False, B("-", B("+", V(s), V(s)), V(s)), c, go(i + 1, True) + [ADD("acc", V(c)), ("print", V("acc"))])]
        if f == "from_logged":
            # bounds and step with observable side effects: start, then end, once; the step after every iteration
            c = "c%d" % d
            return [("from", ("call", "lgb", [I(9001), I(0)]), ("call", "lgb", [I(9002), I(2)]), False, ("call", "lgb", [I(9003), I(1)]), c, go(i + 1, True) + body_tail)]
        if f == "from_collide_end":
            # the counter names an existing variable that the end bound mentions
            return [("from", I(0), V("k"), False, None, "k", go(i + 1, True) + body_tail), ADD("acc", V("k")), ("assign", "k", I(5))]
        if f == "from_anon_sym":
            return [("from", I(0), B("%", q, I(3)), False, None, None, go(i + 1, True) + body_tail)]
        raise ValueError(f)
    return go(0, False)


def valid(spine, leaf):
    if leaf in ("break", "continue"):
        return any(f in LOOPS for f in spine)
    return True


HELPER_H = ("def", "h", [("a", "int"), ("q", "int")], "int", [
    ("assign", "z", V("a")),
    ("from", I(0), I(3), False, None, "j", [
        ("if", [(B("==", V("j"), B("%", V("q"), I(3))), [("if", [(B(">", V("z"), I(50)), [("return", I(50))])], None), ("return", B("+", V("z"), V("j")))])], None),
        ADD("z", I(1))]),
    ("return", B("-", V("z"), I(1)))])
HELPER_LB = ("def", "lgb", [("tag", "int"), ("v", "int")], "int", [("print", V("tag")), ("return", V("v"))])
HELPER_R = ("def", "r", [("n", "int")], "int", [
    ("if", [(B("<=", V("n"), I(0)), [("return", I(0))])], None),
    ("return", B("+", V("n"), ("selfcall", [B("-", V("n"), I(1))])))])


def rename(node, m):
    if isinstance(node, tuple):
        if len(node) == 2 and node[0] == "var" and node[1] in m:
            return ("var", m[node[1]])
        return tuple(rename(x, m) for x in node)
    if isinstance(node, list):
        return [rename(x, m) for x in node]
    return node


def program(spine, leaf, variant=0, where="fn"):
    prog = [("assign", "in0", ("in", 0)), ("assign", "in1", ("in", 1)), ("assign", "in2", ("in", 2))]
    if leaf in ("call", "nested_fn_loop"):
        prog.append(HELPER_H)
    if leaf == "rec":
        prog.append(HELPER_R)
    if "from_logged" in spine:
        prog.append(HELPER_LB)
    if where == "module":
        # the same statements as module-level code (module frame instead of a function frame, no `return`)
        body = [("assign", "acc", I(0)), ("assign", "k", I(5))] + build(spine, leaf, variant) + [("print", V("acc"))]
        prog += rename(body, {"p0": "in0", "p1": "in1", "p2": "in2"})
    else:
        body = [("assign", "acc", I(0)), ("assign", "k", I(5))] + build(spine, leaf, variant) + [("print", V("acc")), ("return", V("acc"))]
        prog.append(("def", "t", [("p0", "int"), ("p1", "int"), ("p2", "int")], "int", body))
        prog.append(("print", ("call", "t", [V("in0"), V("in1"), V("in2")])))
    prog.append(("print", ("str", "end")))
    return prog


NIN = 3


def enumerate_all(depth):
    for d in range(1, depth + 1):
        for spine in itertools.product(FORMS, repeat=d):
            for leaf in LEAVES:
                if not valid(spine, leaf):
                    continue
                nvar = 3 if any(f in LOOPS for f in spine) and any(f.startswith(("ifelse", "elif")) for f in spine) else 1
                for v in range(nvar):
                    yield spine, leaf, v, "fn"
                if leaf != "return":
                    yield spine, leaf, 0, "module"


def deep_loop_exits():
    """depth 4, targeted: loop > conditional > loop > conditional > break|continue - a loop exit that crosses two block frames
    inside a loop that is itself two frames deep (frames-to-pop arithmetic on both sides of the inner loop)"""
    loops = ["while", "from_to", "from_named", "from_symbounds"]
    conds = ["if", "ifelse_then", "ifelse_else", "elif_second"]
    for l1 in loops:
        for c1 in conds:
            for l2 in loops:
                for c2 in conds:
                    for leaf in ("continue", "break"):
                        for v in ((0, 1) if c2 != "if" else (0,)):
                            yield (l1, c1, l2, c2), leaf, v, "fn"


def select(plan, seed, deep=0):
    """plan: [(depth, count | None)] - None = every program of that nesting depth, a number = seeded sample of that size;
    deep: how many of the targeted depth-4 loop-exit programs (None = all)"""
    out, space, exhaustive_to = [], 0, 0
    rnd = random.Random(seed)
    for depth, count in plan:
        level = [x for x in enumerate_all(depth) if len(x[0]) == depth]
        space += len(level)
        if count is None or count >= len(level):
            out += level
            if exhaustive_to == depth - 1:
                exhaustive_to = depth
        else:
            rnd.shuffle(level)
            out += level[:count]
    d4 = list(deep_loop_exits())
    space += len(d4)
    if deep is not None:
        rnd.shuffle(d4)
        d4 = d4[:deep]
    out += d4
    return out, space, exhaustive_to


def describe(item):
    spine, leaf, v, where = item
    return "%s > %s (variant %d, %s level)" % (" > ".join(spine), leaf, v, "module" if where == "module" else "function")
