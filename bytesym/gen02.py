"""Program family for the program-level half of C02 (engine D): boundary cases of the typing rules that need a parsed program -
return-path analysis, scope of block-local names, re-assignment with another type from nested blocks, element / value types of
containers, argument lists of function-typed values, conditions.

Members are written WITHOUT knowing whether the compiler accepts them.  C02 says nothing about a rejected program.  For an ACCEPTED
program the emitted bytecode is explored symbolically (all inputs): no feasible path may end in a dynamic TYPE failure (missing return
value, name not in scope, missing argument, non-boolean condition, arithmetic on a non-number, call of a non-function), and every
probe `print typeof e; print e` must print a value of the kind the static type names (nil excepted).  Defined dynamic failures
(assert, nil, index range, zero divisor, overflow) are allowed."""
import itertools

I = lambda n: ("int", n)
V = lambda x: ("var", x)
B = lambda op, l, r: ("bin", op, l, r)
S = lambda s: ("str", s)
NIN = 3
R = ("return", V("p"))
R2 = ("return", B("+", V("q"), I(1)))
N = ("assign", "z", I(1))
C1 = B("==", V("p"), I(1))
C2 = B("==", V("q"), I(2))


def probe(e):
    return [("print", ("typeof", e)), ("print", e)]


# ---------------------------------------------------------------- A: return paths
def leaf_bodies():
    return {"ret": [R], "none": [N], "ret2": [N, R2]}


def forms(X, Y, Z):
    """control-flow forms over sub-bodies X, Y, Z"""
    loop_head = [("assign", "w", I(0))]
    wcond = B("<", V("w"), B("%", V("q"), I(3)))
    step = ("assign", "w", B("+", V("w"), I(1)))
    return {
        "if": [("if", [(C1, X)], None)],
        "if_else": [("if", [(C1, X)], Y)],
        "if_elif": [("if", [(C1, X), (C2, Y)], None)],
        "if_elif_else": [("if", [(C1, X), (C2, Y)], Z)],
        "while": loop_head + [("while", wcond, [step] + X)],
        "from": [("from", I(0), B("%", V("q"), I(3)), False, None, None, X)],
        "while_break": loop_head + [("while", wcond, [step, ("if", [(C1, [("break",)])], None)] + X)],
        "from_continue": [("from", I(0), I(2), False, None, None, [("if", [(C2, [("continue",)])], None)] + X)],
        "while_true_break": [("while", ("bool", True), [("if", [(C2, [("break",)])], None)] + X)],
        "while_true_nested_break": [("while", ("bool", True), [("if", [(C1, [("if", [(C2, [("break",)])], None)])], None)] + X)],
        "nested_if": [("if", [(C1, [("if", [(C2, X)], Y)])], Z)],
        "loop_in_else": [("if", [(C1, X)], [("from", I(0), B("%", V("q"), I(3)), False, None, None, Y)])],
    }


def return_items():
    L = list(leaf_bodies())
    items = []
    for f in forms([R], [R], [R]):
        for x, y, z in itertools.product(L, L, L):
            for tail in ("", "ret"):
                items.append(("A", f, (x, y, z, tail)))
    # drop duplicates for forms that ignore Y / Z
    seen, out = set(), []
    for it in items:
        _, f, (x, y, z, tail) = it
        uses = {"if": 1, "while": 1, "from": 1, "while_break": 1, "from_continue": 1, "while_true_break": 1, "while_true_nested_break": 1, "if_else": 2, "if_elif": 2, "loop_in_else": 2}.get(f, 3)
        key = (f, (x, y, z)[:uses], tail)
        if key in seen:
            continue
        seen.add(key)
        out.append(("A", f, (x, y if uses > 1 else "ret", z if uses > 2 else "ret", tail)))
    return out


def program_a(f, spec, use="assign"):
    x, y, z, tail = spec
    lb = leaf_bodies()
    body = forms(lb[x], lb[y], lb[z])[f] + ([R2] if tail else [])
    prog = [("assign", "in0", ("in", 0)), ("assign", "in1", ("in", 1)), ("assign", "in2", ("in", 2)),
            ("def", "f", [("p", "int"), ("q", "int")], "int", body),
            ("assign", "r", ("call", "f", [V("in0"), V("in1")]))] + probe(V("r")) + [("print", B("+", V("r"), I(1))), ("print", S("end"))]
    return prog


# ---------------------------------------------------------------- B: scope of block-local names / C: re-assignment with another type
def scope_items():
    return [("B", d, u) for d in ("if", "else", "elif", "while", "from", "nested", "counter", "inner_fn") for u in ("after", "after_in_block", "closure")]


def program_b(d, u):
    y = ("assign", "y", B("+", V("p"), I(1)))
    defs = {
        "if": [("if", [(C1, [y])], None)],
        "else": [("if", [(C1, [N])], [y])],
        "elif": [("if", [(C1, [N]), (C2, [y])], None)],
        "while": [("assign", "w", I(0)), ("while", B("<", V("w"), I(1)), [("assign", "w", B("+", V("w"), I(1))), y])],
        "from": [("from", I(0), I(1), False, None, None, [y])],
        "nested": [("if", [(C1, [("from", I(0), I(1), False, None, None, [y])])], None)],
        "counter": [("from", I(0), I(2), False, None, "y", [N])],
        "inner_fn": [("def", "g", [], "int", [y, ("return", V("y"))]), ("assign", "t", ("call", "g", []))],
    }[d]
    use = {
        "after": probe(V("y")) + [("return", V("y"))],
        "after_in_block": [("if", [(C2, probe(V("y")))], None), ("return", I(0))],
        "closure": [("def", "h", [], "int", [("return", V("y"))]), ("return", ("call", "h", []))],
    }[u]
    prog = [("assign", "in0", ("in", 0)), ("assign", "in1", ("in", 1)), ("assign", "in2", ("in", 2)),
            ("def", "f", [("p", "int"), ("q", "int")], "int", defs + use),
            ("print", ("call", "f", [V("in0"), V("in1")])), ("print", S("end"))]
    return prog


def retype_items():
    return [("C", t, s) for t in ("local", "param", "module", "captured") for s in ("if", "else", "while", "from", "nested", "plain", "opassign", "unwrap")]


def program_c(target, site):
    name = {"local": "v", "param": "p", "module": "gv", "captured": "gv"}[target]
    if site == "opassign":
        w = ("opassign", name, "+", S("x"))
    elif site == "unwrap":
        w = ("expr", ("unwrapinto", name, ("call", "opt", [V("q"), V("q")])))
    else:
        w = ("modify" if target == "captured" else "assign", name, S("ten"))
    wrap = {
        "if": [("if", [(C2, [w])], None)],
        "else": [("if", [(C2, [N])], [w])],
        "while": [("assign", "w", I(0)), ("while", B("<", V("w"), B("%", V("q"), I(2))), [("assign", "w", B("+", V("w"), I(1))), w])],
        "from": [("from", I(0), B("%", V("q"), I(2)), False, None, None, [w])],
        "nested": [("if", [(C2, [("from", I(0), I(1), False, None, None, [w])])], None)],
        "plain": [w], "opassign": [("if", [(C2, [w])], None)], "unwrap": [("if", [(C2, [w])], None)],
    }[site]
    body = ([("assign", "v", I(10))] if target == "local" else []) + wrap + probe(V(name)) + [("return", B("-", V(name), I(1)))]
    opt = ("def", "opt", [("sel", "int"), ("x", "int")], "str?", [("if", [(B("==", V("sel"), I(1)), [("return", ("nil",))])], None), ("return", S("s"))])
    prog = [("assign", "in0", ("in", 0)), ("assign", "in1", ("in", 1)), ("assign", "in2", ("in", 2)), opt, ("assign", "gv", V("in2")),
            ("def", "f", [("p", "int"), ("q", "int")], "int", body),
            ("print", ("call", "f", [V("in0"), V("in1")]))] + (probe(V("gv")) if target in ("module", "captured") else []) + [("print", S("end"))]
    return prog


# ---------------------------------------------------------------- K: containers, F: function-typed values, H: conditions
CATALOGUE = {
    # element / value types
    "push_str_into_int_list": [("assign", "xs", ("list", [V("in0"), I(2)]), "[int...]"), ("expr", ("mcall", V("xs"), "push", [S("a")]))] + probe(("index", V("xs"), 2)) + [("print", B("+", ("index", V("xs"), 2), I(1)))],
    "set_bool_into_int_list": [("assign", "xs", ("list", [V("in0"), I(2)]), "[int...]"), ("setindex", V("xs"), 0, ("bool", True))] + probe(("index", V("xs"), 0)) + [("print", B("+", ("index", V("xs"), 0), I(1)))],
    "map_value_str_into_int": [("assign", "m", ("map", "str", "int", [(S("a"), V("in0"))])), ("msetindex", V("m"), S("b"), S("s"))] + probe(("mindex", V("m"), S("b"))),
    "list_of_lists_elem": [("assign", "xs", ("list", [V("in0"), I(2)]), "[int...]"), ("assign", "g", ("list", [V("xs")]), "[[int...]...]"), ("expr", ("mcall", ("index", V("g"), 0), "push", [("bool", False)]))] + probe(("index", V("xs"), 2)),
    "join_mixed": [("assign", "xs", ("list", [V("in0")]), "[int...]"), ("assign", "ss", ("list", [S("a")]), "[str...]"), ("expr", ("mcall", V("xs"), "join", [V("ss")]))] + probe(("index", V("xs"), 1)) + [("print", B("*", ("index", V("xs"), 1), I(2)))],
    "opt_elem_into_plain": [("assign", "os", ("list", [("nil",), V("in0")]), "[int?...]"), ("assign", "xs", ("list", [I(1)]), "[int...]"), ("expr", ("mcall", V("xs"), "push", [("index", V("os"), 1)]))] + probe(("index", V("xs"), 1)),
    # function-typed values
    "alias_fewer_params": [("def", "two", [("a", "int"), ("b", "int")], "int", [("return", B("+", V("a"), V("b")))]), ("assign", "g", V("two"), "fn(int) -> int"), ("print", ("call", "g", [V("in0")]))],
    "alias_more_params": [("def", "one", [("a", "int")], "int", [("return", V("a"))]), ("assign", "g", V("one"), "fn(int, int) -> int"), ("print", ("call", "g", [V("in0"), V("in1")]))],
    "call_too_few": [("def", "two", [("a", "int"), ("b", "int")], "int", [("return", B("+", V("a"), V("b")))]), ("print", ("call", "two", [V("in0")]))],
    "pass_fn_wrong_arity": [("def", "two", [("a", "int"), ("b", "int")], "int", [("return", B("+", V("a"), V("b")))]), ("def", "ap", [("h", "fn(int) -> int"), ("x", "int")], "int", [("return", ("call", "h", [V("x")]))]), ("print", ("call", "ap", [V("two"), V("in0")]))],
    "void_result_used": [("def", "vf", [("a", "int")], None, [("if", [(B("==", V("a"), I(1)), [("return", None)])], None), ("print", V("a"))]), ("assign", "r", ("call", "vf", [V("in0")]))] + probe(V("r")),
    "ret_type_alias_void": [("def", "vf", [("a", "int")], None, [("print", V("a"))]), ("assign", "g", V("vf"), "fn(int) -> int"), ("assign", "r", ("call", "g", [V("in0")]))] + probe(V("r")) + [("print", B("+", V("r"), I(1)))],
    "call_int": [("assign", "n", V("in0")), ("print", ("call", "n", []))],
    "fn_returning_fn_arity": [("def", "mk", [], "fn(int) -> int", [("def", "inner", [("a", "int"), ("b", "int")], "int", [("return", B("+", V("a"), V("b")))]), ("return", V("inner"))]), ("assign", "g", ("call", "mk", [])), ("print", ("call", "g", [V("in0")]))],
    "return_str_from_int_fn_in_branch": [("def", "f", [("p", "int")], "int", [("if", [(B("==", V("p"), I(1)), [("return", S("one"))])], None), ("return", V("p"))]), ("assign", "r", ("call", "f", [V("in0")]))] + probe(V("r")) + [("print", B("+", V("r"), I(1)))],
    "return_bool_from_int_fn_in_loop": [("def", "f", [("p", "int")], "int", [("from", I(0), B("%", V("p"), I(2)), False, None, None, [("return", ("bool", True))]), ("return", V("p"))]), ("assign", "r", ("call", "f", [V("in0")]))] + probe(V("r")) + [("print", B("+", V("r"), I(1)))],
    "recursive_ret_kind": [("def", "f", [("p", "int")], "int", [("if", [(B("<=", V("p"), I(0)), [("return", I(0))])], None), ("return", B("+", I(1), ("selfcall", [B("-", B("%", V("p"), I(3)), I(1))])))]), ("assign", "r", ("call", "f", [V("in0")]))] + probe(V("r")),
    # conditions / operators
    "if_on_int": [("if", [(V("in0"), [("print", I(1))])], None)],
    "while_on_int": [("assign", "w", V("in0")), ("while", V("w"), [("assign", "w", I(0))])],
    "not_on_int": [("print", ("not", V("in0")))],
    "and_with_int": [("print", B("&&", B("==", V("in0"), I(1)), V("in1")))],
    "neg_on_bool": [("print", ("neg", B("==", V("in0"), I(1))))],
    "add_bool_int": [("print", B("+", B("==", V("in0"), I(1)), V("in1")))],
    "compare_str_int": [("print", B("<", S("a"), V("in0")))],
    "sub_str_int": [("assign", "s", S("a")), ("print", B("-", V("s"), V("in0")))],
    "assert_on_int": [("assert", V("in0"))],
    "or_on_plain_keeps_kind": [("assign", "x", ("or", ("nil",), V("in0")))] + probe(V("x")) + [("print", B("+", V("x"), I(1)))],
    "or_fallback_other_type": [("def", "opt", [("sel", "int")], "int?", [("if", [(B("==", V("sel"), I(1)), [("return", ("nil",))])], None), ("return", V("sel"))]), ("assign", "x", ("or", ("call", "opt", [V("in0")]), S("none")))] + probe(V("x")) + [("print", B("+", V("x"), I(1)))],
    "unwrap_into_typed": [("def", "opt", [("sel", "int")], "int?", [("if", [(B("==", V("sel"), I(1)), [("return", ("nil",))])], None), ("return", V("sel"))]), ("assign", "b", S("s")), ("if", [(("unwrapinto", "b", ("call", "opt", [V("in0")])), probe(V("b")))], None)] + probe(V("b")),
    "loop_counter_reuse_str": [("assign", "k", S("s")), ("from", I(0), I(2), False, None, "k", [("print", V("k"))])] + probe(V("k")),
    "loop_bound_str": [("from", I(0), S("3"), False, None, "k", [("print", V("k"))])],
    "index_with_bool": [("assign", "xs", ("list", [V("in0"), I(2)]), "[int...]"), ("assign", "b", B("==", V("in0"), I(1))), ("print", ("index", V("xs"), "b"))],
    "index_into_int": [("assign", "n", V("in0")), ("print", ("index", V("n"), 0))],
    # compound assignment: the variable keeps its declared kind, also when that is optional or an alias
    "opassign_optional_target_bool": [("assign", "pend", V("in0"), "int?"), ("opassign", "pend", "+", ("bool", True))] + probe(V("pend")),
    "opassign_optional_target_str": [("assign", "pend", V("in0"), "int?"), ("opassign", "pend", "-", S("x"))] + probe(V("pend")),
    "opassign_optional_target_bigint": [("assign", "pend", I(2), "int?"), ("opassign", "pend", "+", ("big", 5))] + probe(V("pend")),
    "opassign_int_target_bigint": [("assign", "cnt", I(2)), ("opassign", "cnt", "*", ("big", 5))] + probe(V("cnt")),
    "opassign_bool_target": [("assign", "fl", B("==", V("in0"), I(1))), ("opassign", "fl", "+", I(1))] + probe(V("fl")),
    # index chains through containers of different kinds, with constant and variable subscripts
    "list_of_maps_const_index": [("assign", "tables", ("list", [("map", "int", "int", [(I(1), V("in0"))]), ("map", "int", "int", [(I(2), V("in1")), (I(3), I(7))])]), "[map[int, int]...]")]
                                + probe(("mindex", ("index", V("tables"), 1), I(2))) + [("msetindex", ("index", V("tables"), 1), I(3), I(9)), ("print", ("mindex", ("index", V("tables"), 1), I(3)))],
    "map_of_lists_const_index": [("assign", "ml", ("map", "str", "[int...]", [(S("a"), ("list", [V("in0"), I(4)]))]))] + probe(("index", ("get", ("mindex", V("ml"), S("a"))), 1)),
    # an integer literal too wide for 32 bits as operand of an expression that is not folded
    "wide_literal_operand": [("assign", "a", I(5)), ("print", B("+", V("a"), ("int", 99999999999)))] + probe(B("+", V("a"), ("int", 99999999999))),
    "wide_literal_concat": [("print", B("+", S("big"), ("int", 99999999999)))],
    "wide_literal_argument": [("def", "idb", [("x", "bigint")], "bigint", [("return", V("x"))])] + probe(("call", "idb", [("int", 2147483648)])),
    # classes
    "field_wrong_type": [("class", "K", [("n", "int")], [("a", "int")], [("setfield", V("self"), "n", V("a"))], [("bad", [], None, [("setfield", V("self"), "n", S("s"))]), ("get", [], "int", [("return", ("field", V("self"), "n"))])]),
                         ("assign", "o", ("call", "K", [V("in0")])), ("expr", ("mcall", V("o"), "bad", []))] + probe(("mcall", V("o"), "get", [])) + [("print", B("+", ("mcall", V("o"), "get", []), I(1)))],
    "field_wrong_type_outside": [("class", "K", [("n", "int")], [("a", "int")], [("setfield", V("self"), "n", V("a"))], []), ("assign", "o", ("call", "K", [V("in0")])), ("setfield", V("o"), "n", ("bool", True))] + probe(("field", V("o"), "n")),
    "unknown_field": [("class", "K", [("n", "int")], [("a", "int")], [("setfield", V("self"), "n", V("a"))], []), ("assign", "o", ("call", "K", [V("in0")])), ("print", ("field", V("o"), "zz"))],
    "unknown_method": [("class", "K", [("n", "int")], [("a", "int")], [("setfield", V("self"), "n", V("a"))], []), ("assign", "o", ("call", "K", [V("in0")])), ("print", ("mcall", V("o"), "zz", []))],
    "field_unset_in_branch": [("class", "K", [("n", "int")], [("a", "int")], [("if", [(B("==", V("a"), I(1)), [("setfield", V("self"), "n", V("a"))])], None)], []), ("assign", "o", ("call", "K", [V("in0")]))] + probe(("field", V("o"), "n")) + [("print", B("+", ("field", V("o"), "n"), I(1)))],
    "ctor_arg_count": [("class", "K", [("n", "int")], [("a", "int")], [("setfield", V("self"), "n", V("a"))], []), ("assign", "o", ("call", "K", [])), ("print", ("field", V("o"), "n"))],
    "method_arg_type": [("class", "K", [("n", "int")], [("a", "int")], [("setfield", V("self"), "n", V("a"))], [("add", [("d", "int")], "int", [("return", B("+", ("field", V("self"), "n"), V("d")))])]), ("assign", "o", ("call", "K", [V("in0")])), ("print", ("mcall", V("o"), "add", [S("s")]))],
}


def program_k(name):
    return [("assign", "in0", ("in", 0)), ("assign", "in1", ("in", 1)), ("assign", "in2", ("in", 2))] + CATALOGUE[name] + [("print", S("end"))]


def select(tier, seed):
    items = return_items() + scope_items() + retype_items() + [("K", n, None) for n in CATALOGUE]
    return items, len(items), 1


def program(kind, x, y):
    if kind == "A":
        return program_a(x, y)
    if kind == "B":
        return program_b(x, y)
    if kind == "C":
        return program_c(x, y)
    return program_k(x)


def describe(item):
    kind, x, y = item
    if kind == "A":
        return "return paths: `%s` over bodies %s/%s/%s%s" % (x, y[0], y[1], y[2], ", then a trailing return" if y[3] else ", nothing after it")
    if kind == "B":
        return "scope: name defined in `%s`, used `%s`" % (x, y)
    if kind == "C":
        return "re-assignment of a %s with another type, site `%s`" % (x, y)
    return "catalogue: " + x
