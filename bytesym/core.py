"""Engine D ("bytesym") - shared core: values, the decision oracle that drives path exploration, outcome comparison.

Two executors run on this core: vm.py (the bytecode the REAL compiler emitted, instruction semantics = summary of the interpreter,
validated against real runs on every check run) and ref.py (the language semantics on the generated program's AST).  Program
inputs are z3 bit-vector variables; every branch on a symbolic condition asks the solver which sides are feasible and forks; at the
end the solver decides, for every pair of jointly feasible paths, whether the two observable behaviours can differ.

Values
  int    : python int (concrete) or z3 BitVec(32) expression (symbolic)       - i32, signed
  bool   : python bool or z3 Bool expression
  str    : ("str", python str)          nil : NIL
  list   : ListRef (shared, mutable python list of values)
  fn     : Fn(name, captures: dict name -> Cell | None)
  ptr    : Ptr(listref, index)          (HeapPrimitive array view - the VM only)
Arithmetic is i32 with the interpreter's failure conditions (overflow, zero divisor, MIN / -1): an overflowing operation ends the
path as a failure in BOTH executors - what the arithmetic itself yields is C05's business, here it only has to be the same on
both sides."""
import time
import z3

I32_MIN, I32_MAX = -(1 << 31), (1 << 31) - 1
_BV = z3.BitVecSort(32)
U_MUL = z3.Function("u_mul", _BV, _BV, _BV)
U_MUL_OVF = z3.Function("u_mul_ovf", _BV, _BV, z3.BoolSort())
U_ADD_OVF = z3.Function("u_add_ovf", _BV, _BV, z3.BoolSort())
U_SUB_OVF = z3.Function("u_sub_ovf", _BV, _BV, z3.BoolSort())
U_NEG_OVF = z3.Function("u_neg_ovf", _BV, z3.BoolSort())
U_DIV = z3.Function("u_div", _BV, _BV, _BV)
U_REM = z3.Function("u_rem", _BV, _BV, _BV)


class Fail(Exception):
    """the program fails at run time (interpreter error): the path ends, output so far is kept"""

    def __init__(self, kind, detail=""):
        Exception.__init__(self, "%s %s" % (kind, detail))
        self.kind, self.detail = kind, detail


class Unsupported(Exception):
    """the executor met something it has no semantics for: the check is inconclusive, never a pass"""


class TooManyPaths(Exception):
    """the program has more paths than the stated per-program bound: outside the claim, counted"""


class Deadline(Exception):
    """per-program time budget used up: undecided, never a pass"""


class OutOfBound(Exception):
    """path left the stated exploration bound (loop iterations / call depth / steps): outside the claim, counted"""


class Nil:
    def __repr__(self):
        return "nil"


NIL = Nil()


class ListRef:
    __slots__ = ("items",)

    def __init__(self, items):
        self.items = items


class Cell:
    """a variable: shared by reference between frames and closures"""
    __slots__ = ("v", "ro")

    def __init__(self, v, ro=False):
        self.v, self.ro = v, ro


class Fn:
    __slots__ = ("name", "captures")

    def __init__(self, name, captures):
        self.name, self.captures = name, captures


class Ptr:
    __slots__ = ("lst", "idx")

    def __init__(self, lst, idx):
        self.lst, self.idx = lst, idx


class CellPtr:
    """HeapPrimitive::Lookup - a pointer to a variable cell (object field)"""
    __slots__ = ("cell",)

    def __init__(self, cell):
        self.cell = cell


class Obj:
    """an object: class name + field / method cells; identity = python identity"""
    __slots__ = ("cls", "vars")

    def __init__(self, cls, vars):
        self.cls, self.vars = cls, vars


class Some:
    """Primitive::Optional(Some(v)) - the wrapper some built-ins put around a present result (the VM only; in the language a
    present optional IS its value)"""
    __slots__ = ("v",)

    def __init__(self, v):
        self.v = v


class Module:
    """a module instance: its path and the cells it exported (importers share the instance)"""
    __slots__ = ("path", "exports")

    def __init__(self, path):
        self.path, self.exports = path, {}


class MapRef:
    """a map with CONCRETE keys (python ints / ("str", s)) and arbitrary values; shared by reference"""
    __slots__ = ("items",)

    def __init__(self, items):
        self.items = items


class MapPtr:
    """HeapPrimitive::MapPtr - a (map, key) slot; reading a missing key yields nil, writing inserts"""
    __slots__ = ("map", "key")

    def __init__(self, m, key):
        self.map, self.key = m, key


def map_key(k):
    if isinstance(k, bool) or is_sym(k):
        raise Unsupported("map key that is not a concrete int / str")
    if isinstance(k, int) or (isinstance(k, tuple) and k[0] == "str"):
        return k
    raise Unsupported("map key kind")


def map_builtin(o, name, recv, args):
    """shared semantics of the map built-ins (contents of a finite map; iteration order is unspecified and never observed)"""
    if not isinstance(recv, MapRef):
        raise Unsupported("map built-in on a non-map")
    items = recv.items
    if name == "len":
        return len(items)
    if name == "contains_key":
        return map_key(args[0]) in items
    if name == "remove":
        return items.pop(map_key(args[0]), NIL)
    if name == "replace":
        k = map_key(args[0])
        old = items.get(k, NIL)
        items[k] = args[1]
        return old
    if name == "clear":
        items.clear()
        return None
    if name == "clone":
        return MapRef(dict(items))
    raise Unsupported("map built-in " + name)


MAP_BUILTINS = ("len", "contains_key", "remove", "replace", "clear", "clone")


class BuiltIn:
    """a list built-in bound by `lookup` (the receiver arrives as first argument through ld_self)"""
    __slots__ = ("name", "on")

    def __init__(self, name, on="list"):
        self.name, self.on = name, on


def concretize(o, v, lo, hi):
    """a symbolic integer that must lie in lo..hi: fork over the values; None when the path takes a value outside"""
    if not is_sym(v):
        return v if (isinstance(v, int) and not isinstance(v, bool) and lo <= v <= hi) else None
    for k in range(lo, hi + 1):
        if o.branch(v == z3.BitVecVal(k, 32)):
            return k
    return None


STR_BUILTINS = ("len", "chars", "reverse", "contains", "index_of", "replace", "substring", "delete", "insert", "split")


def str_builtin(o, name, recv, args):
    """what the string methods MEAN (README, compiler/src/tests/builtins.rs; C14's oracle): offsets and `len` count bytes of the UTF-8
    text, `chars` / `reverse` work on characters; index arguments are forked over the positions of the concrete string.
    substring(b, t) / delete(b, t): the bytes [b, t), defined for 0 <= b <= t <= len; insert(x, i): 0 <= i <= len; split(m): [s[..m], s[m..]]
    for 0 <= m <= len, otherwise [s, ""] (total).  The offset-taking methods are used on ASCII text only (on multi-byte text their meaning is outside C14)."""
    if not (isinstance(recv, tuple) and recv[0] == "str"):
        raise Unsupported("string built-in on a non-string")
    t = recv[1]
    nb = len(t.encode("utf-8"))
    sval = lambda a: a[1] if isinstance(a, tuple) and a[0] == "str" else None
    if name == "len":
        return nb
    if name == "chars":
        return ListRef([("str", c) for c in t])
    if name == "reverse":
        return ("str", t[::-1])
    if name == "contains":
        return sval(args[0]) in t
    if name == "index_of":
        k = t.encode("utf-8").find(sval(args[0]).encode("utf-8"))
        return NIL if k < 0 else Some(k)
    if name == "replace":
        return ("str", t.replace(sval(args[0]), sval(args[1])))
    if nb != len(t):
        raise Unsupported("offset-taking string method on multi-byte text")
    if name in ("substring", "delete"):
        b = concretize(o, args[0], 0, nb)
        if b is None:
            raise Fail("str", "range start outside the string")
        e = concretize(o, args[1], b, nb)
        if e is None:
            raise Fail("str", "range end outside the string")
        return ("str", t[b:e] if name == "substring" else t[:b] + t[e:])
    if name == "insert":
        i = concretize(o, args[1], 0, nb)
        if i is None:
            raise Fail("str", "insertion index outside the string")
        return ("str", t[:i] + sval(args[0]) + t[i:])
    if name == "split":
        m = concretize(o, args[0], 0, nb)
        if m is None:
            m = nb          # total: any position outside 0..len (negative ones included) yields [s, ""] (C14's oracle, strkernels.py)
        return ListRef([("str", t[:m]), ("str", t[m:])])
    raise Unsupported("string built-in " + name)


def list_builtin(o, name, recv, args):
    """semantics of the list built-ins on a ListRef (shared by both executors; what the built-ins themselves do is C13's engine-B
    kernel - here they only have to be the same on both sides).  -> return value or None"""
    if not isinstance(recv, ListRef):
        raise Unsupported("list built-in on a non-list")
    items = recv.items
    if name == "len":
        return len(items)
    if name == "push":
        items.append(args[0])
        return None
    if name == "clear":
        del items[:]
        return None
    if name == "reverse":
        items.reverse()
        return None
    if name == "clone":
        return ListRef(list(items))
    if name == "remove":
        idx = args[0]
        if is_sym(idx):
            chosen = None
            for k in range(len(items)):
                if o.branch(idx == z3.BitVecVal(k, 32)):
                    chosen = k
                    break
            if chosen is None:
                raise Fail("remove", "index out of range")
            idx = chosen
        if not isinstance(idx, int) or idx < 0 or idx >= len(items):
            raise Fail("remove", "index out of range")
        return items.pop(idx)
    if name == "join":
        other = args[0]
        if not isinstance(other, ListRef):
            raise Unsupported("join with a non-list")
        items.extend(list(other.items))      # join(o): the receiver itself, extended by a copy of o's contents (C13's oracle)
        return recv
    raise Unsupported("list built-in " + name)


LIST_BUILTINS = ("len", "push", "clear", "reverse", "clone", "remove", "join")


def is_sym(v):
    return isinstance(v, z3.ExprRef)


def is_int(v):
    return (isinstance(v, int) and not isinstance(v, bool)) or (is_sym(v) and z3.is_bv(v))


def is_bool(v):
    return isinstance(v, bool) or (is_sym(v) and z3.is_bool(v))


def bv(v):
    return v if is_sym(v) else z3.BitVecVal(v, 32)


def bl(v):
    return v if is_sym(v) else z3.BoolVal(v)


class Oracle:
    """decides branches along ONE path.  `prefix` = decisions taken on the way here (replayed), beyond it every symbolic
    condition is sent to the solver: both sides feasible -> take True now, queue prefix+[False]; solver `unknown` counts as feasible."""

    def __init__(self, explorer, prefix):
        self.ex = explorer
        self.prefix = prefix
        self.taken = []
        self.pc = []
        self.decided = {}
        self.solver = z3.Solver()
        self.solver.set("timeout", explorer.timeout_ms)
        for c in explorer.assumptions:
            self.solver.add(c)
        self.out = []
        self.steps = 0

    def branch(self, cond):
        if isinstance(cond, bool):
            return cond
        cond = z3.simplify(cond)
        if z3.is_true(cond):
            return True
        if z3.is_false(cond):
            return False
        if z3.is_not(cond):
            return not self.branch(cond.arg(0))
        cid = cond.get_id()
        if cid in self.decided:
            return self.decided[cid]
        k = len(self.taken)
        if k < len(self.prefix):
            d = self.prefix[k]
        else:
            self.ex.queries += 2
            self.solver.push()
            self.solver.add(cond)
            rt = self.solver.check()
            self.solver.pop()
            self.solver.push()
            self.solver.add(z3.Not(cond))
            rf = self.solver.check()
            self.solver.pop()
            ft, ff = rt != z3.unsat, rf != z3.unsat
            if rt == z3.unknown or rf == z3.unknown:
                self.ex.unknowns += 1
            if ft and ff:
                d = True
                self.ex.work.append(self.taken + [False])
            elif ft:
                d = True
            elif ff:
                d = False
            else:
                raise OutOfBound("path condition became infeasible")    # cannot happen: pc was feasible
        self.taken.append(d)
        self.decided[cid] = d
        c = cond if d else z3.Not(cond)
        self.pc.append(c)
        self.solver.add(c)
        return d

    def emit(self, v):
        self.out.append(freeze(v))

    def tick(self):
        self.steps += 1
        if self.steps > self.ex.max_steps:
            raise OutOfBound("step bound")
        if self.ex.deadline and (self.steps & 63) == 0 and time.time() > self.ex.deadline:
            raise Deadline()


class Explorer:
    def __init__(self, assumptions=(), timeout_ms=5000, max_steps=20000, max_paths=400):
        self.assumptions = list(assumptions)
        self.timeout_ms = timeout_ms
        self.max_steps = max_steps
        self.max_paths = max_paths
        self.queries = 0
        self.unknowns = 0
        self.work = []
        self.deadline = None

    def explore(self, run):
        """run(oracle) -> return value; -> list of dict(pc, status, out, ret, detail)"""
        self.work = [[]]
        paths = []
        while self.work:
            if len(paths) >= self.max_paths:
                raise TooManyPaths("more than %d paths" % self.max_paths)
            prefix = self.work.pop()
            o = Oracle(self, prefix)
            try:
                r = run(o)
                paths.append({"pc": o.pc, "status": "ok", "out": o.out, "ret": r, "detail": ""})
            except Fail as f:
                paths.append({"pc": o.pc, "status": "fail", "out": o.out, "ret": None, "detail": "%s %s" % (f.kind, f.detail)})
            except OutOfBound as b:
                paths.append({"pc": o.pc, "status": "bound", "out": o.out, "ret": None, "detail": str(b)})
        return paths


# ------------------------------------------------------------------------------------------------ arithmetic (both executors)

def _big(e, limit=4):
    """more than `limit` AST nodes?"""
    n = 0
    todo = [e]
    while todo:
        t = todo.pop()
        n += 1
        if n > limit:
            return True
        todo.extend(t.children())
    return False


def _ovf_guard(o, ok, what):
    if not o.branch(ok):
        raise Fail("arith", what)


def arith(o, op, a, b):
    """i32 `a op b` with the interpreter's failure conditions; o = Oracle"""
    if op == "+" and isinstance(a, tuple) and isinstance(b, tuple) and a[0] == "str" and b[0] in ("str", "big"):
        return ("str", a[1] + str(b[1]))     # concatenation of concrete strings (a number is appended as it prints)
    if op == "+" and isinstance(a, tuple) and a[0] == "str" and isinstance(b, int) and not isinstance(b, bool):
        return ("str", a[1] + str(b))
    if op == "+" and isinstance(b, tuple) and b[0] == "str" and isinstance(a, int) and not isinstance(a, bool):
        return ("str", str(a) + b[1])
    if op == "*" and isinstance(a, tuple) and a[0] == "str" and isinstance(b, int) and not isinstance(b, bool) and 0 <= b <= 8:
        return ("str", a[1] * b)
    if any(isinstance(x, tuple) and x[0] == "big" for x in (a, b)):
        # concrete bigint arithmetic (int yields to bigint); anything symbolic is outside
        va, vb = (x[1] if isinstance(x, tuple) else x for x in (a, b))
        if all(isinstance(v, int) and not isinstance(v, bool) for v in (va, vb)) and op in "+-*":
            return ("big", {"+": va + vb, "-": va - vb, "*": va * vb}[op])
        raise Unsupported("bigint arithmetic on %r %s %r" % (a, op, b))
    if not (is_int(a) and is_int(b)):
        if any(is_bool(x) or isinstance(x, (Fn, Obj)) for x in (a, b)) or (op in "-/%" and any(isinstance(x, tuple) and x[0] == "str" for x in (a, b))):
            raise Fail("type", "`%s` is not defined on these operand kinds" % op)       # no operator impl accepts them (C02's program family)
        raise Unsupported("arithmetic on non-int operands: %r %s %r" % (a, op, b))
    if not is_sym(a) and not is_sym(b):
        if op == "+":
            r = a + b
        elif op == "-":
            r = a - b
        elif op == "*":
            r = a * b
        elif op in ("/", "%"):
            if b == 0:
                raise Fail("arith", "zero divisor")
            if a == I32_MIN and b == -1:
                raise Fail("arith", "overflow")
            q = abs(a) // abs(b)
            if (a < 0) != (b < 0):
                q = -q
            r = q if op == "/" else a - q * b
        else:
            raise Unsupported("operator " + op)
        if r < I32_MIN or r > I32_MAX:
            raise Fail("arith", "overflow")
        return r
    x, y = bv(a), bv(b)
    # exact overflow guards only for small terms (a counter plus a constant); for symbolic + symbolic and for long sums the
    # overflow condition is an uninterpreted predicate of the operands
    both = (is_sym(a) and is_sym(b)) or _big(x) or _big(y)
    if op == "+":
        # symbolic + symbolic: the sum is exact, the overflow condition is an uninterpreted predicate of the operands (chains of
        # exact overflow guards over several inputs cost seconds per query; both executors share the abstraction)
        _ovf_guard(o, z3.Not(U_ADD_OVF(x, y)) if both else z3.And(z3.BVAddNoOverflow(x, y, True), z3.BVAddNoUnderflow(x, y)), "overflow")
        return z3.simplify(x + y)
    if op == "-":
        _ovf_guard(o, z3.Not(U_SUB_OVF(x, y)) if both else z3.And(z3.BVSubNoOverflow(x, y), z3.BVSubNoUnderflow(x, y, True)), "overflow")
        return z3.simplify(x - y)
    if op == "*":
        if is_sym(a) and is_sym(b):
            # symbolic x symbolic multiplication stalls a bit-blasting solver: both executors share this abstraction
            # (uninterpreted product and overflow predicate), which is sound for deciding that they behave alike
            _ovf_guard(o, z3.Not(U_MUL_OVF(x, y)), "overflow")
            return U_MUL(x, y)
        _ovf_guard(o, z3.And(z3.BVMulNoOverflow(x, y, True), z3.BVMulNoUnderflow(x, y)), "overflow")
        return z3.simplify(x * y)
    if op in ("/", "%"):
        _ovf_guard(o, y != 0, "zero divisor")
        _ovf_guard(o, z3.Not(z3.And(x == z3.BitVecVal(I32_MIN, 32), y == z3.BitVecVal(-1, 32))), "overflow")
        if is_sym(b):
            return (U_DIV if op == "/" else U_REM)(x, y)      # symbolic divisor: uninterpreted quotient / remainder
        return z3.simplify(x / y if op == "/" else z3.SRem(x, y))
    raise Unsupported("operator " + op)


def shift(o, op, a, b):
    """i32 `a << b` / `a >> b` (arithmetic): fails iff the amount is negative or >= 32; bits shifted out are lost"""
    if not (is_int(a) and is_int(b)):
        raise Unsupported("shift of non-int operands")
    x, y = bv(a), bv(b)
    _ovf_guard(o, z3.And(y >= 0, y < 32), "shift amount out of range")
    r = z3.simplify(x << y if op == "<<" else x >> y)
    return r.as_signed_long() if z3.is_bv_value(r) else r


def compare(op, a, b):
    if not (is_int(a) and is_int(b)):
        if any(is_bool(x) or isinstance(x, (Fn, Obj)) for x in (a, b)):
            raise Fail("type", "ordering is not defined on these operand kinds")
        raise Unsupported("comparison of non-int operands")
    if not is_sym(a) and not is_sym(b):
        return {"<": a < b, "<=": a <= b, ">": a > b, ">=": a >= b}[op]
    x, y = bv(a), bv(b)
    return z3.simplify({"<": x < y, "<=": x <= y, ">": x > y, ">=": x >= y}[op])


def negate(o, a):
    if not is_int(a):
        if is_bool(a) or isinstance(a, (Fn, Obj)) or (isinstance(a, tuple) and a[0] == "str"):
            raise Fail("type", "cannot negate this kind")
        raise Unsupported("negation of a non-int")
    if not is_sym(a):
        if a == I32_MIN:
            raise Fail("arith", "overflow")
        return -a
    _ovf_guard(o, z3.Not(U_NEG_OVF(a)), "overflow")
    return z3.simplify(-a)


def logic_not(a):
    if not is_bool(a):
        raise Unsupported("`!` on a non-bool")
    return (not a) if isinstance(a, bool) else z3.simplify(z3.Not(a))


def logic(op, a, b):
    if not (is_bool(a) and is_bool(b)):
        if any(is_int(x) or isinstance(x, (Fn, Obj)) or (isinstance(x, tuple) and x[0] == "str") for x in (a, b)):
            raise Fail("type", "logic on non-bool operands")
        raise Unsupported("logic on non-bool operands")
    if isinstance(a, bool) and isinstance(b, bool):
        return {"&&": a and b, "||": a or b, "^": a != b}[op]
    # one concrete operand: return the other one untouched (no rewriting - the reference hands the same term on)
    for c, other in ((a, b), (b, a)):
        if isinstance(c, bool):
            if op == "&&":
                return other if c else False
            if op == "||":
                return True if c else other
            if op == "^":
                return logic_not(other) if c else other
    x, y = bl(a), bl(b)
    return z3.simplify({"&&": z3.And(x, y), "||": z3.Or(x, y), "^": z3.Xor(x, y)}[op])


def equals(a, b):
    """Primitive::equals on the value kinds of the generated programs"""
    if a is NIL or b is NIL:
        return a is NIL and b is NIL
    if isinstance(a, Obj) and isinstance(b, Obj):
        return a is b
    if isinstance(a, ListRef) and isinstance(b, ListRef):
        if len(a.items) != len(b.items):
            return False
        acc = True
        for x, y in zip(a.items, b.items):
            e = equals(x, y)
            if e is False:
                return False
            if e is not True:
                acc = e if acc is True else z3.And(acc, e)
        return acc
    if is_int(a) and is_int(b):
        if not is_sym(a) and not is_sym(b):
            return a == b
        x, y = bv(a), bv(b)
        if x.get_id() > y.get_id():     # `l == r` and `r == l` must become the same term (the VM pops the right operand first)
            x, y = y, x
        return x == y
    if is_bool(a) and is_bool(b):
        if isinstance(a, bool) and isinstance(b, bool):
            return a == b
        x, y = bl(a), bl(b)
        if x.get_id() > y.get_id():
            x, y = y, x
        return x == y
    if isinstance(a, tuple) and isinstance(b, tuple) and a[0] == "str" and b[0] == "str":
        return a[1] == b[1]
    raise Unsupported("equality of %r and %r" % (a, b))


# ------------------------------------------------------------------------------------------------ observable behaviour

def freeze(v):
    """value -> comparable snapshot (lists by content at the time of printing)"""
    if isinstance(v, Ptr):
        return freeze(v.lst.items[v.idx])
    if isinstance(v, CellPtr):
        return freeze(v.cell.v)
    if isinstance(v, MapPtr):
        return freeze(v.map.items.get(v.key, NIL))
    if isinstance(v, Some):
        return freeze(v.v)
    if isinstance(v, MapRef):
        raise Unsupported("printing a whole map (iteration order is unspecified)")
    if isinstance(v, Obj):
        return ("fn", "<object %s>" % v.cls)
    if isinstance(v, ListRef):
        return ("list", tuple(freeze(x) for x in v.items))
    if isinstance(v, Fn):
        return ("fn", v.name)
    return v


def same_shape(a, b):
    """None if a and b can never be equal (different kinds/lengths), else list of (x, y) scalar pairs to equate"""
    if a is NIL or b is NIL:
        return [] if (a is NIL and b is NIL) else None
    if isinstance(a, tuple) and isinstance(b, tuple):
        if a[0] != b[0]:
            return None
        if a[0] in ("str", "fn"):
            return [] if a[1] == b[1] else None
        if a[0] == "list":
            if len(a[1]) != len(b[1]):
                return None
            out = []
            for x, y in zip(a[1], b[1]):
                s = same_shape(x, y)
                if s is None:
                    return None
                out += s
            return out
        return None
    if isinstance(a, tuple) or isinstance(b, tuple):
        return None
    if is_int(a) and is_int(b):
        return [(bv(a), bv(b))]
    if is_bool(a) and is_bool(b):
        return [(bl(a), bl(b))]
    return None


def behaviour(path):
    """observable behaviour of a finished path: (status, printed values..., return value)"""
    items = [freeze(x) for x in path["out"]]
    return path["status"], items, (freeze(path["ret"]) if path["status"] == "ok" and path["ret"] is not None else None)


def compare_paths(pa, pb, assumptions, timeout_ms, stats):
    """can path pa (implementation) and pb (reference) be taken by the same input and behave differently?
    -> None (no) | dict(model, why) | "unknown" """
    s = z3.Solver()
    s.set("timeout", timeout_ms)
    for c in assumptions:
        s.add(c)
    for c in pa["pc"]:
        s.add(c)
    for c in pb["pc"]:
        s.add(c)
    stats["queries"] += 1
    r = s.check()
    if r == z3.unsat:
        return None
    if r == z3.unknown:
        return "unknown"
    sa, oa, ra = behaviour(pa)
    sb, ob, rb = behaviour(pb)
    why = None
    pairs = []
    if sa != sb:
        why = "status %s vs %s (%s | %s)" % (sa, sb, pa["detail"], pb["detail"])
    elif len(oa) != len(ob):
        why = "%d lines printed vs %d" % (len(oa), len(ob))
    else:
        for i, (x, y) in enumerate(zip(oa, ob)):
            sh = same_shape(x, y)
            if sh is None:
                why = "printed line %d: %r vs %r" % (i + 1, x, y)
                break
            pairs += sh
        if why is None and sa == "ok":
            if (ra is None) != (rb is None):
                why = "return value %r vs %r" % (ra, rb)
            elif ra is not None:
                sh = same_shape(ra, rb)
                if sh is None:
                    why = "return value %r vs %r" % (ra, rb)
                else:
                    pairs += sh
    if why is not None:
        return {"model": s.model(), "why": why}
    if not pairs:
        return None
    diff = z3.Or([x != y for x, y in pairs])
    if z3.is_false(z3.simplify(diff)):
        return None
    stats["queries"] += 1
    s.add(diff)
    r = s.check()
    if r == z3.unsat:
        return None
    if r == z3.unknown:
        return "unknown"
    return {"model": s.model(), "why": "a printed / returned value differs"}


def syntactically_disjoint(pa, pb):
    """cheap filter: the two paths decided the same atom differently"""
    da = {}
    for c in pa["pc"]:
        if z3.is_not(c):
            da[c.arg(0).get_id()] = False
        else:
            da[c.get_id()] = True
    for c in pb["pc"]:
        if z3.is_not(c):
            k, v = c.arg(0).get_id(), False
        else:
            k, v = c.get_id(), True
        if k in da and da[k] != v:
            return True
    return False
