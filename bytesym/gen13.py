"""List histories for C13 (engine D): lists are shared by reference at the level of programs - aliases made by assignment, by
passing a list to a function, by storing it in another list; element assignment, compound element assignment and the mutating
built-ins through any alias are visible through all, `clone` yields an independent list, `join` extends and returns the receiver itself, `is` tells aliases from equal lists.
Element values, arguments and (some) indices are the symbolic inputs.  What each built-in does to a list is C13's engine-B kernel;
here the solver decides that the emitted code applies them to the right list, element and operand order."""
import random

I = lambda n: ("int", n)
V = lambda x: ("var", x)
B = lambda op, l, r: ("bin", op, l, r)
NIN = 3

HELPERS = [
    ("def", "bump", [("p", "[int...]"), ("by", "int")], "int", [("setindex", V("p"), 0, B("+", ("index", V("p"), 0), V("by"))), ("expr", ("mcall", V("p"), "push", [V("by")])), ("return", ("mcall", V("p"), "len", []))]),
    ("def", "fresh", [("p", "[int...]")], "[int...]", [("assign", "q", ("mcall", V("p"), "clone", [])), ("setindex", V("q"), 0, I(99)), ("return", V("q"))]),
    ("def", "same", [("p", "[int...]")], "[int...]", [("return", V("p"))]),
]
# callbacks for map / filter: `pick` returns an ELEMENT of another list (the result must hold its value, not a view)
HELPERS.append(("def", "twice", [("v", "int")], "int", [("return", B("+", V("v"), V("v")))]))
HELPERS.append(("def", "small", [("v", "int")], "bool", [("return", B("<", V("v"), I(4)))]))
HELPERS.append(("def", "setk", [("m", "map[str, int]"), ("v", "int")], "int", [("msetindex", V("m"), ("str", "k"), V("v")), ("return", ("mcall", V("m"), "len", []))]))
NAMES = ["a", "b", "c", "d"]
S = lambda x: ("str", x)
KEYS = ["a", "b", "k", "z"]


def arg(rnd):
    return rnd.choice([V("in0"), V("in1"), V("in2"), I(1), I(5)])


def history(rnd, length):
    live = ["a", "b"]
    out = [("assign", "a", ("list", [V("in0"), V("in1"), I(3)]), "[int...]"), ("assign", "b", V("a")), ("assign", "i1", I(1)),
           ("assign", "nest", ("list", [V("a"), ("list", [I(7), V("in2")])]), "[[int...]...]"),
           ("assign", "ma", ("map", "str", "int", [(S("a"), V("in0")), (S("b"), V("in1"))])), ("assign", "mb", V("ma")),
           ("assign", "mc", ("mcall", V("ma"), "clone", []))]
    # functions that CAPTURE a map / a list and index it (the compiler chooses map_op / vec_op from the captured variable's type)
    out += [("def", "mget", [], "int?", [("return", ("mindex", V("ma"), S("a")))]),
            ("def", "mput", [("v", "int")], "int", [("msetindex", V("ma"), S("k"), V("v")), ("mopindex", V("ma"), S("k"), "+", I(1)), ("return", ("mcall", V("ma"), "len", []))]),
            ("def", "lget", [("i", "int")], "int", [("return", ("index", V("a"), "i"))])]
    maps = ["ma", "mb", "mc"]
    for _ in range(length):
        k = rnd.choice(["set", "set", "setvar", "op", "push", "len", "print", "printel", "alias", "clone", "join", "bump", "fresh", "same",
                        "is", "eq", "nest_set", "nest_read", "remove", "reverse", "symidx", "clone_push_eq", "lit_from_elems", "nest_chain",
                        "map_pick", "map_twice", "filter_small", "cap_mget", "cap_mput", "cap_lget",
                        "mset", "mset", "mop", "mread", "mread", "mlen", "mcontains", "mremove", "mreplace", "mclear", "msetk", "mlit_from_elems", "mremove_or", "mreplace_get"])
        mx = V(rnd.choice(maps))
        key = S(rnd.choice(KEYS))
        x = V(rnd.choice(live))
        y = V(rnd.choice(live))
        if k == "set":
            out.append(("setindex", x, rnd.randint(0, 1), arg(rnd)))
        elif k == "setvar":
            out.append(("setindex", x, "i1", arg(rnd)))
        elif k == "op":
            out.append(("opindex", x, rnd.randint(0, 1), rnd.choice("+-"), arg(rnd)))
        elif k == "push":
            out.append(("expr", ("mcall", x, "push", [arg(rnd)])))
        elif k == "len":
            out.append(("print", ("mcall", x, "len", [])))
        elif k == "print":
            out.append(("print", x))
        elif k == "printel":
            out.append(("print", B("+", ("index", x, 0), ("index", y, 1))))
        elif k in ("alias", "clone", "join", "fresh", "same"):
            freshn = [n for n in NAMES if n not in live]
            if not freshn:
                out.append(("print", y))
                continue
            t = freshn[0]
            e = {"alias": x, "clone": ("mcall", x, "clone", []), "join": ("mcall", x, "join", [y]), "fresh": ("call", "fresh", [x]), "same": ("call", "same", [x])}[k]
            out.append(("assign", t, e, "[int...]" if k in ("clone",) else None))
            live.append(t)
        elif k == "bump":
            out.append(("print", ("call", "bump", [x, arg(rnd)])))
        elif k == "is":
            out.append(("print", ("is", x, y)))
        elif k == "eq":
            out.append(("print", B("==", x, y)))
        elif k == "mset":
            out.append(("msetindex", mx, key, arg(rnd)))
        elif k == "mop":
            out += [("msetindex", mx, key, arg(rnd)), ("mopindex", mx, key, rnd.choice("+-"), arg(rnd))]
        elif k == "mread":
            out.append(("print", ("mindex", mx, key)))
        elif k == "mlen":
            out.append(("print", ("mcall", mx, "len", [])))
        elif k == "mcontains":
            out.append(("print", ("mcall", mx, "contains_key", [key])))
        elif k == "mremove":
            out.append(("print", ("mcall", mx, "remove", [key])))
        elif k == "mreplace":
            out.append(("print", ("mcall", mx, "replace", [key, arg(rnd)])))
        elif k == "mremove_or":
            # the present result of a built-in, taken through `or`, is a plain value afterwards
            out += [("assign", "tr", ("or", ("mcall", mx, "remove", [key]), I(0))), ("print", B("+", V("tr"), I(1)))]
        elif k == "mreplace_get":
            out += [("expr", ("mcall", mx, "replace", [key, I(4)])), ("assign", "tg", ("get", ("mcall", mx, "replace", [key, arg(rnd)]))), ("print", B("-", V("tg"), I(1)))]
        elif k == "mclear":
            out.append(("expr", ("mcall", mx, "clear", [])))
        elif k == "msetk":
            out.append(("print", ("call", "setk", [mx, arg(rnd)])))
        elif k == "mlit_from_elems":
            # a map literal built from list elements holds VALUES
            out += [("assign", "mq", ("map", "str", "int", [(S("x"), ("index", x, 0)), (S("y"), arg(rnd))])), ("setindex", x, 0, arg(rnd)),
                    ("print", ("mindex", V("mq"), S("x"))), ("msetindex", V("mq"), S("x"), I(55)), ("print", ("index", x, 0))]
        elif k == "clone_push_eq":
            # two lists that agree on the common prefix but differ in length
            out += [("assign", "tq", ("mcall", x, "clone", []), "[int...]"), ("expr", ("mcall", V("tq"), "push", [arg(rnd)])),
                    ("print", B("==", V("tq"), x)), ("print", B("==", x, V("tq"))), ("print", B("!=", V("tq"), x))]
        elif k == "lit_from_elems":
            # a list literal built from elements of other lists holds VALUES: later updates of the sources do not reach it
            out += [("assign", "lq", ("list", [("index", x, 0), ("index", y, 1)]), "[int...]"), ("setindex", x, 0, arg(rnd)), ("setindex", y, 1, arg(rnd)),
                    ("print", V("lq")), ("setindex", V("lq"), 0, I(77)), ("print", x)]
        elif k == "cap_mget":
            out.append(("print", ("call", "mget", [])))
        elif k == "cap_mput":
            out.append(("print", ("call", "mput", [arg(rnd)])))
        elif k == "cap_lget":
            out.append(("print", ("call", "lget", [I(rnd.randint(0, 1))])))
        elif k == "map_pick":
            # the callback returns an element of ANOTHER list: the mapped list holds values - later updates of the source do not reach it
            out += [("assign", "src", ("list", [arg(rnd), arg(rnd), I(6)]), "[int...]"), ("assign", "ix", ("list", [I(2), I(0), I(1)]), "[int...]"),
                    ("def", "pick", [("i", "int")], "int", [("return", ("index", V("src"), "i"))]),
                    ("assign", "mp", ("mcall", V("ix"), "map", [V("pick")])), ("print", V("mp")), ("setindex", V("src"), 0, arg(rnd)), ("expr", ("mcall", V("src"), "reverse", [])),
                    ("print", V("mp")), ("setindex", V("mp"), 1, I(31)), ("print", V("src")), ("print", V("ix"))]
        elif k == "map_twice":
            out += [("assign", "mt", ("mcall", x, "map", [V("twice")])), ("print", V("mt")), ("print", x), ("print", ("is", V("mt"), x))]
        elif k == "filter_small":
            out += [("assign", "fl", ("mcall", x, "filter", [V("small")])), ("print", V("fl")), ("expr", ("mcall", V("fl"), "push", [I(2)])), ("print", x)]
        elif k == "nest_chain":
            out += [("assign", "j0", I(rnd.randint(0, 1))), ("setindex", ("index", V("nest"), "j0"), 0, arg(rnd)), ("print", ("index", ("index", V("nest"), 1), 0)),
                    ("opindex", ("index", V("nest"), 1), 0, "+", arg(rnd))]
        elif k == "nest_set":
            out.append(("setindex", ("index", V("nest"), rnd.randint(0, 1)), 1, arg(rnd)))
        elif k == "nest_read":
            out.append(("print", ("index", ("index", V("nest"), 0), 0)))
        elif k == "remove":
            out.append(("print", ("mcall", x, "remove", [I(0)])))
            out.append(("expr", ("mcall", x, "push", [I(8)])))
            out.append(("expr", ("mcall", x, "push", [I(9)])))
        elif k == "reverse":
            out.append(("expr", ("mcall", x, "reverse", [])))
        elif k == "symidx":
            out += [("assign", "si", B("%", V("in2"), I(2))), ("if", [(B("<", V("si"), I(0)), [("assign", "si", I(0))])], None), ("setindex", x, "si", I(42))]
    for n in live:
        out.append(("print", V(n)))
    out.append(("print", V("nest")))
    for m in maps:
        out.append(("print", ("mcall", V(m), "len", [])))
        for kk in KEYS:
            out.append(("print", ("mindex", V(m), S(kk))))
    out.append(("print", ("str", "end")))
    return out


def program(seed, length, _unused=None):
    rnd = random.Random(seed)
    return [("assign", "in0", ("in", 0)), ("assign", "in1", ("in", 1)), ("assign", "in2", ("in", 2))] + HELPERS + history(rnd, length)


def select(tier, seed):
    n = 150 if tier == "quick" else 1500
    rnd = random.Random(seed + 13)
    return [(rnd.randrange(1 << 30), rnd.randint(4, 14), None) for _ in range(n)], None, 0


def describe(item):
    return "list history seed=%d length=%d" % (item[0], item[1])
