"""Engine D - symbolic executor for the bytecode the REAL compiler emitted (`compile --output-format raw-text`).

The instruction semantics below is a summary of bytecode/src/instruction.rs + Function::run + stack.rs, limited to the opcodes the
generated program families use; any other opcode (or operand kind) raises Unsupported -> the check is inconclusive.  The summary is
validated on every check run: the same executor, run on concrete inputs, must predict the stdout and exit status of the real
`mscript run` of the same program (checks/c01_main.py, validation step).

Faithful on purpose (these are what the emitted code relies on):
  * the call stack is ONE list of frames shared by all activations; `store` searches block frames down to the function frame,
    `load` searches the running function, then the captured variables, then ALL frames, `store_fast`/`load_fast` are frame-local / function-local;
  * special_scopes is a counter per activation that jmp_pop does not decrement (as in Function::run);
  * the operand stack survives jumps; bin_op / if_stmt / while_loop / call clear it; fast_rev2 / store / equ demand exact sizes;
  * array views (`xs[i]`) are pointers until an instruction dereferences them."""
import z3
from core import (str_builtin, STR_BUILTINS, concretize, Module, Fail, Unsupported, OutOfBound, NIL, ListRef, Cell, Fn, Ptr, CellPtr, Obj, BuiltIn, list_builtin, LIST_BUILTINS, MapRef, MapPtr, Some, map_key, map_builtin, MAP_BUILTINS, is_sym, is_int, is_bool, arith, shift, compare, negate,
                  logic_not, logic, equals)

SPECIAL = ("<if>", "<else>", "<while>")
NATIVE_NAMES = {"len": "VecLen", "push": "VecPush", "remove": "VecRemove", "clear": "VecClear", "reverse": "VecReverse", "clone": "VecClone", "join": "VecJoin"}


class Frame:
    __slots__ = ("label", "vars")

    def __init__(self, label):
        self.label, self.vars = label, {}


class Machine:
    def __init__(self, funcs, module_path, oracle, inputs, max_depth=12, max_loop=None):
        """funcs: {name: [Instr]}; inputs: {literal text -> value} (designated input literals)"""
        # funcs: {function: code} of the entry module, or {module path: {function: code}} for a multi-module program
        self.mods = funcs if funcs and all(isinstance(v, dict) for v in funcs.values()) else {module_path: funcs}
        self.funcs = self.mods[module_path]
        self.path = module_path
        self.modules = {}          # module cache: path -> Module (created when its top-level code starts, as add_file does)
        self.o = oracle
        self.inputs = inputs
        self.stack = []
        self.depth = 0
        self.max_depth = max_depth
        self.trace = None          # list -> one record (function, ip, frames, open scope markers, operand-stack size) per instruction

    # ---------------------------------------------------------------- call stack (stack.rs)
    def find_name(self, name):
        for fr in reversed(self.stack):
            c = fr.vars.get(name)
            if c is not None:
                return c
        return None

    def find_name_in_function(self, name):
        for fr in reversed(self.stack):
            c = fr.vars.get(name)
            if c is not None:
                return c
            if fr.label not in SPECIAL:
                break
        return None

    def register_variable(self, name, v):
        for fr in reversed(self.stack):
            c = fr.vars.get(name)
            if c is not None:
                if c.ro:
                    raise Fail("store", "read-only " + name)
                c.v = v
                return
            if fr.label not in SPECIAL:
                break
        self.stack[-1].vars[name] = Cell(v)

    def pop_frame(self):
        if not self.stack:
            raise Fail("panic", "pop without stack frame")
        self.stack.pop()

    # ---------------------------------------------------------------- values
    @staticmethod
    def unsome(v):
        return v.v if isinstance(v, Some) else v

    @staticmethod
    def deref(v):
        while True:
            if isinstance(v, Ptr):
                v = v.lst.items[v.idx]
            elif isinstance(v, CellPtr):
                v = v.cell.v
            elif isinstance(v, MapPtr):
                v = v.map.items.get(v.key, NIL)
            else:
                return v

    # ---------------------------------------------------------------- one activation (Function::run)
    def module(self, path):
        m = self.modules.get(path)
        if m is None:
            m = self.modules[path] = Module(path)
        return m

    def split_loc(self, name):
        """function value name -> (module path, function): short names belong to the entry module"""
        if "#" in name:
            p, f = name.split("#", 1)
            return p, f
        return self.path, name

    def run_function(self, name, args, callback):
        path, fname = self.split_loc(name)
        code = self.mods.get(path, {}).get(fname)
        if code is None:
            raise Fail("panic", "function not found: " + name)
        self.depth += 1
        if self.depth > self.max_depth:
            raise OutOfBound("call depth")
        try:
            return self._run(fname, code, args, callback, path)
        finally:
            self.depth -= 1

    def _run(self, name, code, args, callback, path=None):
        o = self.o
        path = path or self.path
        self.stack.append(Frame("%s#%s" % (path, name)))
        ops = []
        ip = 0
        scopes = 0
        n = len(code)

        def goto(off):
            t = ip + off
            if t < 0 or t >= n:
                raise Fail("goto", "position %d outside 0..%d" % (t, n))
            return t

        def load_var(nm):
            # Ctx::load_variable (lexical since fix de6b620): the running function, then the captured variables, then the callers
            c = self.find_name_in_function(nm)
            if c is None and callback is not None:
                c = callback.get(nm)
            if c is None:
                c = self.find_name(nm)
            return c

        while ip < n:
            o.tick()
            if self.trace is not None:
                self.trace.append((name, ip, len(self.stack), scopes, len(ops)))
            ins = code[ip]
            op, a = ins.op, ins.args
            nxt = ip + 1
            if op == "arg":
                k = int(a[0])
                if k >= len(args):
                    raise Fail("arg", "argument %d does not exist" % k)
                ops.append(args[k])
            elif op == "store":
                if len(ops) != 1:
                    raise Fail("store", "needs exactly one value")
                self.register_variable(a[0], self.deref(ops.pop()))
            elif op == "store_fast":
                if len(ops) != 1:
                    raise Fail("store_fast", "needs exactly one value")
                self.stack[-1].vars[a[0]] = Cell(self.deref(ops.pop()))
            elif op == "store_object":
                if len(ops) != 1:
                    raise Fail("store_object", "needs exactly one value")
                v = self.deref(ops.pop())
                if callback is None or a[0] not in callback:
                    raise Fail("store_object", "not a captured variable: " + a[0])
                if callback[a[0]].ro:
                    raise Fail("store_object", "read-only")
                callback[a[0]].v = v
            elif op == "load":
                c = load_var(a[0])
                if c is None:
                    raise Fail("load", "`%s` not in scope" % a[0])
                ops.append(c.v)
            elif op == "load_fast":
                c = self.find_name_in_function(a[0])
                if c is None:
                    raise Fail("load_fast", "`%s` not in this stack frame" % a[0])
                ops.append(c.v)
            elif op == "load_callback":
                if callback is None or a[0] not in callback:
                    raise Fail("load_callback", "no captured `%s`" % a[0])
                ops.append(callback[a[0]].v)
            elif op == "make_int":
                if a[0] in self.inputs:
                    ops.append(self.inputs[a[0]])
                else:
                    v = int(a[0])
                    if not (-(1 << 31) <= v < (1 << 31)):
                        raise Fail("make_int", "literal out of range")
                    ops.append(v)
            elif op == "make_bigint":
                ops.append(("big", int(a[0].lstrip("B"))))        # concrete bigint literals only (C02's catalogue)
            elif op == "make_bool":
                ops.append(a[0] == "true")
            elif op == "make_str":
                ops.append(("str", a[0] if a else ""))
            elif op == "reserve_primitive":
                ops.append(NIL)
            elif op == "make_function":
                caps = None
                if len(a) > 1:
                    caps = {}
                    for nm in a[1:]:
                        c = load_var(nm)
                        if c is None:
                            raise Fail("make_function", nm + " is not in scope")
                        caps[nm] = c
                loc = a[0]
                # functions of the entry module keep their short name; others carry `path#name`
                ops.append(Fn(loc[len(self.path) + 1:] if loc.startswith(self.path + "#") else loc, caps))
            elif op == "make_vector":
                if a:
                    ops.append(ListRef([]))
                else:
                    v = ListRef(list(ops))
                    ops.clear()
                    ops.append(v)
            elif op == "vec_op":
                arg = a[0]
                if arg.startswith("+"):
                    if len(ops) != 1:
                        raise Fail("vec_op", "push needs exactly one value")
                    v = self.deref(ops.pop())          # an element is a value, not a view (fix in vec_op "+")
                    c = self.find_name_in_function(arg[1:])
                    if c is None or not isinstance(c.v, ListRef):
                        raise Fail("vec_op", "vector not found for pushing")
                    c.v.items.append(v)
                elif arg.startswith("[") and arg.endswith("]"):
                    if not ops:
                        raise Fail("vec_op", "the stack is empty")
                    lst = self.deref(ops.pop())
                    inner = arg[1:-1]
                    if inner.isdigit():
                        idx = int(inner)
                    else:
                        c = self.find_name_in_function(inner)
                        if c is None:
                            raise Fail("vec_op", "index variable not mapped")
                        idx = c.v
                    if isinstance(lst, tuple) and lst[0] == "str":
                        # string indexing by CHARACTER: the k-th character as a one-character string, out of range fails
                        k = concretize(o, idx, 0, len(lst[1]) - 1)
                        if k is None:
                            raise Fail("vec_op", "index out of bounds")
                        ops.append(("str", lst[1][k]))
                        ip = nxt
                        continue
                    if isinstance(lst, (MapRef, Obj, Fn, bool, int)) or lst is NIL:
                        raise Fail("vec_op", "cannot perform a vector operation on a non-vector")
                    if not isinstance(lst, ListRef):
                        raise Unsupported("index into a non-list")
                    ln = len(lst.items)
                    if is_sym(idx):
                        # fork over the concrete positions; anything else is out of range
                        chosen = None
                        for k in range(ln):
                            if o.branch(idx == z3.BitVecVal(k, 32)):
                                chosen = k
                                break
                        if chosen is None:
                            raise Fail("vec_op", "index out of bounds")
                        idx = chosen
                    if not isinstance(idx, int) or isinstance(idx, bool):
                        raise Unsupported("index kind")
                    if idx < 0 or idx >= ln:
                        raise Fail("vec_op", "index out of bounds")
                    ops.append(Ptr(lst, idx))
                else:
                    raise Unsupported("vec_op " + arg)
            elif op == "make_map":
                ops.append(MapRef({}))
            elif op == "fast_map_insert":
                mc = self.find_name_in_function(a[0])
                kc = self.find_name_in_function(a[1])
                if mc is None or kc is None:
                    raise Fail("fast_map_insert", "register not mapped")
                if not isinstance(mc.v, MapRef):
                    raise Fail("fast_map_insert", "inserting on a non-map")
                if not ops:
                    raise Fail("panic", "no value in the op stack")
                mc.v.items[map_key(kc.v)] = self.deref(ops.pop())          # GcMap::insert stores the value behind a view
            elif op == "map_op":
                if not ops:
                    raise Fail("map_op", "no index in the stack")
                key = ops.pop()
                mc = self.find_name_in_function(a[0])
                if mc is None:
                    raise Fail("map_op", "no map at register")
                if not isinstance(mc.v, MapRef):
                    raise Fail("map_op", "not a map")
                ops.append(MapPtr(mc.v, map_key(self.deref(key))))
            elif op == "module_entry":
                # Module arm of process_jump_request: a cached module is handed out, otherwise its top-level code runs now, to the end
                mpath = a[0].split("#", 1)[0]
                ops.clear()
                if mpath in self.modules:
                    ops.append(self.modules[mpath])
                else:
                    if mpath not in self.mods:
                        raise Fail("module_entry", "no such file: " + mpath)
                    self.module(mpath)
                    rv = self.run_function(a[0], [], None)
                    ops.append(rv)
            elif op == "export_name":
                c = self.find_name_in_function(a[0])
                if c is None:
                    raise Fail("export_name", "`%s` is not in scope and cannot be exported" % a[0])
                ex = self.module(path).exports
                if a[0] in ex:
                    raise Fail("export_name", "double export")
                ex[a[0]] = c                     # the variable's OWN cell: importers see the live variable
            elif op == "split_lookup_store":
                if not ops or not isinstance(ops[-1], Module):
                    raise Fail("split_lookup_store", "expected a module at the top of the operating stack")
                for nm in a:
                    c = ops[-1].exports.get(nm)
                    if c is None:
                        raise Fail("split_lookup_store", nm + " does not exist on the module")
                    self.stack[-1].vars[nm] = Cell(c.v)      # register_variable_local with a clone of the value
            elif op == "make_object":
                # the object's variables are the cells of the constructor function's top frame (shared, not copied)
                ops.append(Obj(name, dict(self.stack[-1].vars)))
            elif op == "export_special":
                if len(ops) != 1:
                    raise Fail("export_special", "needs exactly one value")
                self.stack[-1].vars[a[0]] = Cell(self.deref(ops.pop()), ro=True)
                self.module(path).exports[a[-1]] = self.stack[-1].vars[a[0]]        # add_export: the file's export table (what `load_self_export` reads)
            elif op == "load_self_export":
                c = self.module(path).exports.get(a[0])
                if c is None:
                    raise Fail("load_self_export", "`%s` has not been exported from the executing module" % a[0])
                ops.append(c.v)
            elif op == "lookup":
                if len(ops) != 1:
                    raise Fail("lookup", "requires a single item on the stack")
                ob = self.deref(ops.pop())
                if ob is NIL:
                    raise Fail("lookup", "nil object")
                if isinstance(ob, ListRef) and a[0] in LIST_BUILTINS + ("map", "filter"):
                    ops.append(BuiltIn(a[0]))
                    ip = nxt
                    continue
                if isinstance(ob, tuple) and ob[0] == "str" and a[0] in STR_BUILTINS:
                    ops.append(BuiltIn(a[0], "str"))
                    ip = nxt
                    continue
                if isinstance(ob, MapRef) and a[0] in MAP_BUILTINS:
                    ops.append(BuiltIn(a[0], "map"))
                    ip = nxt
                    continue
                if isinstance(ob, Module):
                    c = ob.exports.get(a[0])
                    if c is None:
                        raise Fail("lookup", "`%s` is not exported" % a[0])
                    ops.append(CellPtr(c))
                    ip = nxt
                    continue
                if not isinstance(ob, Obj):
                    raise Unsupported("lookup `%s` on a non-object" % a[0])
                c = ob.vars.get(a[0])
                if c is None:
                    c = ob.vars.get(ob.cls + "::" + a[0])
                if c is None:
                    raise Fail("lookup", "`%s` does not exist" % a[0])
                ops.append(CellPtr(c))
            elif op == "ptr_mut":
                if len(ops) < 2:
                    raise Fail("ptr_mut", "requires [ptr, value]")
                nv = ops.pop()
                pt = ops.pop()
                if isinstance(nv, (Ptr, CellPtr, MapPtr)):
                    raise Unsupported("ptr_mut storing a pointer")
                if isinstance(pt, CellPtr):
                    pt.cell.v = nv
                elif isinstance(pt, MapPtr):
                    pt.map.items[pt.key] = self.deref(nv)
                elif isinstance(pt, Ptr):
                    pt.lst.items[pt.idx] = nv
                else:
                    raise Fail("ptr_mut", "expected a mutable heap primitive")
            elif op == "ld_self":
                c = self.find_name_in_function(a[0])
                if c is None:
                    raise Fail("ld_self", "`%s` not in this stack frame" % a[0])
                ops.insert(0, c.v)
            elif op == "delete_name_scoped":
                for nm in a:
                    if nm not in self.stack[-1].vars:
                        raise Fail("delete_name_scoped", nm + " not mapped at this scope")
                    del self.stack[-1].vars[nm]
            elif op == "delete_name_reference_scoped":
                if a[0] not in self.stack[-1].vars:
                    raise Fail("delete_name_reference_scoped", a[0] + " not mapped at this scope")
                ops.append(self.stack[-1].vars.pop(a[0]).v)
            elif op == "bin_op":
                if len(ops) < 2:
                    raise Fail("bin_op", "needs two operands")
                r = self.deref(ops.pop())
                l = self.deref(ops.pop())
                sym = a[0]
                if sym in ("=", "is"):
                    l, r = self.unsome(l), self.unsome(r)
                elif isinstance(l, Some) or isinstance(r, Some):
                    raise Fail("bin_op", "invalid binary operation on an Optional wrapper")
                if (l is NIL or r is NIL) and sym not in ("=", "is"):
                    raise Fail("bin_op", "invalid binary operation on nil")     # no operator impl accepts Optional(None)
                if sym in ("+", "-", "*", "/", "%"):
                    res = arith(o, sym, l, r)
                elif sym in ("<<", ">>"):
                    res = shift(o, sym, l, r)
                elif sym in ("<", "<=", ">", ">="):
                    res = compare(sym, l, r)
                elif sym == "=":
                    res = equals(l, r)
                elif sym in ("&&", "||", "^"):
                    res = logic(sym, l, r)
                elif sym == "is":
                    if isinstance(l, (Obj, ListRef)) and isinstance(r, (Obj, ListRef)):
                        res = l is r
                    else:
                        res = equals(l, r)
                else:
                    raise Unsupported("bin_op " + sym)
                ops.clear()
                ops.append(res)
            elif op == "bin_op_assign":
                if len(a) < 2:
                    # pointer form: [.., ptr, value] -> *ptr = *ptr op value ; the new element replaces the pointer on the stack
                    if len(ops) < 2:
                        raise Fail("bin_op_assign", "needs a pointer and a value")
                    v = self.deref(ops.pop())
                    pt = ops[-1]
                    sym = a[0][:-1]
                    if sym not in ("+", "-", "*", "/", "%"):
                        raise Unsupported("bin_op_assign " + a[0])
                    if isinstance(pt, Ptr):
                        res = arith(o, sym, self.deref(pt.lst.items[pt.idx]), v)
                        pt.lst.items[pt.idx] = res
                    elif isinstance(pt, CellPtr):
                        res = arith(o, sym, self.deref(pt.cell.v), v)
                        pt.cell.v = res
                    elif isinstance(pt, MapPtr):
                        if pt.key not in pt.map.items:
                            raise Fail("bin_op_assign", "no such key")
                        res = arith(o, sym, self.deref(pt.map.items[pt.key]), v)
                        pt.map.items[pt.key] = res
                    else:
                        raise Fail("bin_op_assign", "not a HeapPrimitive")
                    ops[-1] = res
                    ip = nxt
                    continue
                c = load_var(a[1])
                if c is None:
                    raise Fail("bin_op_assign", a[1] + " has not been mapped")
                if not ops:
                    raise Fail("bin_op_assign", "needs a value")
                v = self.deref(ops[-1])
                sym = a[0][:-1]
                if sym not in ("+", "-", "*", "/", "%"):
                    raise Unsupported("bin_op_assign " + a[0])
                res = arith(o, sym, c.v, v)
                c.v = res
                ops[-1] = res
            elif op in ("equ", "neq"):
                if len(ops) != 2:
                    raise Fail(op, "needs exactly two operands")
                x = self.unsome(self.deref(ops.pop()))
                y = self.unsome(self.deref(ops.pop()))
                e = equals(x, y)
                ops.append(e if op == "equ" else logic_not(e))
            elif op == "neg":
                if not ops:
                    raise Fail("neg", "needs an operand")
                ops[-1] = negate(o, self.deref(ops[-1]))
            elif op == "not":
                if not ops:
                    raise Fail("not", "needs an operand")
                v = self.deref(ops[-1])
                if not is_bool(v):
                    raise Fail("not", "can only negate booleans")
                ops[-1] = logic_not(v)
            elif op == "fast_rev2":
                if len(ops) != 2:
                    raise Fail("fast_rev2", "requires a stack size of 2")
                ops[0], ops[1] = ops[1], ops[0]
            elif op == "pop":
                if ops:
                    ops.pop()
            elif op == "void":
                ops.clear()
            elif op == "printn":
                if a[0] != "*":
                    raise Unsupported("printn with an index")
                if len(ops) == 1:
                    o.emit(ops[0])
                elif not ops:
                    o.emit(("str", ""))
                else:
                    raise Unsupported("printn of several values")
            elif op == "assert":
                if len(ops) != 1:
                    raise Fail("assert", "needs exactly one value")
                v = self.deref(ops.pop())
                if not is_bool(v):
                    raise Fail("assert", "not a bool")
                if not o.branch(v):
                    raise Fail("assert", a[0] if a else "")
            elif op in ("if_stmt", "while_loop"):
                if not ops:
                    raise Fail(op, "needs a condition")
                c = self.deref(ops.pop())
                ops.clear()
                if not is_bool(c):
                    raise Fail(op, "can only test booleans")
                if o.branch(c):
                    scopes += 1
                    self.stack.append(Frame("<if>" if op == "if_stmt" else "<while>"))
                else:
                    nxt = goto(int(a[0]))
            elif op == "else_stmt":
                scopes += 1
                self.stack.append(Frame("<else>"))
            elif op == "done":
                if scopes > 0:
                    scopes -= 1
                    self.pop_frame()
            elif op == "jmp":
                nxt = goto(int(a[0]))
            elif op == "jmp_pop":
                nxt = goto(int(a[0]))
                for _ in range(int(a[1]) if len(a) > 1 else 1):
                    self.pop_frame()
            elif op == "jmp_not_nil":
                if not ops:
                    raise Fail("jmp_not_nil", "needs a value")
                if self.deref(ops[-1]) is NIL:
                    ops.pop()
                else:
                    if isinstance(self.deref(ops[-1]), Some):
                        ops[-1] = self.deref(ops[-1]).v      # the present VALUE (fix 68c72f6)
                    nxt = goto(int(a[0]))
            elif op == "store_skip":
                if int(a[2]) < 0:
                    raise Fail("store_skip", "can only skip forwards")
                if len(ops) != 1:
                    raise Fail("store_skip", "needs exactly one value")
                v = self.deref(ops[-1])
                if not is_bool(v):
                    raise Fail("store_skip", "can only operate on bool")
                pred = int(a[1])
                val = o.branch(v)
                if (pred == 1 and val) or (pred != 1 and not val):
                    nxt = goto(int(a[2]))
                else:
                    ops.pop()
                    self.stack[-1].vars[a[0]] = Cell(val)
            elif op == "unwrap":
                if not ops:
                    raise Fail("unwrap", "needs a value")
                if self.deref(ops[-1]) is NIL:
                    raise Fail("unwrap", "unwrap of nil")
                if isinstance(self.deref(ops[-1]), Some):
                    ops[-1] = self.deref(ops[-1]).v
            elif op == "unwrap_into":
                if not ops:
                    raise Fail("unwrap_into", "needs a value")
                v = self.unsome(self.deref(ops.pop()))
                self.register_variable(a[0], v)       # nearest binding within the function (fix b1486bc)
                ops.append(v is not NIL)
            elif op in ("call", "call_self"):
                if op == "call_self":
                    target, caps = None, callback
                    for fr in reversed(self.stack):
                        if fr.label not in SPECIAL:
                            target = fr.label
                            break
                    if target is None:
                        raise Fail("call_self", "not run in a function")
                    fname = target[len(self.path) + 1:] if target.startswith(self.path + "#") else target
                    cargs = list(ops)
                elif a:
                    loc = a[0]
                    fname, caps, cargs = (loc[len(self.path) + 1:] if loc.startswith(self.path + "#") else loc), None, list(ops)
                else:
                    if not ops:
                        raise Fail("call", "the local stack is empty")
                    f = self.deref(ops.pop())
                    if isinstance(f, BuiltIn):
                        # native call: BuiltInFunction::run clones (and dereferences) every argument off the operand stack
                        bargs = [self.deref(x) for x in ops]
                        ops.clear()
                        if not bargs:
                            raise Fail("call", "built-in without a receiver")
                        # the native call runs inside its own frame; a failing built-in leaves that frame on the stack
                        if f.on != "map" and f.name in ("map", "filter"):
                            # callback-driven built-ins: the bridge calls the function value once per element, in order, and collects
                            # what it returns (map) / the elements it accepts (filter) in a NEW list
                            if not isinstance(bargs[0], ListRef) or len(bargs) != 2 or not isinstance(bargs[1], Fn):
                                raise Unsupported("map / filter operands")
                            out_items = []
                            for el in list(bargs[0].items):
                                r = self.run_function(bargs[1].name, [el], bargs[1].captures)
                                if f.name == "map":
                                    out_items.append(r)
                                else:
                                    r = self.deref(r)
                                    if not is_bool(r):
                                        raise Fail("filter", "callback did not return a bool")
                                    if o.branch(r):
                                        out_items.append(el)
                            ops.append(ListRef(out_items))
                            ip = nxt
                            continue
                        self.stack.append(Frame("<native code>#NonSweepingBuiltInFunction(%s)" % NATIVE_NAMES.get(f.name, f.name)))
                        rv = (map_builtin if f.on == "map" else str_builtin if f.on == "str" else list_builtin)(o, f.name, bargs[0], bargs[1:])
                        if f.on == "map" and f.name in ("remove", "replace") and rv is not NIL:
                            rv = Some(rv)       # MapRemove / MapReplace answer Optional(Some(Box(v)))
                        self.stack.pop()
                        if rv is not None:
                            ops.append(rv)
                        ip = nxt
                        continue
                    if not isinstance(f, Fn):
                        raise Fail("call", "not a function")
                    fname, caps, cargs = f.name, f.captures, list(ops)
                ops.clear()
                rv = self.run_function(fname, cargs, caps)
                if rv is not None:
                    ops.append(rv)
            elif op == "ret":
                if len(ops) > 1:
                    raise Fail("ret", "can only return a single item")
                rv = self.deref(ops.pop()) if ops else None        # a function returns a value, not a view (fix in `ret`)
                # pop_until_function
                while self.stack and self.stack[-1].label in SPECIAL:
                    self.stack.pop()
                self.pop_frame()
                return rv
            elif op == "ret_mod":
                if ops:
                    raise Fail("ret_mod", "should have a clean operating stack")
                while self.stack and self.stack[-1].label in SPECIAL:
                    self.stack.pop()
                self.pop_frame()
                return self.module(path)
            else:
                raise Unsupported("opcode `%s` has no summary in engine D" % op)
            ip = nxt
        # function concludes without ret
        if self.trace is not None:
            self.trace.append((name, n, len(self.stack), scopes, len(ops)))
        self.pop_frame()
        return None


def run_module(funcs, module_path, oracle, inputs, trace=None, holder=None, **kw):
    m = Machine(funcs, module_path, oracle, inputs, **kw)
    if holder is not None:
        holder["machine"] = m       # after a failing run: machine.stack = the frames active at the point of failure
    m.trace = trace
    m.run_function("__module__", [], None)
    return None
